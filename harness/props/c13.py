"""C13 — direct Fourier transform, preloaded variant and adjoint are exact and consistent."""
from __future__ import annotations

import json
import math
import random
from fractions import Fraction

import numpy as np

import gen
from common import PropertyCheck, load_autoarray, mask_json, q, qlist, qmat

TOL = 1e-9
ARCSEC = math.pi / 648000.0


def _f(x):
    if isinstance(x, str) and x in ("nan", "inf", "-inf"):      # non-finite outputs travel as these strings
        return float(x)
    return float(Fraction(x))


def _cx_list(a):
    return [[q(float(np.real(v))), q(float(np.imag(v)))] for v in np.asarray(a).ravel()]


def _cx_mat(a):
    a = np.asarray(a)
    return [[[q(float(np.real(v))), q(float(np.imag(v)))] for v in row] for row in a]


def _close_arr(got, exp, scale=None):
    got = np.asarray(got)
    exp = np.asarray(exp)
    if got.shape != exp.shape:
        return False, f"shape {got.shape} != {exp.shape}"
    if got.size == 0:
        return True, ""
    if not np.all(np.isfinite(got)):
        return False, "non-finite entries"
    s = max(1.0, float(np.max(np.abs(exp)))) if scale is None else scale
    d = np.abs(got - exp)
    i = int(np.argmax(d))
    if d.ravel()[i] > TOL * s:
        return False, f"entry {np.unravel_index(i, d.shape)}: got {got.ravel()[i]!r}, expected {exp.ravel()[i]!r}"
    return True, ""


# ======================================================================================================
# Round-5/6 hardening (DESIGN §14): layouts, exact power-of-two scaling, scribbling, configuration
# ======================================================================================================
LAYOUTS_2D = ("F", "T", "strided", "neg", "readonly", "window")
LAYOUTS_1D = ("strided", "neg", "readonly", "window")
CONF_DIAG = ("general", "inversion", "no_regularization_add_to_curvature_diag_value")


def _layout(a, how):
    """an equal-valued ndarray in another memory layout / with other flags (R5-C): Fortran order, the transposed
    view of a C array, a strided slice of a larger buffer with junk between the entries, negative strides, a
    window into a padded buffer, read-only."""
    a = np.asarray(a)
    if not how or how == "C":
        return a
    if how == "F":
        return np.asfortranarray(a)
    if how == "T":
        return np.ascontiguousarray(a.T).T
    if how == "strided":
        big = np.full(tuple(2 * s + 1 for s in a.shape), 7, dtype=a.dtype)
        sl = tuple(slice(1, None, 2) for _ in a.shape)
        big[sl] = a
        return big[sl]
    if how == "neg":
        rev = (slice(None, None, -1),) * a.ndim
        return np.ascontiguousarray(a[rev])[rev]
    if how == "window":
        big = np.full(tuple(s + 2 for s in a.shape), 7, dtype=a.dtype)
        sl = tuple(slice(1, -1) for _ in a.shape)
        big[sl] = a
        return big[sl]
    if how == "readonly":
        b = a.copy()
        b.setflags(write=False)
        return b
    raise ValueError(f"unknown layout {how}")


def _ldexp(a, k):
    """a * 2**k, exactly (real or complex ndarray; any integer k, also beyond the range of 2.0**k)"""
    a = np.asarray(a)
    if k == 0:
        return a
    if np.iscomplexobj(a):
        return np.ldexp(a.real, k) + 1j * np.ldexp(a.imag, k)
    return np.ldexp(a.astype(float), k)


def _scale_q(v, k):
    """the "p/q" string of v * 2**k (exact)"""
    f = Fraction(v)
    return q(f * (Fraction(2) ** k))


def _arrays_behind(o):
    """the ndarrays behind an object the API returned or accepted"""
    out = []
    if o is None:
        return out
    if isinstance(o, np.ndarray):
        out.append(o)
    else:
        a = getattr(o, "_array", None)
        if isinstance(a, np.ndarray):
            out.append(a)
        for name in ("ordered_1d", "weight_list_ordered_1d"):
            b = getattr(o, name, None)
            if isinstance(b, np.ndarray):
                out.append(b)
    return out


def _scribble_arrays(keep, mode):
    """overwrite IN PLACE every array in `keep` (what the API returned, what it accepted, what the objects hold):
    nothing built afterwards from fresh inputs may notice."""
    seen, n = set(), 0
    for o in keep:
        for a in _arrays_behind(o):
            if id(a) in seen or a.size == 0:
                continue
            seen.add(id(a))
            try:
                if a.dtype == bool:
                    np.logical_not(a, out=a)
                elif mode == "nan" and a.dtype.kind in "fc":
                    a[...] = np.nan
                elif mode == "add":
                    a += 1
                else:
                    a *= -3
                    a += 5
                n += 1
            except (ValueError, TypeError):      # read-only buffer
                pass
    return n


def _try(f):
    try:
        return f()
    except Exception:
        return None


class _Conf:
    """set configuration values for the duration of a block; ALWAYS restored (also on exceptions)"""

    def __init__(self, values=None):
        self.values = dict(values or {})       # {(section-file, section, key): value}
        self.old = {}

    def set(self, path, value):
        from autoconf import conf

        sec = conf.instance[path[0]][path[1]]
        if path not in self.old:
            self.old[path] = sec[path[2]]
        sec[path[2]] = value

    def __enter__(self):
        try:
            for path, value in self.values.items():
                self.set(tuple(path), value)
        except Exception:
            self.__exit__()
            raise
        return self

    def __exit__(self, *a):
        from autoconf import conf

        for path, value in self.old.items():
            conf.instance[path[0]][path[1]][path[2]] = value
        self.old = {}
        return False


DECOY_CONF = {
    "flip_for_ds9": (("general", "fits", "flip_for_ds9"), True),
    "positive_only": (("general", "inversion", "use_positive_only_solver"), False),
    "check_reconstruction": (("general", "inversion", "check_reconstruction"), False),
    "profiling_repeats": (("general", "profiling", "repeats"), 2),
}


# ======================================================================================================
# Round-4 hardening: histories on live, reused objects (DESIGN §13 m2) — helpers
# ======================================================================================================
TWIN = Fraction(1) + Fraction(1, 1 << 20)      # 1 + 2^-20 ~ 1e-6 relative: inside np.allclose, far outside 1e-9


def _decoy_reads(obj, depth=0, skip=()):
    """read every public property / cached property of `obj` (and, `depth` levels down, of the autoarray
    helper objects they return): reads that must not change anything observed afterwards."""
    n = 0
    if obj is None:
        return n
    for name in dir(type(obj)):
        if name.startswith("_") or name in skip:
            continue
        attr = getattr(type(obj), name, None)
        if attr is None or callable(attr) or not hasattr(attr, "__get__"):
            continue
        try:
            v = getattr(obj, name)
        except Exception:
            continue
        n += 1
        if depth and type(v).__module__.startswith("autoarray") and not isinstance(v, type(obj)):
            n += _decoy_reads(v, depth - 1, skip)
    return n


def _set_entries(obj, old, new, key="int"):
    """edit `obj` IN PLACE through its public __setitem__ until it holds `new` (1-D arrays of equal length):
    one index at a time, a slice assignment, or a boolean-mask key with a scalar."""
    idx = [i for i in range(len(new)) if old[i] != new[i]]
    if not idx:
        return
    if key == "slice":
        a, b = idx[0], idx[-1] + 1
        obj[a:b] = np.array(new[a:b])
    elif key == "bool" and len({complex(new[i]) for i in idx}) == 1:
        km = np.zeros(len(new), dtype=bool)
        km[idx] = True
        obj[km] = new[idx[0]]
    else:
        for i in idx:
            obj[i] = new[i]


def _cx_vals(pairs, s=1.0):
    return np.array([complex(_f(a), _f(b)) for a, b in pairs], dtype=complex) * s


def _derive(aa, v, op, operand=None, zero=None):
    """an object derived from the live structure `v` by the library's own arithmetic / copying.  `operand`: a
    plain ndarray of the same length; `zero`: a library-made structure of the same type holding exact zeros
    (e.g. the model visibilities of a zero image) for the `x - model` pattern."""
    import copy as _copy

    cls = type(v)
    is_vis = hasattr(v, "in_array")

    def wrap(a):
        return cls(visibilities=a) if is_vis else aa.Array2D(values=a, mask=v.mask)

    if op == "mul2":
        return 2.0 * v
    if op == "mulhalf":
        return v * 0.5
    if op == "neg":
        return -v
    if op == "div2":
        return v / 2.0
    if op == "muli":
        return v * 1j
    if op == "add":
        return v + wrap(operand)
    if op == "sub":
        return v - wrap(operand)
    if op == "rsub":
        return wrap(operand) - v
    if op == "add_nd":
        return v + operand
    if op == "sub_zero":
        return v - zero
    if op == "add_zero":
        return v + zero
    if op == "copy":
        return _copy.copy(v)
    if op == "dcopy":
        return _copy.deepcopy(v)
    if op == "mcopy":
        return v.copy()
    if op == "slice":
        return v[:]
    if op == "plus0":
        return v + 0.0
    if op == "astype":
        return v.astype(np.asarray(v).dtype)
    if op == "slim":
        return v.slim
    if op == "native_slim":
        return v.native.slim
    raise ValueError(f"unknown derivation {op}")


class _Env:
    """live objects shared by the steps of one history.  Every component is REUSED as long as the step's world
    holds the same content for it, edited IN PLACE (library __setitem__; numpy for caller-owned matrices) or
    replaced by a library-derived object when the step says so, and rebuilt only when what it was built from
    changed — so the expectation for every step is "a freshly built object in this state"."""

    def __init__(self, chk, aa):
        self.chk, self.aa = chk, aa
        self.w = None
        self.mask = None

    def _mask_step(self, world, how):
        chk, aa, prev = self.chk, self.aa, self.w
        geom = lambda w: (w["mask"]["h"], w["mask"]["w"], w["pixel_scales"], w["origin"])
        if prev is None or how.get("mask") == "new" or geom(prev) != geom(world):
            self.mask = chk._mask(aa, world)
            return True
        if prev["mask"]["bits"] != world["mask"]["bits"]:
            wd = world["mask"]["w"]
            for i, (a, b) in enumerate(zip(prev["mask"]["bits"], world["mask"]["bits"])):
                if a != b:
                    self.mask[i // wd, i % wd] = (b == "1")      # Mask2D.__setitem__, in place
            return True
        return False

    def _structure_step(self, live, prev_vals, vals, mode, how, role, build, s=1.0, zero=None):
        """-> (object, replaced?)"""
        new = np.array(vals) * s
        if live is not None and prev_vals is not None and len(prev_vals) == len(vals) + 1 \
                and mode in ("arith:tail", "arith:head"):
            return (live[1:] if mode == "arith:tail" else live[:-1]), True     # derived by slicing
        if live is None or prev_vals is None or mode == "new" or len(prev_vals) != len(vals):
            return build(), True
        if mode.startswith("arith:"):
            opnd = how.get(role + "_operand")
            if opnd is not None:
                opnd = (np.array([_f(v) for v in opnd]) if role == "image" else _cx_vals(opnd)) * s
            return _derive(self.aa, live, mode[6:], opnd, zero() if zero else None), True
        old = np.array(prev_vals) * s
        _set_entries(live, old, new, how.get(role + "_key", "int"))
        return live, False


class _TEnv(_Env):
    def __init__(self, chk, aa):
        super().__init__(chk, aa)
        self.image = self.vis = self.M = None
        self.t = {}

    def _build_transformers(self, world, how):
        chk, aa = self.chk, self.aa
        feed = world.get("feed") or {}
        self.t = {}
        shared = chk._uv_in(world) if how.get("share_uv") else None
        ins = []
        for pl in how.get("preload_order") or [True, False]:
            uv_in = shared if shared is not None else chk._uv_in(world)
            if pl and feed.get("preload_kw") == "default":
                self.t[pl] = aa.TransformerDFT(uv_wavelengths=uv_in, real_space_mask=self.mask)
            else:
                self.t[pl] = aa.TransformerDFT(uv_wavelengths=uv_in, real_space_mask=self.mask,
                                               preload_transform=pl)
            ins.append(uv_in)
        for uv_in in (ins[:1] if shared is not None else ins):
            chk._scribble(world, uv_in)

    def _fault(self, kind, world):
        """an operation that raises in the middle; the same objects are used afterwards"""
        aa = self.aa
        mj = world["mask"]
        n = mj["bits"].count("0")
        for t in list(self.t.values()):
            try:
                if kind == "short_vis":
                    k = len(world["uv"])
                    t.image_from(visibilities=aa.Visibilities(visibilities=np.ones(max(k - 1, 0), dtype=complex)))
                elif kind == "long_image":
                    big = aa.Mask2D(mask=np.zeros((mj["h"] + 1, mj["w"] + 1), dtype=bool), pixel_scales=(1.0, 1.0))
                    t.visibilities_from(image=aa.Array2D(values=np.ones((mj["h"] + 1) * (mj["w"] + 1)), mask=big))
                elif kind == "tall_M":
                    t.transform_mapping_matrix(mapping_matrix=np.ones((n + 2, world["n_cols"])))
            except Exception:
                pass
        if kind == "bad_ctor":
            for pl in (True, False):
                try:
                    aa.TransformerDFT(uv_wavelengths=np.ones(3), real_space_mask=self.mask, preload_transform=pl)
                except Exception:
                    pass

    def step(self, world, how, pw=0):
        chk, aa, prev = self.chk, self.aa, self.w
        s = 2.0 ** -pw
        feed = world.get("feed") or {}
        mask_changed = self._mask_step(world, how)
        if mask_changed or prev["uv"] != world["uv"] or how.get("t") == "new" or not self.t:
            self._build_transformers(world, how)
        elif how.get("t") in ("copy", "deepcopy"):      # transformers derived from the live ones
            import copy as _copy
            self.t = {pl: (_copy.copy(t) if how["t"] == "copy" else _copy.deepcopy(t)) for pl, t in self.t.items()}

        def new_image():
            vals = chk._image_in(world)
            if pw:
                vals = np.asarray(vals, dtype=float) * s
            return aa.Array2D(values=vals, mask=self.mask)

        def zero_image():   # the adjoint image of exactly-zero visibilities, made by the library
            k = len(world["uv"])
            return self.t[True].image_from(visibilities=aa.Visibilities(visibilities=np.zeros(k, dtype=complex)))

        def new_vis():
            vb = how.get("vis_build")
            if vb in ("zeros_set", "ones_set", "full_set") and world["vis"]:
                k = len(world["vis"])
                v = {"zeros_set": lambda: aa.Visibilities.zeros(shape_slim=(k,)),
                     "ones_set": lambda: aa.Visibilities.ones(shape_slim=(k,)),
                     "full_set": lambda: aa.Visibilities.full(fill_value=2.5, shape_slim=(k,))}[vb]()
                tgt = _cx_vals(world["vis"], s)
                if vb == "full_set":
                    v[:] = tgt
                else:
                    for i in range(k):
                        v[i] = tgt[i]
                return v
            v = chk._vis_in(aa, world["vis"], feed.get("vis", "complex"))
            return type(v)(visibilities=np.asarray(v) * s) if pw else v

        def zero_vis():     # the model visibilities of an exactly-zero image, made by the library
            n = world["mask"]["bits"].count("0")
            return self.t[False].visibilities_from(image=aa.Array2D(values=np.zeros(n), mask=self.mask))

        pim = None if (prev is None or mask_changed) else [_f(v) for v in prev["image"]]
        self.image, _ = self._structure_step(self.image, pim, [_f(v) for v in world["image"]],
                                             how.get("image", "setitem"), how, "image", new_image, s, zero_image)
        pvi = None if prev is None else list(_cx_vals(prev["vis"]))
        self.vis, _ = self._structure_step(self.vis, pvi, list(_cx_vals(world["vis"])),
                                           how.get("vis", "setitem"), how, "vis", new_vis, s, zero_vis)
        tgt = chk._matrix_in(world["M"], world["n_cols"], "float") * s
        if self.M is None or how.get("M") == "new" or self.M.shape != tgt.shape:
            self.M = chk._matrix_in(world["M"], world["n_cols"], feed.get("M", "float")) * (s if pw else 1)
        else:
            for i, j in np.argwhere(self.M != tgt):
                self.M[i, j] = tgt[i, j]              # the caller edits its own matrix in place
        self.w = world
        if how.get("fault"):
            self._fault(how["fault"], world)
        if how.get("decoy"):
            for o in (self.vis, self.image, *self.t.values()):
                _decoy_reads(o)
            _decoy_reads(self.mask, depth=1)
        obs = {}
        for pl in how.get("preload_order") or [True, False]:
            obs["preload_" + str(pl).lower()] = chk._read_transformer(
                self.t[pl], self.image, self.vis, self.M, world, how.get("order"), pw)
        return obs


class _NEnv(_Env):
    def __init__(self, chk, aa):
        super().__init__(chk, aa)
        self.t = self.uv = self.data = self.noise = self.settings = self.ds = None
        self.skey = None
        self.objs, self.Ms = [], []

    def _new_objs(self, world):
        chk, aa = self.chk, self.aa
        feed = world.get("feed") or {}
        self.objs, self.Ms = [], []
        for o in world["objs"]:
            mk = feed.get("M", "float")
            if mk == "int64" and not all(Fraction(v).denominator == 1 for r in o["M"] for v in r):
                mk = "float"
            M = chk._matrix_in(o["M"], o["n_cols"], mk)
            reg = aa.m.MockRegularization(regularization_matrix=np.eye(o["n_cols"])) if o["has_reg"] else None
            if o["cls"] == "mapper":
                self.objs.append(aa.m.MockMapper(mapping_matrix=M, parameters=o["n_cols"], regularization=reg,
                                                 edge_pixel_list=[]))
            else:
                self.objs.append(aa.m.MockLinearObj(mapping_matrix=M, parameters=o["n_cols"], regularization=reg))
            self.Ms.append(M)

    def _new_settings(self, world):
        aa = self.aa
        if world["default_settings"]:
            return aa.SettingsInversion(use_w_tilde=False)
        return aa.SettingsInversion(
            use_w_tilde=False, no_regularization_add_to_curvature_diag_value=_f(world["diag_value"]))

    def _inversion(self, ds, objs, world):
        aa = self.aa
        if world["via_factory"]:
            return aa.Inversion(dataset=ds, linear_obj_list=objs, settings=self.settings)
        return aa.InversionInterferometerMapping(dataset=ds, linear_obj_list=objs, settings=self.settings)

    def step(self, world, how, pw=0):
        from autoarray.inversion.inversion.dataset_interface import DatasetInterface

        chk, aa, prev = self.chk, self.aa, self.w
        feed = world.get("feed") or {}
        mask_changed = self._mask_step(world, how)
        new_t = (mask_changed or self.t is None or prev["uv"] != world["uv"] or how.get("t") == "new"
                 or prev["preload"] != world["preload"])

        def zero_vis():
            n = world["mask"]["bits"].count("0")
            t = self.t if self.t is not None and not new_t else aa.TransformerDFT(
                uv_wavelengths=chk._uv_in(world), real_space_mask=self.mask, preload_transform=False)
            return t.visibilities_from(image=aa.Array2D(values=np.zeros(n), mask=self.mask))

        pd = None if prev is None else list(_cx_vals(prev["data"]))
        self.data, rd = self._structure_step(
            self.data, pd, list(_cx_vals(world["data"])), how.get("data", "setitem"), how, "data",
            lambda: chk._vis_in(aa, world["data"], feed.get("vis", "complex")), 1.0, zero_vis)
        pn = None if prev is None else list(_cx_vals(prev["noise"]))
        self.noise, rn = self._structure_step(
            self.noise, pn, list(_cx_vals(world["noise"])), how.get("noise", "setitem"), how, "noise",
            lambda: chk._vis_in(aa, world["noise"], feed.get("vis", "complex"), aa.VisibilitiesNoiseMap))
        struct = lambda w: [(o["n_cols"], o["has_reg"], o["cls"], len(o["M"])) for o in w["objs"]]
        if prev is None or how.get("M") == "new" or struct(prev) != struct(world):
            self._new_objs(world)
        else:
            for M, o in zip(self.Ms, world["objs"]):
                tgt = chk._matrix_in(o["M"], o["n_cols"], "float")
                for i, j in np.argwhere(M != tgt):
                    M[i, j] = tgt[i, j]               # the mapping matrix held by the linear object, edited in place
        skey = (bool(world["default_settings"]), None if world["default_settings"] else world["diag_value"])
        if self.settings is None or how.get("settings") == "new":
            self.settings = self._new_settings(world)
        elif skey != self.skey:       # (the value has no public setter: a settings object is never edited)
            self.settings = self._new_settings(world)
        self.skey = skey
        if (self.ds is None or new_t or rd or rn or how.get("dataset") == "new"
                or prev["via_factory"] != world["via_factory"]):
            if new_t:
                self.uv = chk._uv_in(world)
            if world["via_factory"]:
                self.ds = aa.Interferometer(data=self.data, noise_map=self.noise, uv_wavelengths=self.uv,
                                            real_space_mask=self.mask, transformer_class=aa.TransformerDFT)
                if new_t:
                    if self.ds.transformer.preload_transform != world["preload"]:
                        self.ds.transformer = aa.TransformerDFT(uv_wavelengths=self.uv, real_space_mask=self.mask,
                                                                preload_transform=world["preload"])
                    self.t = self.ds.transformer
                else:
                    self.ds.transformer = self.t       # one transformer shared by two datasets
            else:
                if new_t:
                    self.t = aa.TransformerDFT(uv_wavelengths=self.uv, real_space_mask=self.mask,
                                               preload_transform=world["preload"])
                self.ds = DatasetInterface(data=self.data, noise_map=self.noise, transformer=self.t)
            if new_t:
                chk._scribble(world, self.uv)
        self.w = world
        n = world["mask"]["bits"].count("0")
        if how.get("fault") == "tall_M":
            try:
                bad = [aa.m.MockMapper(mapping_matrix=np.ones((n + 1, 1)), parameters=1, regularization=None,
                                       edge_pixel_list=[])]
                inv_bad = self._inversion(self.ds, bad + list(self.objs), world)
                inv_bad.data_vector
                inv_bad.curvature_matrix
            except Exception:
                pass
        elif how.get("fault") == "short_data":
            try:
                k = len(world["uv"])
                short = DatasetInterface(data=aa.Visibilities(visibilities=np.ones(max(k - 1, 0), dtype=complex)),
                                         noise_map=self.noise, transformer=self.t)
                inv_bad = aa.InversionInterferometerMapping(dataset=short, linear_obj_list=list(self.objs),
                                                            settings=self.settings)
                inv_bad.data_vector
            except Exception:
                pass
        inv = self._inversion(self.ds, list(self.objs), world)
        if how.get("decoy"):
            for o in (self.data, self.noise, self.t):
                _decoy_reads(o)
            if how.get("decoy") == "deep":
                _decoy_reads(self.ds, skip=("w_tilde",))
                _decoy_reads(inv, skip=chk.READS_N)
        return chk._read_normal(inv, how.get("order"))


class C13(PropertyCheck):
    pid = "C13"
    title = "direct Fourier transform"
    rtol = Fraction(1, 10 ** 9)
    nontrivial_rule = (
        "a case is non-trivial when it has >= 2 unmasked pixels (or grid points) and >= 1 non-zero "
        "baseline; distinct = distinct (kind, mask/grid, scales, origin, baselines, arrays)"
    )
    exhaustive_note = {
        "quick": "every mask with >=1 unmasked pixel for every shape with H*W <= 4 (fixed baseline set incl. zero and a repeated baseline)",
        "thorough": "every mask with >=1 unmasked pixel for every shape with H*W <= 6 (fixed baseline set incl. zero and a repeated baseline)",
    }
    trusted_extra = [
        "libm cos/sin and the double 3.141592653589793 are parameters of the model (Float in the driver, outputs compared at 1e-9 relative to max(1,|value|))",
        "np.dot / np.hstack / complex arithmetic of numpy are modelled (finite sums, pair arithmetic), not verified",
        "the pylops base class is replaced by a three-line stand-in (common.load_autoarray)",
    ]
    # loop ties (DESIGN §12): regenerated from the source on every run, tie theorems proved for all sizes
    loop_tie_modules = ["LoopsDFT", "LoopsDFT2"]
    modelled_functions = [
        "autoarray/operators/transformer_util.py:preload_real_transforms",
        "autoarray/operators/transformer_util.py:preload_imag_transforms",
        "autoarray/operators/transformer_util.py:visibilities_via_preload_jit_from",
        "autoarray/operators/transformer_util.py:visibilities_jit",
        "autoarray/operators/transformer_util.py:image_via_jit_from",
        "autoarray/operators/transformer_util.py:transformed_mapping_matrix_via_preload_jit_from",
        "autoarray/operators/transformer_util.py:transformed_mapping_matrix_jit",
        "autoarray/operators/transformer.py:TransformerDFT.__init__",
        "autoarray/operators/transformer.py:TransformerDFT.visibilities_from",
        "autoarray/operators/transformer.py:TransformerDFT.image_from",
        "autoarray/operators/transformer.py:TransformerDFT.transform_mapping_matrix",
        "autoarray/structures/grids/grid_2d_util.py:grid_2d_slim_via_mask_from",
        "autoarray/geometry/geometry_util.py:central_scaled_coordinate_2d_from",
        "autoarray/geometry/geometry_util.py:central_pixel_coordinates_2d_from",
        "autoarray/structures/grids/uniform_2d.py:Grid2D.in_radians",
        "autoarray/mask/derive/grid_2d.py:DeriveGrid2D.unmasked",
        "autoarray/structures/arrays/array_2d_util.py:array_2d_native_from",
        "autoarray/structures/visibilities.py:AbstractVisibilities.__init__",
        "autoarray/structures/visibilities.py:AbstractVisibilities.in_array",
        "autoarray/inversion/inversion/interferometer/inversion_interferometer_util.py:data_vector_via_transformed_mapping_matrix_from",
        "autoarray/inversion/inversion/interferometer/mapping.py:InversionInterferometerMapping.data_vector",
        "autoarray/inversion/inversion/interferometer/mapping.py:InversionInterferometerMapping.curvature_matrix",
        "autoarray/inversion/inversion/interferometer/abstract.py:AbstractInversionInterferometer.operated_mapping_matrix_list",
        "autoarray/inversion/inversion/abstract.py:AbstractInversion.operated_mapping_matrix",
        "autoarray/inversion/inversion/abstract.py:AbstractInversion.no_regularization_index_list",
        "autoarray/inversion/inversion/abstract.py:AbstractInversion.param_range_list_from",
        "autoarray/inversion/inversion/inversion_util.py:curvature_matrix_via_mapping_matrix_from",
        "autoarray/inversion/inversion/inversion_util.py:curvature_matrix_with_added_to_diag_from",
    ]
    assumptions = [
        "images are slim-stored (TransformerDFT.visibilities_from reads np.array(image) on the preload path)",
        "noise-map real and imaginary parts are non-zero",
        "|phase| stays below ~1e3 rad so that double rounding of the phase is far below the 1e-9 comparison band",
    ]

    # ------------------------------------------------------------------ generation
    def _uv(self, rng, k, force_special=True):
        uv = []
        for _ in range(k):
            uv.append([Fraction(rng.randint(-200000, 200000)), Fraction(rng.randint(-200000, 200000))])
        if force_special and k >= 2:
            uv[rng.randrange(k)] = [Fraction(0), Fraction(0)]          # zero baseline
        if force_special and k >= 3:
            i, j = rng.sample(range(k), 2)
            uv[j] = list(uv[i])                                        # repeated baseline
        if rng.random() < 0.3:
            i = rng.randrange(k)
            uv[i] = [uv[i][0] + Fraction(1, 2), uv[i][1] - Fraction(3, 4)]  # non-integer
        return uv

    def _matrix(self, rng, n, c, signed=True, ints=False):
        out = []
        for _ in range(n):
            row = []
            for _ in range(c):
                r = rng.random()
                mag = Fraction(rng.randint(1, 4)) if ints else gen.pos_dyadic(rng, 1, 3, 2)
                if r < 0.3:
                    v = Fraction(0)
                elif signed and r < 0.65:
                    v = -mag
                else:
                    v = mag
                row.append(v)
            out.append(row)
        return out

    def _val(self, rng, ints):
        return Fraction(rng.randint(-5, 5)) if ints else gen.dyadic(rng, -4, 4, 3)

    def _feed(self, rng, ints, uv):
        """how the numbers reach the public API (round-3 hardening): dtype / container of every array
        argument, explicit-default keyword values, and whether the caller's baseline array is
        overwritten after the transformer was built (the transformer must own its baselines)."""
        uv_int = all(Fraction(a).denominator == 1 and Fraction(b).denominator == 1 for a, b in uv)
        return {
            "uv_dtype": "int64" if (uv_int and rng.random() < 0.3) else "float",
            "image": rng.choice(["int64", "pyint_list"]) if ints else rng.choice(["float", "float_list", "float32"]),
            "M": "int64" if ints else rng.choice(["float", "float32"]),
            # complex ndarray / python list of complex / float array of (re, im) pairs
            "vis": rng.choice(["complex", "list", "pairs"]),
            # preload_transform=True passed explicitly or left to its default (True)
            "preload_kw": rng.choice(["explicit", "default"]),
            "scribble_uv": rng.random() < 0.5,
        }

    def _transformer_case(self, rng, m, tag, k=None, c=None, fixed_uv=None, ints=None):
        n = sum(1 for r in m for b in r if not b)
        k = rng.randint(1, 6) if k is None else k
        c = c or rng.randint(1, 4)
        if ints is None:
            ints = rng.random() < 0.22
        sy, sx = gen.scales_pair(rng)
        oy, ox = gen.origin_pair(rng)
        if rng.random() < 0.25:
            oy, ox = Fraction(0), Fraction(0)
        uv = fixed_uv if fixed_uv is not None else (self._uv(rng, k) if k > 0 else [])
        k = len(uv)
        uvq = [qlist(p) for p in uv]
        return {
            "tag": tag + ("_int" if ints else ""), "kind": "transformer", "mask": mask_json(m),
            "pixel_scales": [q(sy), q(sx)], "origin": [q(oy), q(ox)],
            "uv": uvq,
            "image": qlist([self._val(rng, ints) for _ in range(n)]),
            "vis": [qlist([self._val(rng, ints), self._val(rng, ints)]) for _ in range(k)],
            "M": qmat(self._matrix(rng, n, c, ints=ints)), "n_cols": c,
            "feed": self._feed(rng, ints, uvq),
        }

    def _normal_case(self, rng, m, tag):
        n = sum(1 for r in m for b in r if not b)
        k = rng.randint(2, 6)
        sy, sx = gen.scales_pair(rng)
        oy, ox = gen.origin_pair(rng)
        nobj = rng.randint(1, 3)
        style = rng.choice(["all_reg", "partial", "none_reg"])
        objs = []
        for j in range(nobj):
            c = rng.randint(1, 3)
            has = {"all_reg": True, "none_reg": False}.get(style, rng.random() < 0.5)
            objs.append({"M": qmat(self._matrix(rng, n, c)), "n_cols": c, "has_reg": has,
                         "cls": rng.choice(["mapper", "linear"])})
        return {
            "tag": tag + "_" + style, "kind": "normal_eq", "mask": mask_json(m),
            "pixel_scales": [q(sy), q(sx)], "origin": [q(oy), q(ox)],
            "uv": [qlist(p) for p in self._uv(rng, k)],
            "data": [qlist([gen.dyadic(rng, -4, 4, 3), gen.dyadic(rng, -4, 4, 3)]) for _ in range(k)],
            "noise": [qlist([gen.pos_dyadic(rng, 1, 4, 2), gen.pos_dyadic(rng, 1, 4, 2)]) for _ in range(k)],
            # explicit values incl. the "set but falsy" 0 and the explicit value equal to the package default
            "diag_value": q(rng.choice([Fraction(1, 1024), Fraction(1, 2), Fraction(3), Fraction(0),
                                        Fraction(1.0e-3)])),
            "default_settings": rng.random() < 0.25,
            "via_factory": rng.random() < 0.4,
            "preload": rng.random() < 0.5,
            "objs": objs,
            "feed": {"uv_dtype": "float", "M": rng.choice(["float", "int64", "float32"]),
                     "vis": rng.choice(["complex", "list", "pairs"]),
                     "scribble_uv": rng.random() < 0.5},
        }

    def _util_case(self, rng, tag):
        n = rng.randint(1, 8)
        k = rng.randint(1, 5)
        c = rng.randint(1, 3)
        # arbitrary (irregular, repeated, zero) grid positions in radians: dyadic multiples of 2^-24
        grid = [[Fraction(rng.randint(-400, 400), 1 << 24), Fraction(rng.randint(-400, 400), 1 << 24)]
                for _ in range(n)]
        if n >= 2 and rng.random() < 0.5:
            grid[1] = list(grid[0])
        ints = rng.random() < 0.25
        uvq = [qlist(p) for p in self._uv(rng, k)]
        return {
            "tag": tag + ("_int" if ints else ""), "kind": "util", "grid": [qlist(p) for p in grid],
            "uv": uvq,
            "image": qlist([self._val(rng, ints) for _ in range(n)]),
            "vis": [qlist([self._val(rng, ints), self._val(rng, ints)]) for _ in range(k)],
            "M": qmat(self._matrix(rng, n, c, ints=ints)), "n_cols": c,
            "feed": self._feed(rng, ints, uvq),
        }

    def generate(self, tier, rng):
        cells = 4 if tier == "quick" else 6
        fixed_uv = [[Fraction(30000), Fraction(-70000)], [Fraction(0), Fraction(0)],
                    [Fraction(-125000), Fraction(40000)], [Fraction(30000), Fraction(-70000)]]
        for (h, w) in gen.shapes_upto(cells):
            for m in gen.all_masks(h, w):
                yield self._transformer_case(rng, m, "exh_mask", c=2, fixed_uv=fixed_uv)
        # degenerate sizes: no unmasked pixel, no baseline, a single baseline, a single pixel
        for (h, w) in gen.shapes_upto(4):
            yield self._transformer_case(rng, gen.full(h, w), "zero_pixels", c=2)
            yield self._transformer_case(rng, gen.full(h, w, False), "zero_baselines", k=0, c=2)
            yield self._transformer_case(rng, gen.full(h, w, False), "one_baseline", k=1, c=1)
        yield self._transformer_case(rng, [[False]], "one_pixel_zero_baselines", k=0, c=1)
        n = 300 if tier == "quick" else 2500
        for i in range(n):
            h, w = rng.randint(1, 7), rng.randint(1, 7)
            m, kind = gen.random_mask(rng, h, w)
            yield self._transformer_case(rng, m, f"rnd_{kind}")
        for i in range(100 if tier == "quick" else 800):
            yield self._util_case(rng, "util")
        for i in range(150 if tier == "quick" else 1200):
            h, w = rng.randint(1, 6), rng.randint(1, 6)
            m, kind = gen.random_mask(rng, h, w)
            yield self._normal_case(rng, m, "normal")
        # round-4: short typed histories on live, reused objects (every step is compared with the model / oracle
        # value of a freshly built object in that state)
        for i in range(600 if tier == "quick" else 4000):
            yield self._history_transformer(rng)
        for i in range(350 if tier == "quick" else 2500):
            yield self._history_normal(rng)
        # round-5/6 (DESIGN §14): decades, near-degenerate worlds, layouts, option crossing, ownership and
        # configuration histories, always-on large sizes — drawn from their own generator so that the streams
        # above stay what they were for a given seed
        yield from self._generate_r5(tier, random.Random(rng.randrange(1 << 62)))

    # ------------------------------------------------------------------ implementation
    def _mask(self, aa, case):
        mj = case["mask"]
        mb = np.array([c == "1" for c in mj["bits"]], dtype=bool).reshape(mj["h"], mj["w"])
        sy, sx = (_f(v) for v in case["pixel_scales"])
        oy, ox = (_f(v) for v in case["origin"])
        how = (case.get("feed") or {}).get("mask")
        if not how:
            return aa.Mask2D(mask=mb, pixel_scales=(sy, sx), origin=(oy, ox))
        # R5-C: the same mask reaching the constructor in another container / layout / by another route
        ps, org = (sy, sx), (oy, ox)
        for flag in how.split("+")[1:]:
            if flag == "scalar_scale" and sy == sx:
                ps = sy
            elif flag == "int_scales" and sy == int(sy) and sx == int(sx):
                ps = (int(sy), int(sx))
            elif flag == "int_origin" and oy == int(oy) and ox == int(ox):
                org = (int(oy), int(ox))
            elif flag == "list_scales":
                ps = [sy, sx]
        base = how.split("+")[0]
        if base == "list":
            return aa.Mask2D(mask=mb.tolist(), pixel_scales=ps, origin=org)
        if base in LAYOUTS_2D:
            return aa.Mask2D(mask=_layout(mb, base), pixel_scales=ps, origin=org)
        if base == "invert":
            return aa.Mask2D(mask=~mb, pixel_scales=ps, origin=org, invert=True)
        if base == "all_false" and not mb.any():
            return aa.Mask2D.all_false(shape_native=(mj["h"], mj["w"]), pixel_scales=ps, origin=org)
        if base == "from_mask":       # a mask built from a mask of the same geometry
            m0 = aa.Mask2D(mask=mb, pixel_scales=(sy, sx), origin=(oy, ox))
            return aa.Mask2D(mask=m0, pixel_scales=ps, origin=org)
        if base == "from_mask_other":  # ... from a mask with ANOTHER geometry: the explicit arguments win
            m0 = aa.Mask2D(mask=mb, pixel_scales=(2.0 * sy, 0.5 * sx), origin=(oy + 3.0, ox - 2.0))
            return aa.Mask2D(mask=m0, pixel_scales=ps, origin=org)
        if base == "from_mask_default_origin" and oy == 0 and ox == 0:
            m0 = aa.Mask2D(mask=mb, pixel_scales=(sy, sx), origin=(1.5, -2.25))
            if "+explicit" in how:
                return aa.Mask2D(mask=m0, pixel_scales=ps, origin=(0.0, 0.0))
            return aa.Mask2D(mask=m0, pixel_scales=ps)
        return aa.Mask2D(mask=mb, pixel_scales=ps, origin=org)

    # -- feeding helpers (dtype / container variants; the real numbers are unchanged)
    def _uv_in(self, case):
        feed = case.get("feed") or {}
        dt = feed.get("uv_dtype")
        if dt in ("int64", "int32"):
            a = np.array([[int(Fraction(a)), int(Fraction(b))] for a, b in case["uv"]],
                         dtype=np.int64 if dt == "int64" else np.int32).reshape(-1, 2)
        else:
            a = np.array([[_f(a), _f(b)] for a, b in case["uv"]], dtype=float).reshape(-1, 2)
            if dt == "float32" and np.array_equal(a.astype(np.float32).astype(float), a):
                a = a.astype(np.float32)
        return _layout(a, feed.get("uv_layout"))

    def _scribble(self, case, uv_in):
        """overwrite the CALLER's baseline array after construction: nothing may change."""
        if (case.get("feed") or {}).get("scribble_uv") and uv_in.size and uv_in.flags.writeable:
            uv_in *= -3
            uv_in += 12345

    def _image_in(self, case, flat=False):
        """`flat`: only 1-D forms (the util functions take a plain 1-D array)"""
        feed = case.get("feed") or {}
        kind = feed.get("image", "float")
        lay = feed.get("image_layout")
        if kind == "pyint_list":
            return [int(Fraction(v)) for v in case["image"]]
        if kind == "float_list":
            return [_f(v) for v in case["image"]]
        if kind in ("int64", "int32"):
            a = np.array([int(Fraction(v)) for v in case["image"]], dtype=np.int64 if kind == "int64" else np.int32)
        elif kind == "float32":
            a = np.array([_f(v) for v in case["image"]], dtype=np.float32)
        else:
            a = np.array([_f(v) for v in case["image"]], dtype=float)
        if lay in LAYOUTS_1D:
            return _layout(a, lay)
        if lay and lay.startswith("native") and not flat and "mask" in case:
            # the (H, W) native form: values at the unmasked pixels, junk under the mask (which the constructor zeroes)
            mj = case["mask"]
            nat = np.full(mj["h"] * mj["w"], 9.75 if a.dtype.kind == "f" else 9, dtype=a.dtype)
            nat[[i for i, b in enumerate(mj["bits"]) if b == "0"]] = a
            nat = nat.reshape(mj["h"], mj["w"])
            if lay == "native_list":
                return nat.tolist()
            return _layout(nat, lay.partition(":")[2])
        return a

    def _matrix_in(self, rows, n_cols, kind):
        kind, _, lay = (kind or "float").partition("|")
        if kind in ("int64", "int32") and all(Fraction(v).denominator == 1 for r in rows for v in r):
            a = np.array([[int(Fraction(v)) for v in r] for r in rows],
                         dtype=np.int64 if kind == "int64" else np.int32).reshape(-1, n_cols)
        else:
            a = np.array([[_f(v) for v in r] for r in rows], dtype=float).reshape(-1, n_cols)
            if kind == "float32":
                a = a.astype(np.float32)
        return _layout(a, lay)

    def _vis_in(self, aa, pairs, kind, cls=None):
        cls = cls or aa.Visibilities
        kind, _, lay = (kind or "complex").partition("|")
        if kind == "list" and pairs:
            return cls(visibilities=[complex(_f(a), _f(b)) for a, b in pairs])
        if kind == "pairs" and pairs:
            return cls(visibilities=_layout(np.array([[_f(a), _f(b)] for a, b in pairs], dtype=float), lay))
        a = np.array([complex(_f(a), _f(b)) for a, b in pairs], dtype=complex)
        if kind == "complex64" and np.array_equal(a.astype(np.complex64).astype(complex), a):
            a = a.astype(np.complex64)
        return cls(visibilities=_layout(a, lay))

    PRELOAD_VALS = {"bool": (True, False), "np": (np.True_, np.False_), "int": (1, 0)}
    ADJOINT_VALS = {"false": False, "zero": 0, "none": None, "true": True, "np_false": np.False_}

    def _preload_value(self, feed, preload):
        t, f = self.PRELOAD_VALS[feed.get("preload_vals", "bool")]
        return t if preload else f

    def _settings(self, aa, case):
        """SettingsInversion for a normal-equation case; feed["settings_kw"]: further constructor options (R5-F:
        they must not change the three observed quantities)"""
        feed = case.get("feed") or {}
        kw = dict(feed.get("settings_kw") or {})
        kw.setdefault("use_w_tilde", False)
        if not case["default_settings"]:
            kw["no_regularization_add_to_curvature_diag_value"] = _f(case["diag_value"])
        elif feed.get("diag_none_kw"):        # the default passed explicitly
            kw["no_regularization_add_to_curvature_diag_value"] = None
        return aa.SettingsInversion(**kw)

    def _inv_kw(self, aa, case):
        ik = (case.get("feed") or {}).get("inv_kw") or {}
        kw = {}
        if ik.get("run_time_dict") == "empty":
            kw["run_time_dict"] = {}
        elif ik.get("run_time_dict") == "none":
            kw["run_time_dict"] = None
        if ik.get("preloads") == "fresh":
            kw["preloads"] = aa.Preloads()
        return kw

    def _run_plain(self, case, raw=False, keep=None):
        """`raw`: leave the outputs as numpy arrays (large cases: judged in memory by the oracle, summarised by
        numpy when printed) instead of exact "p/q" strings.  `keep`: a list that receives every array / structure
        the API accepted or returned (ownership histories scribble over them afterwards)."""
        aa = load_autoarray()
        feed = case.get("feed") or {}
        kind = case["kind"]
        ql, cl, cm = (qlist, _cx_list, _cx_mat) if not raw else (np.asarray, np.asarray, np.asarray)
        K = keep if keep is not None else []
        if kind == "transformer":
            mask = self._mask(aa, case)
            values = self._image_in(case)
            image = aa.Array2D(values=values, mask=mask)
            if feed.get("image_layout") == "from_array2d":
                image = aa.Array2D(values=image, mask=mask)
            vis = self._vis_in(aa, case["vis"], feed.get("vis", "complex"))
            M = self._matrix_in(case["M"], case["n_cols"], feed.get("M", "float"))
            K += [mask, values, image, vis, M]
            obs = {}
            post = [lambda: mask.derive_grid.unmasked, lambda: mask.derive_indexes.native_for_slim,
                    lambda: vis.in_array, lambda: image.native]
            order = (True, False) if not feed.get("preload_order_rev") else (False, True)
            for preload in order:
                uv_in = self._uv_in(case)
                if preload and feed.get("preload_kw") == "default":
                    t = aa.TransformerDFT(uv_wavelengths=uv_in, real_space_mask=mask)
                else:
                    t = aa.TransformerDFT(uv_wavelengths=uv_in, real_space_mask=mask,
                                          preload_transform=self._preload_value(feed, preload))
                self._scribble(case, uv_in)
                K += [uv_in, t.uv_wavelengths, t.grid, getattr(t, "preload_real_transforms", None),
                      getattr(t, "preload_imag_transforms", None)]
                obs["preload_" + str(preload).lower()] = self._read_transformer(t, image, vis, M, case, raw=raw,
                                                                               keep=keep)
            if keep is not None:     # further public reads that return arrays (after the observation)
                K += [_try(f) for f in post]
            return obs
        uv = self._uv_in(case)
        if kind == "util":
            tu = aa.util.transformer
            grid = _layout(np.array([[_f(a), _f(b)] for a, b in case["grid"]]).reshape(-1, 2),
                           feed.get("grid_layout"))
            image = np.asarray(self._image_in(case, flat=True))
            ints = feed.get("M") == "int64"
            vis2 = _layout(np.array([[(int(Fraction(a)) if ints else _f(a)), (int(Fraction(b)) if ints else _f(b))]
                                     for a, b in case["vis"]]).reshape(-1, 2), feed.get("vis2_layout"))
            M = self._matrix_in(case["M"], case["n_cols"], feed.get("M", "float"))
            re = tu.preload_real_transforms(grid_radians=grid, uv_wavelengths=uv)
            im = tu.preload_imag_transforms(grid_radians=grid, uv_wavelengths=uv)
            outs = [tu.visibilities_via_preload_jit_from(image_1d=image, preloaded_reals=re, preloaded_imags=im),
                    tu.transformed_mapping_matrix_via_preload_jit_from(mapping_matrix=M, preloaded_reals=re,
                                                                       preloaded_imags=im),
                    tu.image_via_jit_from(n_pixels=grid.shape[0], grid_radians=grid, uv_wavelengths=uv,
                                          visibilities=vis2),
                    tu.visibilities_jit(image_1d=image, grid_radians=grid, uv_wavelengths=uv),
                    tu.transformed_mapping_matrix_jit(mapping_matrix=M, grid_radians=grid, uv_wavelengths=uv),
                    tu.image_via_jit_from(n_pixels=grid.shape[0], grid_radians=grid, uv_wavelengths=uv,
                                          visibilities=vis2)]
            K += [uv, grid, image, vis2, M, re, im, *outs]
            return {
                "preload_true": {"visibilities": cl(outs[0]), "transformed": cm(outs[1]), "image": ql(outs[2])},
                "preload_false": {"visibilities": cl(outs[3]), "transformed": cm(outs[4]), "image": ql(outs[5])},
            }
        # normal equations
        from autoarray.inversion.inversion.dataset_interface import DatasetInterface

        mask = self._mask(aa, case)
        data = self._vis_in(aa, case["data"], feed.get("vis", "complex"))
        noise = self._vis_in(aa, case["noise"], feed.get("noise_vis") or feed.get("vis", "complex"),
                             aa.VisibilitiesNoiseMap)
        objs = []
        for o in case["objs"]:
            M = self._matrix_in(o["M"], o["n_cols"], feed.get("M", "float"))
            reg = aa.m.MockRegularization(regularization_matrix=np.eye(o["n_cols"])) if o["has_reg"] else None
            if o["cls"] == "mapper":
                objs.append(aa.m.MockMapper(mapping_matrix=M, parameters=o["n_cols"], regularization=reg,
                                            edge_pixel_list=[]))
            else:
                objs.append(aa.m.MockLinearObj(mapping_matrix=M, parameters=o["n_cols"], regularization=reg))
            K.append(M)
        omit_settings = bool(feed.get("settings_omitted")) and case["default_settings"] and not case["via_factory"]
        settings = None if omit_settings else self._settings(aa, case)
        ikw = self._inv_kw(aa, case)
        pv = self._preload_value(feed, case["preload"])
        if case["via_factory"]:
            ds = aa.Interferometer(data=data, noise_map=noise, uv_wavelengths=uv, real_space_mask=mask,
                                   transformer_class=aa.TransformerDFT)
            if ds.transformer.preload_transform != case["preload"]:
                ds.transformer = aa.TransformerDFT(uv_wavelengths=uv, real_space_mask=mask, preload_transform=pv)
            self._scribble(case, uv)
            inv = aa.Inversion(dataset=ds, linear_obj_list=objs, settings=settings, **ikw)
        else:
            t = aa.TransformerDFT(uv_wavelengths=uv, real_space_mask=mask, preload_transform=pv)
            self._scribble(case, uv)
            ds = DatasetInterface(data=data, noise_map=noise, transformer=t)
            if omit_settings:
                inv = aa.InversionInterferometerMapping(dataset=ds, linear_obj_list=objs, **ikw)
            else:
                inv = aa.InversionInterferometerMapping(dataset=ds, linear_obj_list=objs, settings=settings, **ikw)
        tr = ds.transformer
        K += [mask, data, noise, uv, tr.uv_wavelengths, tr.grid, getattr(tr, "preload_real_transforms", None),
              getattr(tr, "preload_imag_transforms", None)]
        obs = self._read_normal(inv, raw=raw, keep=keep)
        if keep is not None:
            K += [_try(f) for f in (lambda: mask.derive_grid.unmasked, lambda: data.in_array, lambda: noise.in_array,
                                    lambda: inv.mapping_matrix, lambda: inv.operated_mapping_matrix_list[0])]
        return obs

    READS_T = ("image", "visibilities", "transformed")
    READS_N = ("operated_mapping_matrix", "data_vector", "curvature_matrix", "no_regularization_index_list")

    def _read_transformer(self, t, image, vis, M, case, order=None, pw=0, raw=False, keep=None):
        """the observed reads of one transformer, in the given order; `pw`: the linear inputs were fed scaled by
        2**-pw (exact), the outputs are scaled back (exact) so that they compare with the unscaled world."""
        s = 2.0 ** pw
        ql, cl, cm = (qlist, _cx_list, _cx_mat) if not raw else (np.asarray, np.asarray, np.asarray)
        K = keep if keep is not None else []
        adj = (case.get("feed") or {}).get("adjoint")
        out = {}
        for name in (order or (case.get("feed") or {}).get("read_order") or self.READS_T):
            if name == "image":
                if adj in self.ADJOINT_VALS:
                    img = t.image_from(visibilities=vis, use_adjoint_scaling=self.ADJOINT_VALS[adj])
                else:
                    img = t.image_from(visibilities=vis)
                out["image"] = ql(np.array(img.slim).ravel() * s)
                out["image_native"] = ql(np.array(img.native).ravel() * s)
                K.append(img)
            elif name == "visibilities":
                v = t.visibilities_from(image=image)
                out["visibilities"] = cl(np.asarray(v) * s)
                K.append(v)
            elif name == "transformed":
                tm = t.transform_mapping_matrix(mapping_matrix=M)
                out["transformed"] = cm(np.asarray(tm).reshape(len(case["uv"]), case["n_cols"]) * s)
                K.append(tm)
        g = np.array(t.grid).reshape(-1, 2)
        out["grid"] = g if raw else [qlist(p) for p in g]
        return out

    def _read_normal(self, inv, order=None, raw=False, keep=None):
        if type(inv).__name__ != "InversionInterferometerMapping":
            return {"err": "wrong_inversion_class", "msg": type(inv).__name__}
        ql, cm, qm = (qlist, _cx_mat, qmat) if not raw else (np.asarray, np.asarray, np.asarray)
        out = {}
        for name in (order or self.READS_N):
            if name == "operated_mapping_matrix":
                v = inv.operated_mapping_matrix
                out[name] = cm(v)
            elif name == "data_vector":
                v = inv.data_vector
                out[name] = ql(np.array(v))
            elif name == "curvature_matrix":
                v = inv.curvature_matrix
                out[name] = qm(np.array(v))
            elif name == "no_regularization_index_list":
                v = None
                out[name] = [int(i) for i in inv.no_regularization_index_list]
            if keep is not None and v is not None:
                keep.append(v)
        return out

    # ------------------------------------------------------------------ model
    def _diag(self, case):
        return "1/1000" if case["default_settings"] else case["diag_value"]

    def _requests_plain(self, case, impl_obs):
        kind = case["kind"]
        if kind == "normal_eq":
            # the package default 1.0e-3 is not a dyadic rational: hand the driver the exact double
            diag = q(1.0e-3) if case["default_settings"] else case["diag_value"]
            return [{"op": "c13.normal_eq", "mask": case["mask"], "pixel_scales": case["pixel_scales"],
                     "origin": case["origin"], "uv": case["uv"], "preload": case["preload"],
                     "data": case["data"], "noise": case["noise"], "diag_value": diag,
                     "objs": [{"M": o["M"], "n_cols": o["n_cols"], "has_reg": o["has_reg"]}
                              for o in case["objs"]]}]
        base = {"op": "c13.transformer", "uv": case["uv"], "image": case["image"], "vis": case["vis"],
                "M": case["M"], "n_cols": case["n_cols"]}
        if kind == "transformer":
            base.update(mask=case["mask"], pixel_scales=case["pixel_scales"], origin=case["origin"])
        else:
            base.update(grid=case["grid"])
        return [{**base, "preload": True}, {**base, "preload": False}]

    def _model_obs_plain(self, case, responses):
        for r in responses:
            if "ok" not in r:
                return {"err": r.get("err")}
        if case["kind"] == "normal_eq":
            return responses[0]["ok"]
        out = {}
        for key, r in zip(("preload_true", "preload_false"), responses):
            o = dict(r["ok"])
            if case["kind"] == "util":
                o.pop("grid", None)
            out[key] = o
        return out

    # ------------------------------------------------------------------ oracle
    def _grid(self, case):
        """pixel centres of the unmasked pixels in radians, from the mask geometry (independent)."""
        if case["kind"] == "util":
            return np.array([[_f(a), _f(b)] for a, b in case["grid"]]).reshape(-1, 2)
        mj = case["mask"]
        h, w = mj["h"], mj["w"]
        sy, sx = (Fraction(v) for v in case["pixel_scales"])
        oy, ox = (Fraction(v) for v in case["origin"])
        pts = []
        for i, b in enumerate(mj["bits"]):
            if b == "0":
                y, x = divmod(i, w)
                pts.append([float(oy + (Fraction(h - 1, 2) - y) * sy) * ARCSEC,
                            float(ox + (x - Fraction(w - 1, 2)) * sx) * ARCSEC])
        return np.array(pts).reshape(-1, 2)

    def _operator(self, case):
        g = self._grid(case)
        uv = np.array([[_f(a), _f(b)] for a, b in case["uv"]]).reshape(-1, 2)
        # A[k, p] = exp(-2 pi i (x_p u_k + y_p v_k))
        ph = -2.0 * math.pi * (np.outer(uv[:, 0], g[:, 1]) + np.outer(uv[:, 1], g[:, 0]))
        return np.cos(ph) + 1j * np.sin(ph), g

    def _oracle_plain(self, case, obs, large=False):
        if "err" in obs:
            return False, f"implementation raised {obs['err']}: {obs.get('msg', '')}"
        A, g = self._operator(case)
        kind = case["kind"]

        def cx(lst):
            if isinstance(lst, np.ndarray):
                return lst.astype(complex).ravel()
            return np.array([complex(_f(a), _f(b)) for a, b in lst])

        def cxm(mat, k, c):
            if isinstance(mat, np.ndarray):
                return mat.astype(complex).reshape(k, c)
            return np.array([[complex(_f(a), _f(b)) for a, b in row] for row in mat]).reshape(k, c)

        def fl(lst):
            if isinstance(lst, np.ndarray):
                return lst.astype(float).ravel()
            return np.array([_f(v) for v in lst])

        def pairs(x):        # [[re, im] ...] (or a complex array) -> float array [..., 2]
            if isinstance(x, np.ndarray):
                x = x.astype(complex)
                return np.stack((x.real, x.imag), axis=-1)
            x = np.array(x, dtype=object)
            return np.vectorize(_f)(x) if x.size else np.zeros(0)

        K, N = A.shape
        if kind == "normal_eq":
            Ms = [np.array([[_f(v) for v in r] for r in o["M"]]).reshape(N, o["n_cols"]) for o in case["objs"]]
            B = np.hstack(Ms)
            T = A @ B
            C = B.shape[1]
            sT = sD = sF = None
            if large:   # rounding grows with the number of accumulated terms: scale by 1e-3 * sum |terms| as well
                aT = np.abs(A) @ np.abs(B)
                sT = max(1.0, float(np.max(np.abs(T))) if T.size else 1.0, 1e-3 * float(np.max(aT)) if aT.size else 0)
            ok, d = _close_arr(cxm(obs["operated_mapping_matrix"], K, C), T, scale=sT)
            if not ok:
                return False, "operated (transformed) mapping matrix is not the Fourier operator applied to the columns: " + d
            V = cx(case["data"])
            S = cx(case["noise"])
            D = (T.real * (V.real / S.real ** 2)[:, None]).sum(axis=0) + \
                (T.imag * (V.imag / S.imag ** 2)[:, None]).sum(axis=0)
            F = (T.real / S.real[:, None]).T @ (T.real / S.real[:, None]) + \
                (T.imag / S.imag[:, None]).T @ (T.imag / S.imag[:, None])
            diag = 1.0e-3 if case["default_settings"] else _f(case["diag_value"])
            off = 0
            noreg = []
            for o in case["objs"]:
                if not o["has_reg"]:
                    noreg += list(range(off, off + o["n_cols"]))
                off += o["n_cols"]
            for i in noreg:
                F[i, i] += diag
            if large and T.size:
                aD = (np.abs(T.real) * (np.abs(V.real) / S.real ** 2)[:, None]).sum(axis=0) + \
                     (np.abs(T.imag) * (np.abs(V.imag) / S.imag ** 2)[:, None]).sum(axis=0)
                sD = max(1.0, float(np.max(np.abs(D))), 1e-3 * float(np.max(aD)))
                sF = max(1.0, float(np.max(np.abs(F))))      # the diagonal is its own sum of absolute terms
            ok, d = _close_arr(fl(obs["data_vector"]), D, scale=sD)
            if not ok:
                return False, "data_vector is not the noise-weighted real+imaginary product: " + d
            Fo = obs["curvature_matrix"]
            Fo = Fo.astype(float) if isinstance(Fo, np.ndarray) else np.array([[_f(v) for v in r] for r in Fo])
            ok, d = _close_arr(Fo.reshape(C, C), F, scale=sF)
            if not ok:
                return False, "curvature_matrix is not the noise-weighted real+imaginary Gram matrix: " + d
            return True, ""
        I = np.array([_f(v) for v in case["image"]])
        V = cx(case["vis"])
        M = np.array([[_f(v) for v in r] for r in case["M"]]).reshape(N, case["n_cols"])
        exp_vis = A @ I
        exp_T = A @ M
        exp_img = np.real(A.conj().T @ V)
        s_vis = s_T = s_img = None
        if large:       # rounding grows with the number of accumulated terms: scale by 1e-3 * sum |terms| as well
            s_vis = max(1.0, float(np.max(np.abs(exp_vis))) if K else 1.0, 1e-3 * float(np.sum(np.abs(I))))
            s_T = max(1.0, float(np.max(np.abs(exp_T))) if exp_T.size else 1.0,
                      1e-3 * float(np.max(np.sum(np.abs(M), axis=0))) if M.size else 0.0)
            s_img = max(1.0, float(np.max(np.abs(exp_img))) if N else 1.0, 1e-3 * float(np.sum(np.abs(V))))
        for key in ("preload_true", "preload_false"):
            o = obs[key]
            if kind == "transformer":
                go = o["grid"]
                go = go.astype(float) if isinstance(go, np.ndarray) else np.array([[_f(a), _f(b)] for a, b in go])
                ok, d = _close_arr(go.reshape(-1, 2), g,
                                   scale=max(1e-12, float(np.max(np.abs(g))) if g.size else 1e-12))
                if not ok:
                    return False, f"{key}: transformer grid is not the unmasked pixel centres in radians: " + d
            ok, d = _close_arr(cx(o["visibilities"]), exp_vis, scale=s_vis)
            if not ok:
                return False, f"{key}: visibilities != sum_p I_p exp(-2 pi i (x_p u + y_p v)): " + d
            ok, d = _close_arr(cxm(o["transformed"], K, case["n_cols"]), exp_T, scale=s_T)
            if not ok:
                return False, f"{key}: transformed mapping matrix != operator applied to each column: " + d
            ok, d = _close_arr(fl(o["image"]), exp_img, scale=s_img)
            if not ok:
                return False, f"{key}: image_from != real part of the conjugate-transpose operator: " + d
            if kind == "transformer":
                mj = case["mask"]
                nat = np.zeros(mj["h"] * mj["w"])
                nat[[i for i, b in enumerate(mj["bits"]) if b == "0"]] = exp_img
                ok, d = _close_arr(fl(o["image_native"]), nat, scale=s_img)
                if not ok:
                    return False, f"{key}: native image is not the adjoint image at the unmasked pixels / zero elsewhere: " + d
        a, b = obs["preload_true"], obs["preload_false"]
        for k2 in ("visibilities", "transformed"):
            ok, d = _close_arr(pairs(a[k2]), pairs(b[k2]), scale={"visibilities": s_vis, "transformed": s_T}[k2])
            if not ok:
                return False, f"{k2}: preloaded and non-preloaded paths differ: " + d
        return True, ""

    # ------------------------------------------------------------------ misc
    def _nontrivial_plain(self, case, obs):
        npts = len(case["grid"]) if case["kind"] == "util" else case["mask"]["bits"].count("0")
        nz = any(Fraction(a) != 0 or Fraction(b) != 0 for a, b in case["uv"])
        return npts >= 2 and nz

    def _shrink_plain(self, case):
        if case["kind"] != "transformer":
            return
        # drop a baseline
        k = len(case["uv"])
        for i in range(k):
            if k > 1:
                yield {**case, "uv": case["uv"][:i] + case["uv"][i + 1:],
                       "vis": case["vis"][:i] + case["vis"][i + 1:]}
        # drop a column of M
        c = case["n_cols"]
        for j in range(c):
            if c > 1:
                yield {**case, "n_cols": c - 1, "M": [r[:j] + r[j + 1:] for r in case["M"]]}
        # mask a pixel
        mj = case["mask"]
        bits = mj["bits"]
        un = [i for i, b in enumerate(bits) if b == "0"]
        for pos, i in enumerate(un):
            if len(un) > 1:
                yield {**case, "mask": {**mj, "bits": bits[:i] + "1" + bits[i + 1:]},
                       "image": case["image"][:pos] + case["image"][pos + 1:],
                       "M": case["M"][:pos] + case["M"][pos + 1:]}
        if case["origin"] != ["0", "0"]:
            yield {**case, "origin": ["0", "0"]}

    def _theorems_plain(self, case):
        if case["kind"] == "normal_eq":
            return ["C13.a_grid_is_pixel_centres_in_radians", "C13.b_transformed_mapping_matrix",
                    "C13.d_data_vector", "C13.d_curvature_matrix", "C13.d_curvature_symmetric",
                    "C13.d_operated_mapping_matrix_rows", "C13.d_data_vector_from_mapping_matrix"]
        t = ["C13.a_phase", "C13.a_visibilities", "C13.a_preload_eq", "C13.b_transformed_mapping_matrix",
             "C13.b_columnwise_operator", "C13.c_image_from",
             "C13.c_image_is_real_part_of_conjugate_transpose", "C13.c_adjoint_identity"]
        if case["kind"] == "transformer":
            t.append("C13.a_grid_is_pixel_centres_in_radians")
        return t

    # ==================================================================================================
    # Round-4 hardening (DESIGN §13): dispatch over plain / history / large cases
    # ==================================================================================================
    def run_impl(self, case):
        kind = case["kind"]
        if kind == "history":
            aa = load_autoarray()
            if case.get("_flush"):
                self._flush(aa, case)
            env = _TEnv(self, aa) if case["sub"] == "transformer" else _NEnv(self, aa)
            return {"steps": [env.step(st["world"], st.get("how") or {}, case.get("pw", 0))
                              for st in case["steps"]]}
        if kind == "large":
            return self._run_plain(self._expand_large(case), raw=True)
        if kind == "decades":
            return self._run_decades(case)
        if kind == "own":
            return self._run_own(case)
        if kind == "config":
            return self._run_config(case)
        return self._run_plain(case)

    def _parts(self, case):
        """new kinds as a list of (ordinary world, key into the observation) pairs: each part is judged like an
        ordinary case (model requests, model observation, oracle)"""
        kind = case["kind"]
        if kind == "decades":
            return [(case["world"], None)]
        if kind == "own":
            worlds = self._own_worlds(case)
            return [(worlds[i], ("rounds", j)) for j, i in enumerate(case["rounds"])]
        if kind == "config":
            return [(self._config_world(case, j, d), ("steps", j)) for j, d in enumerate(self._config_diags(case))]
        return None

    def model_requests(self, case, impl_obs):
        kind = case["kind"]
        if kind == "large":
            return []          # judged by the vectorised oracle alone (the driver is O(n^2) on lists)
        if kind == "history":
            out = []
            for st in case["steps"]:
                out += self._requests_plain(st["world"], None)
            return out
        parts = self._parts(case)
        if parts is not None:
            if kind == "own":   # one set of requests per distinct world; the rounds share them
                parts = [(w, None) for w in self._own_worlds(case)]
            out = []
            for w, _ in parts:
                out += self._requests_plain(w, None)
            return out
        return self._requests_plain(case, impl_obs)

    def model_obs(self, case, responses):
        kind = case["kind"]
        if kind == "history":
            per = 2 if case["sub"] == "transformer" else 1
            return {"steps": [self._model_obs_plain(st["world"], responses[i * per:(i + 1) * per])
                              for i, st in enumerate(case["steps"])]}
        if kind == "decades":
            return self._model_obs_plain(case["world"], responses)
        if kind == "own":
            per = 1 if case["worlds"][0]["kind"] == "normal_eq" else 2
            mo = [self._model_obs_plain(w, responses[i * per:(i + 1) * per])
                  for i, w in enumerate(self._own_worlds(case))]
            return {"rounds": [mo[i] for i in case["rounds"]]}
        if kind == "config":
            return {"steps": [self._model_obs_plain(w, responses[j:j + 1])
                              for j, (w, _) in enumerate(self._parts(case))]}
        return self._model_obs_plain(case, responses)

    def oracle(self, case, obs):
        kind = case["kind"]
        if kind == "large":
            return self._oracle_plain(self._expand_large(case), obs, large=True)
        if kind == "history":
            if not isinstance(obs, dict) or "steps" not in obs:
                return False, f"history did not run: {str(obs)[:300]}"
            for i, (st, o) in enumerate(zip(case["steps"], obs["steps"])):
                ok, d = self._oracle_plain(st["world"], o)
                if not ok:
                    return False, (f"history step {i} (how={json.dumps(st.get('how') or {}, sort_keys=True)}) on "
                                   f"reused objects differs from a freshly built object in the same state: {d}")
            return True, ""
        if kind == "decades":
            if not isinstance(obs, dict) or ("err" in obs and len(obs) <= 2):
                return False, f"scaled world did not run: {str(obs)[:300]}"
            ok, d = self._oracle_plain(case["world"], obs)
            if not ok:
                return False, (f"world scaled by exact powers of two {json.dumps(case['dec'], sort_keys=True)} (outputs "
                               f"scaled back exactly) differs from the unscaled world: {d}")
            return True, ""
        if kind in ("own", "config"):
            top = "rounds" if kind == "own" else "steps"
            if not isinstance(obs, dict) or top not in obs:
                return False, f"{kind} history did not run: {str(obs)[:300]}"
            for j, ((w, _), o) in enumerate(zip(self._parts(case), obs[top])):
                ok, d = self._oracle_plain(w, o)
                if not ok:
                    if kind == "own":
                        return False, (f"round {j} (world {case['rounds'][j]}; every array accepted / returned in the "
                                       f"earlier rounds was overwritten in place, mode {case['scribble']}) differs from "
                                       f"a first evaluation of the same world: {d}")
                    return False, (f"step {j} ({json.dumps(case['steps'][j], sort_keys=True)}; diagonal value in force "
                                   f"{w['diag_value']}): {d}")
            return True, ""
        return self._oracle_plain(case, obs)

    def nontrivial(self, case, obs):
        if case["kind"] == "history":
            return self._nontrivial_plain(case["steps"][0]["world"], None)
        if case["kind"] == "large":
            return case["n"] >= 2 and case["k"] >= 2
        parts = self._parts(case)
        if parts is not None:
            return self._nontrivial_plain(parts[0][0], None)
        return self._nontrivial_plain(case, obs)

    def theorems_for(self, case):
        if case["kind"] == "history":
            return self._theorems_plain(case["steps"][0]["world"])
        if case["kind"] == "large":
            return self._theorems_plain({"kind": case["sub"]})
        parts = self._parts(case)
        if parts is not None:
            return self._theorems_plain(parts[0][0])
        return self._theorems_plain(case)

    def sample_view(self, case):
        return {k: v for k, v in case.items() if not k.startswith("_")}

    def shrink(self, case):
        kind = case["kind"]
        if kind == "history":
            yield from self._shrink_history(case)
        elif kind == "large":
            yield from self._shrink_large(case)
        elif kind == "decades":
            yield from self._shrink_decades(case)
        elif kind == "own":
            yield from self._shrink_own(case)
        elif kind == "config":
            yield from self._shrink_config(case)
        else:
            yield from self._shrink_plain(case)

    # ==================================================================================================
    # Round-5/6 hardening (DESIGN §14)
    # ==================================================================================================
    # ------------------------------------------------------------------ R5-A / R5-E: the decades stream
    # An ordinary world + one exact power of two per ingredient.  The implementation is fed the SCALED world; its
    # outputs are scaled back (ldexp: exact) and compared with the model / oracle of the UNSCALED world, so the
    # comparison tolerance is relative to the scaled magnitude.  Powers of two commute with every rounding of the
    # code under test (no sums of differently scaled terms are formed), so the expectation is bit-exact apart from
    # libm pow.
    DEC_KEYS = ("geo", "image", "vis", "M", "data", "noise")

    def _dec_world(self, w, dec):
        g = dec.get("geo", 0)
        ws = dict(w)
        feed = dict(w.get("feed") or {})
        sc = lambda v, k: _scale_q(v, k) if k else v
        if "grid" in w:
            ws["grid"] = [[sc(a, g), sc(b, g)] for a, b in w["grid"]]
        else:
            ws["pixel_scales"] = [sc(v, g) for v in w["pixel_scales"]]
            ws["origin"] = [sc(v, g) for v in w["origin"]]
        ws["uv"] = [[sc(a, -g), sc(b, -g)] for a, b in w["uv"]]
        if g:
            feed["uv_dtype"] = "float"
        if w["kind"] == "normal_eq":
            a, b, c = dec.get("data", 0), dec.get("noise", 0), dec.get("M", 0)
            ws["data"] = [[sc(x, a), sc(y, a)] for x, y in w["data"]]
            ws["noise"] = [[sc(x, b), sc(y, b)] for x, y in w["noise"]]
            ws["objs"] = [{**o, "M": [[sc(v, c) for v in r] for r in o["M"]]} for o in w["objs"]]
            ws["diag_value"] = sc(w["diag_value"], 2 * (c - b))
            lin = [a, b, c]
        else:
            a, b = dec.get("image", 0), dec.get("vis", 0)
            cols = dec.get("M_cols") or [dec.get("M", 0)] * w["n_cols"]
            ws["image"] = [sc(v, a) for v in w["image"]]
            ws["vis"] = [[sc(x, b), sc(y, b)] for x, y in w["vis"]]
            ws["M"] = [[sc(v, cols[j]) for j, v in enumerate(r)] for r in w["M"]]
            if a and feed.get("image") in ("int64", "int32", "pyint_list"):
                feed["image"] = "float"
            if abs(a) > 60 and feed.get("image") == "float32":
                feed["image"] = "float"
            lin = [a, b, *cols]
        mk = (feed.get("M") or "float").partition("|")[0]
        if any(lin) and mk in ("int64", "int32"):
            feed["M"] = "float"
        if max(abs(x) for x in lin) > 60 and mk == "float32":
            feed["M"] = "float"
        ws["feed"] = feed
        return ws

    def _run_decades(self, case):
        w, dec = case["world"], case["dec"]
        ws = self._dec_world(w, dec)
        conf = {}
        if w["kind"] == "normal_eq" and w["default_settings"]:
            e = 2 * (dec.get("M", 0) - dec.get("noise", 0))
            if e:      # the default comes from the configuration: scale it there
                conf[CONF_DIAG] = float(np.ldexp(1.0e-3, e))
        with _Conf(conf):
            obs = self._run_plain(ws, raw=True)
        if "err" in obs:
            return obs
        g = dec.get("geo", 0)
        if w["kind"] == "normal_eq":
            a, b, c = dec.get("data", 0), dec.get("noise", 0), dec.get("M", 0)
            return {"operated_mapping_matrix": _cx_mat(_ldexp(obs["operated_mapping_matrix"], -c)),
                    "data_vector": qlist(_ldexp(obs["data_vector"], -(a + c - 2 * b))),
                    "curvature_matrix": qmat(_ldexp(obs["curvature_matrix"], -2 * (c - b))),
                    "no_regularization_index_list": obs["no_regularization_index_list"]}
        a, b = dec.get("image", 0), dec.get("vis", 0)
        cols = dec.get("M_cols") or [dec.get("M", 0)] * w["n_cols"]
        K, C = len(w["uv"]), w["n_cols"]
        out = {}
        for key, o in obs.items():
            T = np.asarray(o["transformed"]).reshape(K, C)
            T = np.stack([_ldexp(T[:, j], -cols[j]) for j in range(C)], axis=1) if C else T
            oo = {"visibilities": _cx_list(_ldexp(o["visibilities"], -a)),
                  "image": qlist(_ldexp(o["image"], -b)),
                  "transformed": _cx_mat(T.reshape(K, C))}
            if "image_native" in o:
                oo["image_native"] = qlist(_ldexp(o["image_native"], -b))
            if "grid" in o:
                oo["grid"] = [qlist(p) for p in _ldexp(np.asarray(o["grid"]).reshape(-1, 2), -g)]
            out[key] = oo
        return out

    def _dec_power(self, rng, lim=45):
        k = rng.randint(5, lim)
        return k if rng.random() < 0.5 else -k

    def _decades_case(self, rng, ext=False):
        r = rng.random()
        if r < 0.5:
            h, w_ = rng.randint(1, 5), rng.randint(1, 5)
            m, _ = gen.random_mask(rng, h, w_)
            w = self._transformer_case(rng, m, "w")
        elif r < 0.65:
            w = self._util_case(rng, "w")
        else:
            w = self._normal_case(rng, self._small_mask(rng, 4), "w")
        w = {k: v for k, v in w.items() if k != "tag"}
        neq = w["kind"] == "normal_eq"
        lin_keys = ("data", "noise", "M") if neq else ("image", "vis", "M")
        dec = {}
        if ext:
            # R5-E: out to ~1e+-150 (squared quantities stay below ~1e300; data*M below 2^900)
            style = rng.choice(["geo", "one", "all", "noise"] if neq else ["geo", "one", "all"])
            if style == "geo":
                dec["geo"] = rng.choice([-400, -150, -100, 100, 150, 400])
            elif style == "noise":
                dec["noise"] = rng.choice([-470, -300, -100, 100, 300, 470])
            elif style == "one":
                key = rng.choice(lin_keys)
                lim = [-450, -300, -100, 100, 300, 450] if neq else [-900, -500, -150, 150, 500, 900]
                dec[key] = rng.choice(lim)
            else:
                k = rng.choice([-300, -150, 150, 300] if neq else [-900, -400, -150, 150, 400, 900])
                for key in lin_keys:
                    dec[key] = k        # normal equations: data*M = 2^2k, noise^2 = 2^2k: all within range
            tag = "dec_ext_" + style
        else:
            style = rng.choice(["geo", "geo", "all", "one", "one", "mix", "col"])
            if style == "geo":
                dec["geo"] = self._dec_power(rng)
            elif style == "all":
                k = self._dec_power(rng)
                for key in lin_keys:
                    dec[key] = k
            elif style == "one":
                dec[rng.choice(lin_keys)] = self._dec_power(rng)
            elif style == "col" and not neq and w["n_cols"] >= 2:
                dec["M_cols"] = [self._dec_power(rng) if rng.random() < 0.6 else 0 for _ in range(w["n_cols"])]
            else:
                style = "mix"
                for key in ("geo",) + lin_keys:
                    if rng.random() < 0.7:
                        dec[key] = self._dec_power(rng)
            tag = "dec_" + style
        return {"tag": tag + "_" + w["kind"], "kind": "decades", "world": w, "dec": dec}

    def _shrink_decades(self, case):
        dec = case["dec"]
        for key in list(dec):
            yield {**case, "dec": {k: v for k, v in dec.items() if k != key}}
        for key, v in dec.items():
            if isinstance(v, int) and abs(v) > 8:
                yield {**case, "dec": {**dec, key: int(v / 2)}}
        if case["world"]["kind"] == "transformer" and not dec.get("M_cols"):
            for w2 in self._shrink_plain(case["world"]):
                yield {**case, "world": w2}

    # ------------------------------------------------------------------ R5-A: nearly degenerate ordinary worlds
    def _near_case(self, rng):
        style = rng.choice(["scales", "scales", "noise_uniform", "noise_reim", "far_origin", "far_origin",
                            "uv_repeat", "image_uniform", "tiny_scales", "huge_scales", "far_grid"])
        tw = lambda e, j=1: Fraction(1) + Fraction(j, 1 << e)
        if style == "far_grid":        # util functions on a grid far from (0, 0) radians, nearly coincident points
            c = self._util_case(rng, "near_far_grid")
            off = [Fraction(rng.choice([-1, 1]), 1 << rng.randint(1, 6)), Fraction(rng.choice([-1, 1]), 1 << rng.randint(1, 6))]
            c["grid"] = [qlist([Fraction(a) + off[0], Fraction(b) + off[1]]) for a, b in c["grid"]]
            B = 64
            c["uv"] = [qlist([Fraction(rng.randint(-B, B)) + Fraction(rng.randint(0, 3), 4),
                              Fraction(rng.randint(-B, B))]) for _ in c["uv"]]
            c["feed"]["uv_dtype"] = "float"
            return c
        neq = style.startswith("noise") or (style in ("scales", "far_origin") and rng.random() < 0.35)
        if neq:
            c = self._normal_case(rng, self._small_mask(rng, 4), "near")
        else:
            h, w_ = rng.randint(1, 5), rng.randint(1, 5)
            m, _ = gen.random_mask(rng, h, w_)
            c = self._transformer_case(rng, m, "near", ints=False)
        c["feed"]["uv_dtype"] = "float"
        mj = c["mask"]

        def bound_uv(ext_arcsec):
            # keep |phase| below ~1e3 rad (standing assumption): |u| <= 50 / extent
            B = max(2, int(min(200000, 50.0 / (ext_arcsec * ARCSEC))))
            uv = []
            for a, b in c["uv"]:
                fa, fb = Fraction(a), Fraction(b)
                if abs(fa) > B or abs(fb) > B:
                    fa, fb = Fraction(rng.randint(-B, B)), Fraction(rng.randint(-B, B))
                uv.append(qlist([fa, fb]))
            c["uv"] = uv

        if style == "scales":          # nearly square pixels
            sy = Fraction(c["pixel_scales"][0])
            c["pixel_scales"] = qlist([sy, sy * tw(rng.choice([20, 24, 28]))] if rng.random() < 0.5 else
                                      [sy * tw(rng.choice([20, 24, 28])), sy])
        elif style in ("tiny_scales", "huge_scales"):      # pixel scales far from 1 arcsec (uv chosen to match)
            f = Fraction(1, 1 << rng.randint(8, 18)) if style == "tiny_scales" else Fraction(1 << rng.randint(6, 14))
            c["pixel_scales"] = qlist([Fraction(v) * f for v in c["pixel_scales"]])
            c["origin"] = qlist([Fraction(v) * f for v in c["origin"]])
            ext = max(abs(_f(c["origin"][0])) + mj["h"] / 2.0 * _f(c["pixel_scales"][0]),
                      abs(_f(c["origin"][1])) + mj["w"] / 2.0 * _f(c["pixel_scales"][1]))
            bound_uv(ext)
        elif style == "far_origin":    # the centre far from (0, 0): pixel offsets are tiny relative to it
            mexp = rng.randint(10, 20)
            o = [Fraction(v) for v in c["origin"]]
            i = rng.randrange(2)
            o[i] += Fraction(rng.choice([-1, 1]) * (1 << mexp))
            if rng.random() < 0.4:
                o[1 - i] += Fraction(rng.choice([-1, 1]) * (1 << rng.randint(10, mexp)))
            c["origin"] = qlist(o)
            ext = max(abs(_f(o[0])) + mj["h"] / 2.0 * _f(c["pixel_scales"][0]),
                      abs(_f(o[1])) + mj["w"] / 2.0 * _f(c["pixel_scales"][1]))
            bound_uv(ext)
        elif style == "uv_repeat" and len(c["uv"]) >= 2:   # nearly repeated baseline
            i, j = rng.sample(range(len(c["uv"])), 2)
            t = tw(rng.choice([20, 26]))
            c["uv"][j] = qlist([Fraction(c["uv"][i][0]) * t, Fraction(c["uv"][i][1]) * t])
        elif style == "image_uniform" and c["image"]:
            v0 = gen.pos_dyadic(rng, 1, 4, 2)
            e = rng.choice([20, 30, 40])
            c["image"] = qlist([v0 * tw(e, rng.randint(0, 3)) for _ in c["image"]])
            c["feed"]["image"] = "float"
        elif style == "noise_uniform":
            s0, e = gen.pos_dyadic(rng, 1, 4, 2), rng.choice([20, 30, 40])
            if rng.random() < 0.5:      # uniform to 2^-e in both parts, the two parts clearly different
                s1 = gen.pos_dyadic(rng, 1, 4, 2)
                c["noise"] = [qlist([s0 * tw(e, rng.randint(0, 3)), s1 * tw(e, rng.randint(0, 3))]) for _ in c["noise"]]
            else:
                c["noise"] = [qlist([s0 * tw(e, rng.randint(0, 3)), s0 * tw(e, rng.randint(0, 3))]) for _ in c["noise"]]
        elif style == "noise_reim":    # real and imaginary noise nearly (not exactly) equal, baseline by baseline
            e = rng.choice([20, 30])
            c["noise"] = [qlist([Fraction(a), Fraction(a) * tw(e, rng.choice([-1, 1]))]) for a, _ in c["noise"]]
        c["tag"] = "near_" + style + ("_neq" if neq else "")
        return c

    # ------------------------------------------------------------------ R5-C: containers / layouts / dtypes
    MASK_FEEDS = ("list", "F", "T", "strided", "neg", "readonly", "window", "invert", "all_false", "from_mask",
                  "from_mask_other", "from_mask_default_origin+explicit")
    MASK_FLAGS = ("scalar_scale", "int_scales", "int_origin")

    def _layout_case(self, rng):
        r = rng.random()
        if r < 0.55:
            h, w_ = rng.randint(1, 5), rng.randint(1, 5)
            m, _ = gen.random_mask(rng, h, w_)
            if rng.random() < 0.15:
                m = gen.full(h, w_, False)
            c = self._transformer_case(rng, m, "layout")
        elif r < 0.7:
            c = self._util_case(rng, "layout")
        else:
            c = self._normal_case(rng, self._small_mask(rng, 4), "layout")
        feed = c["feed"]
        ints = c["tag"].endswith("_int")
        what = []

        def pick(name, p=0.5):
            if rng.random() < p:
                what.append(name)
                return True
            return False

        uv_int = all(Fraction(a).denominator == 1 and Fraction(b).denominator == 1 for a, b in c["uv"])
        if pick("uv", 0.6):
            feed["uv_layout"] = rng.choice(LAYOUTS_2D)
            feed["uv_dtype"] = rng.choice(["float", "float32"] + (["int64", "int32"] if uv_int else []))
        mk = (feed.get("M") or "float")
        if pick("M", 0.6):
            if rng.random() < 0.3 and (ints or c["kind"] == "normal_eq"):
                mk = rng.choice(["int32", "int64"])      # falls back to float64 when the entries are not integral
            feed["M"] = mk.partition("|")[0] + "|" + rng.choice(LAYOUTS_2D)
        if c["kind"] != "normal_eq":
            if feed.get("image") in ("float", "float32", "int64") and pick("image", 0.6):
                if ints and rng.random() < 0.3:
                    feed["image"] = "int32"
                lays = list(LAYOUTS_1D)
                if c["kind"] == "transformer":
                    lays += ["native:C", "native:F", "native:strided", "native:readonly", "native_list", "from_array2d"]
                feed["image_layout"] = rng.choice(lays)
            if c["kind"] == "util":
                if pick("grid", 0.4):
                    feed["grid_layout"] = rng.choice(LAYOUTS_2D)
                if pick("vis2", 0.4):
                    feed["vis2_layout"] = rng.choice(LAYOUTS_2D)
        if c["kind"] != "util":
            if pick("vis", 0.6):
                base = rng.choice(["complex", "pairs", "complex64"])
                feed["vis"] = base + "|" + rng.choice(LAYOUTS_2D if base == "pairs" else LAYOUTS_1D)
            if c["kind"] == "normal_eq" and pick("noise", 0.4):
                base = rng.choice(["complex", "pairs", "complex64", "list"])
                feed["noise_vis"] = base + ("|" + rng.choice(LAYOUTS_2D if base == "pairs" else LAYOUTS_1D)
                                            if base != "list" else "")
            if pick("mask", 0.6):
                mf = rng.choice(self.MASK_FEEDS)
                if mf == "all_false" and "1" in c["mask"]["bits"]:
                    mf = "list"
                if mf.startswith("from_mask_default_origin"):
                    c["origin"] = ["0", "0"]
                for fl in self.MASK_FLAGS:
                    if rng.random() < 0.25:
                        mf += "+" + fl
                        if fl == "scalar_scale":
                            c["pixel_scales"] = [c["pixel_scales"][0]] * 2
                        elif fl == "int_scales":
                            c["pixel_scales"] = qlist([Fraction(rng.randint(1, 3)), Fraction(rng.randint(1, 3))])
                        elif fl == "int_origin" and "default_origin" not in mf:
                            c["origin"] = qlist([Fraction(rng.randint(-3, 3)), Fraction(rng.randint(-3, 3))])
                feed["mask"] = mf
        if not what:
            feed["uv_layout"] = "F"
            what.append("uv")
        c["tag"] = "layout_" + c["kind"] + "_" + "+".join(what[:2])
        return c

    # ------------------------------------------------------------------ R5-F: rarely combined options
    def _settings_options(self):
        """{name: [non-default and "set but falsy" values]} from the constructor signature of SettingsInversion
        (introspected: an option added later is crossed automatically)"""
        import inspect

        aa = load_autoarray()
        out = {}
        for name, prm in inspect.signature(aa.SettingsInversion.__init__).parameters.items():
            if name in ("self", "use_w_tilde", "use_linear_operators", "no_regularization_add_to_curvature_diag_value"):
                continue    # they select another formalism (out of scope) / are the quantity the world itself fixes
            d = prm.default
            if prm.kind not in (prm.POSITIONAL_OR_KEYWORD, prm.KEYWORD_ONLY) or d is inspect.Parameter.empty:
                continue
            ann = str(prm.annotation)
            if isinstance(d, bool):
                vals = [not d]
            elif d is None and "bool" in ann:
                vals = [True, False]
            elif isinstance(d, int):
                vals = [0, d + 1]
            elif isinstance(d, float):
                vals = [0.0, d * 0.5]
            elif d is None:
                vals = [0, 0.0, 1, 0.5]
            else:
                continue
            out[name] = vals
        return out

    def _opts_cases(self, rng, n):
        """pairwise crossing of the options (each value of one with each value of another), sampled; the diagonal
        value (explicit incl. 0.0 / default / default passed as None) and the route are crossed with all of them"""
        opts = self._settings_options()
        names = sorted(opts)
        pairs = [(a, va, b, vb) for i, a in enumerate(names) for b in names[i + 1:] for va in opts[a] for vb in opts[b]]
        rng.shuffle(pairs)
        singles = [(a, va) for a in names for va in opts[a]]
        todo = [dict([s]) for s in singles] + [{a: va, b: vb} for a, va, b, vb in pairs]
        for kw in todo[:n]:
            c = self._normal_case(rng, self._small_mask(rng, 3), "opts")
            c["feed"]["settings_kw"] = kw
            if c["via_factory"] and rng.random() < 0.5:
                c["feed"]["settings_kw"] = {**kw, "use_linear_operators": rng.choice([False, 0])}
            if rng.random() < 0.4:
                c["feed"]["inv_kw"] = {"run_time_dict": rng.choice(["empty", "none"]),
                                       **({"preloads": "fresh"} if rng.random() < 0.5 else {})}
            if c["default_settings"] and rng.random() < 0.4:
                c["feed"]["diag_none_kw"] = True
            c["feed"]["preload_vals"] = rng.choice(["bool", "np", "int"])
            c["tag"] = "opts_n_" + "+".join(sorted(kw))[:60]
            yield c

    def _opts_transformer_case(self, rng):
        h, w_ = rng.randint(1, 4), rng.randint(1, 4)
        m, _ = gen.random_mask(rng, h, w_)
        c = self._transformer_case(rng, m, "opts")
        c["feed"]["preload_vals"] = rng.choice(["np", "int", "bool"])
        c["feed"]["preload_kw"] = "explicit"
        c["feed"]["adjoint"] = rng.choice(["false", "zero", "none", "true", "np_false"])
        if rng.random() < 0.5:
            c["feed"]["preload_order_rev"] = True
        if rng.random() < 0.5:
            o = list(self.READS_T)
            rng.shuffle(o)
            c["feed"]["read_order"] = o
        c["tag"] = "opts_t_" + c["feed"]["preload_vals"] + "_adj_" + c["feed"]["adjoint"]
        return c

    # ------------------------------------------------------------------ R5-B: ownership histories
    def _own_case(self, rng):
        import copy as _copy

        r = rng.random()
        if r < 0.5:
            w = self._transformer_case(rng, self._small_mask(rng, 4), "w", k=rng.randint(1, 4), c=rng.randint(1, 2))
        elif r < 0.65:
            w = self._util_case(rng, "w")
        else:
            w = self._normal_case(rng, self._small_mask(rng, 3), "w")
        w = {k: v for k, v in w.items() if k != "tag"}
        worlds = [w]
        rounds = [0, 0, 0]
        if rng.random() < 0.4:       # another world of the same shapes in between; then the first one again
            w2 = _copy.deepcopy(w)
            bump = lambda v: q(Fraction(v) + Fraction(rng.randint(1, 8), 4))
            if w["kind"] == "normal_eq":
                w2["data"] = [[bump(a), bump(b)] for a, b in w["data"]]
                for o in w2["objs"]:
                    o["M"] = [[bump(v) for v in r_] for r_ in o["M"]]
            else:
                w2["image"] = [bump(v) for v in w["image"]]
                w2["vis"] = [[bump(a), bump(b)] for a, b in w["vis"]]
                w2["M"] = [[bump(v) for v in r_] for r_ in w["M"]]
            for key in ("image", "M"):
                if w2["feed"].get(key) in ("int64", "pyint_list"):
                    w2["feed"][key] = "float"
            worlds.append(w2)
            rounds = rng.choice([[0, 1, 0], [0, 1, 0, 1], [0, 0, 1, 0]])
        return {"tag": "own_" + w["kind"] + ("_2w" if len(worlds) > 1 else ""), "kind": "own", "worlds": worlds,
                "rounds": rounds, "scribble": rng.choice(["nan", "add", "neg"])}

    _salt = 0

    def _own_worlds(self, case):
        """the worlds of an ownership history.  A SHRUNK candidate carries a `salt` that moves every world a little
        (baselines x (1 + salt/256), first entries + salt/64): a process-wide memo left behind by an earlier attempt
        of the shrinker then holds nothing for it, so the candidate behaves in this long-lived process as it will in
        the fresh process of a replay."""
        salt = case.get("salt", 0)
        if not salt:
            return case["worlds"]
        f, d = Fraction(256 + salt, 256), Fraction(salt, 64)
        out = []
        for w in case["worlds"]:
            w2 = dict(w)
            feed = dict(w.get("feed") or {})
            w2["uv"] = [qlist([Fraction(a) * f, Fraction(b) * f]) for a, b in w["uv"]]
            feed["uv_dtype"] = "float"

            def bump(rows):
                rows = [list(r) for r in rows]
                if rows and rows[0]:
                    rows[0][0] = q(Fraction(rows[0][0]) + d)
                return rows

            if w["kind"] == "normal_eq":
                w2["objs"] = [{**o, "M": bump(o["M"])} for o in w["objs"]]
                w2["data"] = bump(w["data"])
            else:
                w2["M"] = bump(w["M"])
                w2["vis"] = bump(w["vis"])
                w2["image"] = bump([w["image"]])[0]
                if feed.get("image") in ("int64", "int32", "pyint_list"):
                    feed["image"] = "float"
            if (feed.get("M") or "float").partition("|")[0] in ("int64", "int32"):
                feed["M"] = "float"
            w2["feed"] = feed
            out.append(w2)
        return out

    def _run_own(self, case):
        out = []
        worlds = self._own_worlds(case)
        for i in case["rounds"]:
            keep = []
            out.append(self._run_plain(worlds[i], keep=keep))
            _scribble_arrays(keep, case["scribble"])
        return {"rounds": out}

    def _shrink_own(self, case):
        for c in self._shrink_own0(case):
            C13._salt += 1
            yield {**c, "salt": C13._salt}

    def _shrink_own0(self, case):
        rounds = case["rounds"]
        if len(rounds) > 2:
            yield {**case, "rounds": rounds[:-1]}
            yield {**case, "rounds": rounds[1:]}
        if len(case["worlds"]) > 1 and 1 in rounds:
            yield {**case, "rounds": [0 for _ in rounds]}
        if case["scribble"] != "add":
            yield {**case, "scribble": "add"}
        w = case["worlds"][0]
        if w["kind"] == "transformer" and len(case["worlds"]) == 1:
            for w2 in self._shrink_plain(w):
                yield {**case, "worlds": [w2]}

    # ------------------------------------------------------------------ R5-D: configuration histories
    CONF_VALUES = (Fraction(1, 1024), Fraction(1, 2), Fraction(3), Fraction(0), Fraction(1, 1 << 40),
                   Fraction(1.0e-3), Fraction(float(Fraction(1.0e-3) * TWIN)), Fraction(5, 4))

    def _config_case(self, rng):
        w = self._normal_case(rng, self._small_mask(rng, 3), "w")
        w = {k: v for k, v in w.items() if k != "tag"}
        if not any(not o["has_reg"] for o in w["objs"]):
            w["objs"][rng.randrange(len(w["objs"]))]["has_reg"] = False     # the diagonal term must be visible
        steps = []
        for i in range(rng.randint(3, 5)):
            st = {}
            # step 0: the pinned default configuration with default settings, so that the history is self-contained
            # (a value cached at the first use of the library is cached HERE, in a replay as in the long run)
            if i and rng.random() < 0.85:
                st["conf"] = q(rng.choice(self.CONF_VALUES))
            choices = ["fresh_default", "fresh_default", "fresh_explicit", "fresh_none_kw", "omitted"]
            if steps:
                choices += ["reuse", "reuse"]
            st["settings"] = rng.choice(choices) if i else rng.choice(["fresh_default", "fresh_default", "omitted"])
            if st["settings"] == "fresh_explicit":
                st["explicit"] = q(rng.choice(self.CONF_VALUES))
            st["via_factory"] = rng.random() < 0.4 and st["settings"] != "omitted"
            st["dataset"] = "reuse" if (steps and rng.random() < 0.6) else "new"
            if rng.random() < 0.3:
                st["decoy"] = rng.sample(sorted(DECOY_CONF), rng.randint(1, 2))
            steps.append(st)
        return {"tag": "config_" + steps[-1]["settings"], "kind": "config", "world": w, "steps": steps}

    def _config_diags(self, case):
        """the diagonal value in force at each step: the explicit argument of the settings object in use, else the
        configuration value at call time"""
        conf_v, cur, out = q(1.0e-3), None, []
        for st in case["steps"]:
            if "conf" in st:
                conf_v = st["conf"]
            if st["settings"] == "fresh_explicit":
                cur = st["explicit"]
            elif st["settings"] != "reuse":
                cur = None
            out.append(cur if cur is not None else conf_v)
        return out

    def _run_config(self, case):
        from autoarray.inversion.inversion.dataset_interface import DatasetInterface

        aa = load_autoarray()
        w = case["world"]
        out = []
        ds = {}
        settings = None
        with _Conf() as cf:
            for st in case["steps"]:
                if "conf" in st:
                    cf.set(CONF_DIAG, _f(st["conf"]))
                for name in st.get("decoy") or []:
                    cf.set(*DECOY_CONF[name])
                vf = bool(st["via_factory"])
                if st["dataset"] == "new" or vf not in ds:
                    mask = self._mask(aa, w)
                    data = self._vis_in(aa, w["data"], "complex")
                    noise = self._vis_in(aa, w["noise"], "complex", aa.VisibilitiesNoiseMap)
                    uv = self._uv_in({**w, "feed": {}})
                    if vf:
                        d = aa.Interferometer(data=data, noise_map=noise, uv_wavelengths=uv, real_space_mask=mask,
                                              transformer_class=aa.TransformerDFT)
                        if d.transformer.preload_transform != w["preload"]:
                            d.transformer = aa.TransformerDFT(uv_wavelengths=uv, real_space_mask=mask,
                                                              preload_transform=w["preload"])
                    else:
                        t = aa.TransformerDFT(uv_wavelengths=uv, real_space_mask=mask, preload_transform=w["preload"])
                        d = DatasetInterface(data=data, noise_map=noise, transformer=t)
                    ds[vf] = d
                objs = []
                for o in w["objs"]:
                    M = self._matrix_in(o["M"], o["n_cols"], "float")
                    reg = aa.m.MockRegularization(regularization_matrix=np.eye(o["n_cols"])) if o["has_reg"] else None
                    if o["cls"] == "mapper":
                        objs.append(aa.m.MockMapper(mapping_matrix=M, parameters=o["n_cols"], regularization=reg,
                                                    edge_pixel_list=[]))
                    else:
                        objs.append(aa.m.MockLinearObj(mapping_matrix=M, parameters=o["n_cols"], regularization=reg))
                how = st["settings"]
                if how == "reuse" and settings is None:      # the previous step passed no settings object: again none
                    how = "omitted"
                if how == "fresh_default":
                    settings = aa.SettingsInversion(use_w_tilde=False)
                elif how == "fresh_none_kw":
                    settings = aa.SettingsInversion(use_w_tilde=False, no_regularization_add_to_curvature_diag_value=None)
                elif how == "fresh_explicit":
                    settings = aa.SettingsInversion(use_w_tilde=False,
                                                    no_regularization_add_to_curvature_diag_value=_f(st["explicit"]))
                elif how == "omitted":
                    settings = None
                if how == "omitted":
                    vf = False
                    if vf not in ds:
                        ds[vf] = DatasetInterface(data=ds[True].data, noise_map=ds[True].noise_map,
                                                  transformer=ds[True].transformer)
                    inv = aa.InversionInterferometerMapping(dataset=ds[vf], linear_obj_list=objs)
                elif vf:
                    inv = aa.Inversion(dataset=ds[vf], linear_obj_list=objs, settings=settings)
                else:
                    inv = aa.InversionInterferometerMapping(dataset=ds[vf], linear_obj_list=objs, settings=settings)
                out.append(self._read_normal(inv))
        return {"steps": out}

    def _config_world(self, case, i, diag):
        return {**case["world"], "default_settings": False, "diag_value": diag}

    def _shrink_config(self, case):
        steps = case["steps"]
        if len(steps) > 1:
            yield {**case, "steps": steps[:-1]}
            for j in range(1, len(steps) - 1):       # (step 0, the read under the default configuration, stays)
                if steps[j + 1]["settings"] != "reuse":
                    yield {**case, "steps": steps[:j] + steps[j + 1:]}
        for j, st in enumerate(steps):
            for key in ("decoy",):
                if key in st:
                    yield {**case, "steps": steps[:j] + [{k: v for k, v in st.items() if k != key}] + steps[j + 1:]}
            if st.get("via_factory"):
                yield {**case, "steps": steps[:j] + [{**st, "via_factory": False}] + steps[j + 1:]}

    # ------------------------------------------------------------------ R5-E: always-on mid / large sizes
    def _always_large(self, tier, rng):
        """one or two cases per run beyond 2^15 / 2^16 elements in a size dimension (oracle-only, like the
        constant-directed stream, but not gated on a new constant in the source)"""
        r2 = random.Random(rng.randrange(1 << 31))
        specs = []
        s = self._large_spec("frame", 256 * 257 + (0 if r2.random() < 0.5 else 257), 65536, r2)   # > 2^16 frame pixels
        specs.append(s)
        s = self._large_spec("baselines", 32768 + r2.randint(1, 40), 32768, r2)
        s.update(n=1, c=1, h=1, w=2)
        specs.append(s)
        if tier != "quick":
            s = self._large_spec("unmasked", 32768 + r2.randint(1, 40), 32768, r2)
            s.update(k=1, c=1)
            specs.append(s)
            s = self._large_spec("columns", 65536 + r2.randint(1, 40), 65536, r2)
            s.update(n=1, k=1, h=1, w=2)
            specs.append(s)
            s = self._large_spec("neq_baselines", 32768 + r2.randint(1, 40), 32768, r2)
            s.update(n=1, h=1, w=2, cols=[1], c=1)
            specs.append(s)
        for s in specs:
            s["tag"] = "always_" + s["tag"]
            yield s

    def _generate_r5(self, tier, rng):
        quick = tier == "quick"
        for i in range(300 if quick else 3000):
            yield self._decades_case(rng)
        for i in range(120 if quick else 1200):
            yield self._decades_case(rng, ext=True)
        for i in range(180 if quick else 1800):
            yield self._near_case(rng)
        for i in range(320 if quick else 3200):
            yield self._layout_case(rng)
        yield from self._opts_cases(rng, 140 if quick else 4000)
        for i in range(60 if quick else 600):
            yield self._opts_transformer_case(rng)
        for i in range(160 if quick else 1600):
            yield self._own_case(rng)
        for i in range(140 if quick else 1400):
            yield self._config_case(rng)
        yield from self._always_large(tier, rng)

    # ------------------------------------------------------------------ histories: generation
    T_FAULTS = ("short_vis", "long_image", "tall_M", "bad_ctor")
    N_FAULTS = ("tall_M", "short_data")
    V_OPS = ("mul2", "mulhalf", "neg", "div2", "muli", "add", "sub", "rsub", "add_nd", "sub_zero", "copy", "dcopy",
             "mcopy", "slice", "plus0", "astype")
    I_OPS = ("mul2", "mulhalf", "neg", "div2", "add", "sub", "rsub", "add_nd", "add_zero", "copy", "dcopy", "mcopy",
             "plus0", "slim", "native_slim")

    def _how_common(self, rng, reads, faults, first=False):
        how = {}
        if rng.random() < 0.5:
            o = list(reads)
            rng.shuffle(o)
            how["order"] = o
        if rng.random() < 0.3:
            how["decoy"] = "deep" if rng.random() < 0.5 else True
        if not first and rng.random() < 0.2:
            how["fault"] = rng.choice(faults)
        return how

    def _derived_vals(self, rng, op, vals, cx):
        """exact values after the library's arithmetic `op` on `vals` (Fractions; pairs when cx) + operand"""
        def rnd():
            return [gen.dyadic(rng, -4, 4, 3), gen.dyadic(rng, -4, 4, 3)] if cx else gen.dyadic(rng, -4, 4, 3)

        def mapv(f):
            return [[f(a), f(b)] for a, b in vals] if cx else [f(a) for a in vals]

        opnd = None
        if op == "mul2":
            new = mapv(lambda a: 2 * a)
        elif op in ("mulhalf", "div2"):
            new = mapv(lambda a: a / 2)
        elif op == "neg":
            new = mapv(lambda a: -a)
        elif op == "muli":
            new = [[-b, a] for a, b in vals]
        elif op in ("add", "add_nd", "sub", "rsub"):
            opnd = [rnd() for _ in vals]
            sg = {"add": (1, 1), "add_nd": (1, 1), "sub": (1, -1), "rsub": (-1, 1)}[op]
            if cx:
                new = [[sg[0] * a + sg[1] * c, sg[0] * b + sg[1] * d] for (a, b), (c, d) in zip(vals, opnd)]
            else:
                new = [sg[0] * a + sg[1] * c for a, c in zip(vals, opnd)]
        else:   # identity derivations: copy, slice, x - (library zeros), x + 0.0 ...
            new = [list(v) for v in vals] if cx else list(vals)
        return new, opnd

    def _fr(self, vals, cx):
        return [[Fraction(a), Fraction(b)] for a, b in vals] if cx else [Fraction(a) for a in vals]

    def _qv(self, vals, cx):
        return [qlist(p) for p in vals] if cx else qlist(vals)

    def _move_structure(self, rng, world, how, role, cx, ops, positive=False):
        """change the values of one structure (vis / image / data / noise) of `world` in place of the dict, and say
        in `how` by which route the LIVE object gets there"""
        vals = self._fr(world[role], cx)
        n = len(vals)
        if n == 0:
            return "same"

        def rnd():
            if positive:
                return [gen.pos_dyadic(rng, 1, 4, 2), gen.pos_dyadic(rng, 1, 4, 2)]
            return [gen.dyadic(rng, -4, 4, 3), gen.dyadic(rng, -4, 4, 3)] if cx else gen.dyadic(rng, -4, 4, 3)

        route = rng.choice(["setitem", "setitem", "arith", "arith", "twin", "fresh"] if ops else
                           ["setitem", "setitem", "twin", "fresh"])
        if route == "setitem":
            key = rng.choice(["int", "int", "slice", "bool"])
            if key == "int":
                for i in rng.sample(range(n), min(n, rng.randint(1, 2))):
                    vals[i] = rnd() if rng.random() < 0.7 else ([Fraction(0), Fraction(0)] if cx and not positive
                                                               else (Fraction(0) if not positive else rnd()))
            elif key == "slice":
                a = rng.randrange(n)
                b = rng.randint(a + 1, n)
                for i in range(a, b):
                    vals[i] = rnd()
            else:
                v = rnd()
                for i in rng.sample(range(n), rng.randint(1, n)):
                    vals[i] = list(v) if cx else v
            how[role] = "setitem"
            how[role + "_key"] = key
        elif route == "arith":
            op = rng.choice(ops)
            vals, opnd = self._derived_vals(rng, op, vals, cx)
            how[role] = "arith:" + op
            if opnd is not None:
                how[role + "_operand"] = self._qv(opnd, cx)
            route = "arith_" + op
        elif route == "twin":     # a NEW object whose values differ by ~1e-6 relative
            vals = [[a * TWIN, b * TWIN] for a, b in vals] if cx else [a * TWIN for a in vals]
            how[role] = "new"
        else:
            vals = [rnd() for _ in range(n)]
            how[role] = "new"
        world[role] = self._qv(vals, cx)
        return route

    def _move_mask(self, world, rng, rows):
        """flip one pixel of the mask (>= 1 unmasked pixel is kept); `rows`: list of (container, key, new_row_fn)
        whose per-pixel rows follow the slim order"""
        mj = world["mask"]
        bits = mj["bits"]
        un = [i for i, b in enumerate(bits) if b == "0"]
        cand = [i for i in range(len(bits)) if not (bits[i] == "0" and len(un) == 1)]
        if not cand:
            return False
        masked = [i for i, b in enumerate(bits) if b == "1"]
        if un and masked and rng.random() < 0.4:
            # move a pixel: one unmasked -> masked and one masked -> unmasked (same counts, same array shapes)
            flips = [rng.choice(masked), rng.choice(un)]
        else:
            flips = [rng.choice(cand)]
        for i in flips:
            bits = world["mask"]["bits"]
            un = [j for j, b in enumerate(bits) if b == "0"]
            if bits[i] == "0":
                pos = un.index(i)
                for cont, key, _ in rows:
                    cont[key] = cont[key][:pos] + cont[key][pos + 1:]
                nb = "1"
            else:
                pos = sum(1 for j in un if j < i)
                for cont, key, mk in rows:
                    cont[key] = cont[key][:pos] + [mk()] + cont[key][pos:]
                nb = "0"
            world["mask"] = {**world["mask"], "bits": bits[:i] + nb + bits[i + 1:]}
        return True

    def _move_geometry(self, rng, world):
        mv = rng.choice(["uv_twin", "uv_twin_one", "scale_twin", "origin_twin"])
        if mv == "uv_twin" and world["uv"]:
            world["uv"] = [qlist([Fraction(a) * TWIN, Fraction(b) * TWIN]) for a, b in world["uv"]]
        elif mv == "uv_twin_one" and world["uv"]:
            i = rng.randrange(len(world["uv"]))
            a, b = world["uv"][i]
            world["uv"] = world["uv"][:i] + [qlist([Fraction(a) * TWIN, Fraction(b) + Fraction(1, 4)])] + \
                world["uv"][i + 1:]
        elif mv == "scale_twin":
            i = rng.randrange(2)
            ps = [Fraction(v) for v in world["pixel_scales"]]
            ps[i] = ps[i] * TWIN
            world["pixel_scales"] = qlist(ps)
        else:
            mv = "origin_twin"
            i = rng.randrange(2)
            o = [Fraction(v) for v in world["origin"]]
            o[i] = o[i] + Fraction(1, 1 << 20)
            world["origin"] = qlist(o)
        return mv

    def _small_mask(self, rng, hi=4):
        h, w = rng.randint(1, hi), rng.randint(1, hi)
        m, _ = gen.random_mask(rng, h, w)
        if all(b for r in m for b in r):
            m[rng.randrange(h)][rng.randrange(w)] = False
        return m

    def _history_transformer(self, rng):
        import copy as _copy

        base = self._transformer_case(rng, self._small_mask(rng), "h", k=rng.randint(1, 4), c=rng.randint(1, 2),
                                      ints=False)
        base["feed"].update(image=rng.choice(["float", "float_list"]), M="float", uv_dtype="float")
        world = {k: base[k] for k in ("kind", "mask", "pixel_scales", "origin", "uv", "image", "vis", "M", "n_cols",
                                      "feed")}
        how0 = self._how_common(rng, self.READS_T, self.T_FAULTS, first=True)
        if rng.random() < 0.5:
            how0["preload_order"] = [False, True]
        if rng.random() < 0.3:
            how0["share_uv"] = True
        if rng.random() < 0.3:
            how0["vis_build"] = rng.choice(["zeros_set", "ones_set", "full_set"])
        steps = [{"world": world, "how": how0}]
        names = []
        for _ in range(rng.randint(1, 3)):
            w = _copy.deepcopy(steps[-1]["world"])
            how = self._how_common(rng, self.READS_T, self.T_FAULTS)
            for key in ("preload_order", "share_uv", "vis_build"):
                if key in how0:
                    how[key] = how0[key]
            if rng.random() < 0.1:
                how["t"] = rng.choice(["copy", "deepcopy", "new"])
            mv = rng.choice(["vis", "vis", "vis", "image", "image", "M", "M_twin", "geometry", "mask", "same", "back",
                             "drop"])
            if mv == "vis":
                mv = "vis_" + self._move_structure(rng, w, how, "vis", True, self.V_OPS)
            elif mv == "image":
                mv = "image_" + self._move_structure(rng, w, how, "image", False, self.I_OPS)
            elif mv == "M":
                M = [list(r) for r in w["M"]]
                if M and M[0]:
                    for _k in range(rng.randint(1, 2)):
                        i, j = rng.randrange(len(M)), rng.randrange(len(M[0]))
                        M[i][j] = q(rng.choice([Fraction(0), -gen.pos_dyadic(rng, 1, 3, 2), gen.pos_dyadic(rng, 1, 3, 2)]))
                w["M"] = M
                mv = "M_inplace"
            elif mv == "M_twin":
                w["M"] = [[q(Fraction(v) * TWIN) for v in r] for r in w["M"]]
                how["M"] = "new"
            elif mv == "geometry":
                mv = self._move_geometry(rng, w)
            elif mv == "mask":
                c = w["n_cols"]
                ok = self._move_mask(w, rng, [(w, "image", lambda: q(gen.dyadic(rng, -4, 4, 3))),
                                              (w, "M", lambda: qlist(self._matrix(rng, 1, c)[0]))])
                mv = "mask_setitem" if ok else "same"
            elif mv == "drop":
                if len(w["uv"]) >= 2:   # the first / last baseline is dropped: visibilities derived by slicing
                    side = rng.choice(["tail", "head"])
                    sl = slice(1, None) if side == "tail" else slice(None, -1)
                    w["uv"], w["vis"] = w["uv"][sl], w["vis"][sl]
                    how["vis"] = "arith:" + side
                    mv = "drop_" + side
                else:
                    mv = "same"
            elif mv == "back":
                w = _copy.deepcopy(steps[0]["world"])
            if mv == "same" and not (how.get("fault") or how.get("decoy")):
                how["fault"] = rng.choice(self.T_FAULTS)
            names.append(mv)
            steps.append({"world": w, "how": how})
        pw = 30 if rng.random() < 0.2 else 0
        return {"tag": "history_t_" + names[0] + ("_tiny" if pw else ""), "kind": "history", "sub": "transformer",
                "pw": pw, "moves": names, "steps": steps}

    def _history_normal(self, rng):
        import copy as _copy

        base = self._normal_case(rng, self._small_mask(rng, 3), "h")
        base["feed"].update(M="float")
        world = {k: base[k] for k in ("kind", "mask", "pixel_scales", "origin", "uv", "data", "noise", "diag_value",
                                      "default_settings", "via_factory", "preload", "objs", "feed")}
        steps = [{"world": world, "how": self._how_common(rng, self.READS_N, self.N_FAULTS, first=True)}]
        names = []
        for _ in range(rng.randint(1, 3)):
            w = _copy.deepcopy(steps[-1]["world"])
            how = self._how_common(rng, self.READS_N, self.N_FAULTS)
            mv = rng.choice(["data", "data", "noise", "M", "M_twin", "diag", "geometry", "mask", "objs", "preload",
                             "same", "back", "drop"])
            if mv == "data":
                mv = "data_" + self._move_structure(rng, w, how, "data", True, self.V_OPS)
            elif mv == "noise":
                mv = "noise_" + self._move_structure(rng, w, how, "noise", True, (), positive=True)
            elif mv == "M":
                o = rng.choice(w["objs"])
                if o["M"] and o["M"][0]:
                    i, j = rng.randrange(len(o["M"])), rng.randrange(o["n_cols"])
                    o["M"][i][j] = q(rng.choice([Fraction(0), -gen.pos_dyadic(rng, 1, 3, 2),
                                                 gen.pos_dyadic(rng, 1, 3, 2)]))
                mv = "M_inplace"
            elif mv == "M_twin":
                for o in w["objs"]:
                    o["M"] = [[q(Fraction(v) * TWIN) for v in r] for r in o["M"]]
                how["M"] = "new"
            elif mv == "diag":
                w["default_settings"] = False
                d = Fraction(w["diag_value"])
                w["diag_value"] = q(d * TWIN if d != 0 and rng.random() < 0.6 else
                                    rng.choice([Fraction(1, 1024), Fraction(1, 2), Fraction(3), Fraction(0)]))
                mv = "diag_twin"
            elif mv == "geometry":
                mv = self._move_geometry(rng, w)
            elif mv == "mask":
                rows = [(o, "M", (lambda o=o: qlist(self._matrix(rng, 1, o["n_cols"])[0]))) for o in w["objs"]]
                mv = "mask_setitem" if self._move_mask(w, rng, rows) else "same"
            elif mv == "objs":
                n = w["mask"]["bits"].count("0")
                if len(w["objs"]) > 1 and rng.random() < 0.5:
                    w["objs"].pop(rng.randrange(len(w["objs"])))
                else:
                    c = rng.randint(1, 2)
                    w["objs"].insert(rng.randint(0, len(w["objs"])),
                                     {"M": qmat(self._matrix(rng, n, c)), "n_cols": c, "has_reg": rng.random() < 0.5,
                                      "cls": rng.choice(["mapper", "linear"])})
            elif mv == "preload":
                w["preload"] = not w["preload"]
            elif mv == "drop":
                if len(w["uv"]) >= 2:
                    side = rng.choice(["tail", "head"])
                    sl = slice(1, None) if side == "tail" else slice(None, -1)
                    w["uv"], w["data"], w["noise"] = w["uv"][sl], w["data"][sl], w["noise"][sl]
                    how["data"] = "arith:" + side
                    how["noise"] = rng.choice(["arith:" + side, "new"])
                    mv = "drop_" + side
                else:
                    mv = "same"
            elif mv == "back":
                w = _copy.deepcopy(steps[0]["world"])
            if mv == "same" and not (how.get("fault") or how.get("decoy")):
                how["fault"] = rng.choice(self.N_FAULTS)
            names.append(mv)
            steps.append({"world": w, "how": how})
        return {"tag": "history_n_" + names[0], "kind": "history", "sub": "normal_eq", "pw": 0, "moves": names,
                "steps": steps}

    def _flush(self, aa, case):
        """before a SHRUNK history is re-run in this (long-lived) process: push a far-away world of the same
        shapes through fresh objects, so that a process-wide single-slot memo holds nothing close to step 0 and the
        shrunk history fails only if it fails by itself — as it will have to in the fresh process of a replay."""
        import copy as _copy

        w = _copy.deepcopy(case["steps"][0]["world"])
        bump = lambda v, d=1: q(Fraction(v) + d)
        w["uv"] = [qlist([Fraction(a) * 3 + 1, Fraction(b) * 3 - 1]) for a, b in w["uv"]]
        try:
            if case["sub"] == "transformer":
                w["vis"] = [[bump(a), bump(b, -1)] for a, b in w["vis"]]
                w["image"] = [bump(v) for v in w["image"]]
                w["M"] = [[bump(v) for v in r] for r in w["M"]]
                _TEnv(self, aa).step(w, {}, case.get("pw", 0))
            else:
                w["data"] = [[bump(a), bump(b, -1)] for a, b in w["data"]]
                w["noise"] = [[bump(a), bump(b)] for a, b in w["noise"]]
                for o in w["objs"]:
                    o["M"] = [[bump(v) for v in r] for r in o["M"]]
                _NEnv(self, aa).step(w, {}, 0)
        except Exception:
            pass

    def _shrink_history(self, case):
        for c in self._shrink_history0(case):
            c["_flush"] = True
            yield c

    def _shrink_history0(self, case):
        steps = case["steps"]

        def arith(st):
            return any(isinstance(v, str) and v.startswith("arith:") for v in (st.get("how") or {}).values())

        if len(steps) > 1:
            yield {**case, "steps": steps[:-1]}
        for j in range(len(steps) - 1):
            if not arith(steps[j + 1]) and len(steps) > 1:
                yield {**case, "steps": steps[:j] + steps[j + 1:]}
        if case.get("pw"):
            yield {**case, "pw": 0}
        for j, st in enumerate(steps):
            how = st.get("how") or {}
            for key in ("fault", "decoy", "order", "preload_order", "share_uv", "vis_build", "t"):
                if key in how:
                    h2 = {k: v for k, v in how.items() if k != key}
                    yield {**case, "steps": steps[:j] + [{**st, "how": h2}] + steps[j + 1:]}

    # ------------------------------------------------------------------ large (constant-directed) cases
    LARGE_BUDGET_S = 30.0      # estimated pure-Python time of all large cases of one run
    LARGE_CASE_CAP_S = 6.0
    LARGE_DIMS = ("baselines", "unmasked", "frame", "columns", "table", "matrix_entries", "transformed_entries",
                  "util_points", "util_baselines", "neq_baselines", "neq_unmasked", "neq_columns", "neq_entries")

    @staticmethod
    def _large_cost(spec):
        n, k, c, hw = spec["n"], spec["k"], spec["c"], spec["h"] * spec["w"]
        if spec["sub"] == "normal_eq":
            return 5.5e-6 * n * k * (2 + 1.4 * c) + 1.5e-5 * (k * c + n * c) + 2e-6 * c * c + 3e-6 * hw
        return 5.5e-6 * n * k * (6 + 1.4 * c) + 1.5e-5 * (k * c + n * c + k + n) + 3e-6 * hw

    @staticmethod
    def _frame_for(t, square_ok=False):
        """non-square (h, w) with h*w == t: the most balanced factorisation that is not a square"""
        best = (1, t)
        d = 1
        while d * d <= t:
            if t % d == 0 and (square_ok or d != t // d):
                best = (d, t // d)
            d += 1
        return best

    def _large_spec(self, dim, t, hint, rng):
        small = rng.choice([(2, 3), (3, 2), (1, 4), (3, 3), (2, 2), (4, 1)])
        sub, (h, w), n, k, c, cols = "transformer", small, None, 3, 1, None
        if dim == "baselines":
            n, k, c = max(2, h * w - rng.randint(0, 1)), t, 2
        elif dim == "unmasked":
            w = int((t * 1.2) ** 0.5) + 2
            h = -(-(t + 1 + t // 16) // w)
            if h == w:
                w += 1
            n = t
        elif dim == "frame":
            h, w = self._frame_for(t)
            if rng.random() < 0.5:
                h, w = w, h
            n, c = min(t, 6), 2
        elif dim == "columns":
            n, k, c = max(2, h * w - 1), 2, t
        elif dim == "table":
            d = max([x for x in range(1, 13) if t % x == 0])
            n, k = d, t // d
            h, w = (1, d + 1) if d < 4 else (2, (d + 2) // 2)
        elif dim == "matrix_entries":        # n * c == t
            d = max([x for x in range(1, 13) if t % x == 0])
            n, k, c = d, 2, t // d
            h, w = (1, d + 1) if d < 4 else (2, (d + 2) // 2)
        elif dim == "transformed_entries":   # k * c == t
            d = max([x for x in range(1, 13) if t % x == 0])
            n, k, c = max(2, h * w - 1), d, t // d
        elif dim == "neq_entries":           # rows * columns of the operated mapping matrix == t
            d = max([x for x in range(1, 13) if t % x == 0])
            sub, n, k, cols = "normal_eq", max(2, h * w - 1), t // d, ([d] if d < 3 else [d - 2, 2])
        elif dim == "util_points":
            sub, n, k = "util", t, 2
        elif dim == "util_baselines":
            sub, n, k = "util", 3, t
        elif dim == "neq_baselines":
            sub, n, k, cols = "normal_eq", max(2, h * w - 1), t, [1, 2]
        elif dim == "neq_unmasked":
            sub, n, k, cols = "normal_eq", t, 2, [1, 1]
            w = int((t * 1.2) ** 0.5) + 2
            h = -(-(t + 1) // w)
            if h == w:
                w += 1
        elif dim == "neq_columns":
            sub, n, k = "normal_eq", max(2, h * w - 1), 3
            cols = [t] if t < 3 else [t // 2, 1, t - t // 2 - 1]
        if cols is not None:
            cols = [x for x in cols if x > 0]
            c = sum(cols)
        n = min(n, h * w)
        spec = {"tag": "large_" + dim, "kind": "large", "sub": sub, "dim": dim, "hint": hint, "h": h, "w": w,
                "n": n, "k": k, "c": c, "seed": rng.randrange(1 << 31)}
        if cols is not None:
            spec["cols"] = cols
        return spec

    def generate_large(self, hints, rng):
        hints = sorted({int(x) for x in hints if 2 <= int(x)})
        if not hints:
            return
        budget = 0.0
        for idx, hint in enumerate(hints):
            budget += self.LARGE_BUDGET_S / len(hints)        # what a smaller constant did not use rolls over
            # sizes above the constant first, every size dimension in turn (so that no dimension is starved when
            # the budget runs out for a big constant)
            for t in (hint + 1, hint + hint // 3 + 1, hint - 1, hint, 2 * hint + 1):
                for dim in self.LARGE_DIMS:
                    spec = self._large_spec(dim, t, hint, rng)
                    cost = self._large_cost(spec)
                    if cost > self.LARGE_CASE_CAP_S:          # shrink the dimensions that are not the target
                        if dim in ("unmasked", "neq_unmasked"):
                            spec["k"] = 1
                        elif dim in ("baselines", "util_baselines"):
                            spec.update(n=min(spec["n"], 2), c=1)
                        elif dim == "columns":
                            spec.update(n=1, k=1, h=1, w=2)
                        cost = self._large_cost(spec)
                    if cost > self.LARGE_CASE_CAP_S or cost > budget:
                        continue
                    budget -= cost
                    yield spec

    _large_cache = None

    def _expand_large(self, spec):
        """the ordinary (fully written-out) case of a large spec: a deterministic function of the spec, so the
        replay file stays small"""
        key = json.dumps({k: v for k, v in spec.items() if not k.startswith("_")}, sort_keys=True)
        if self._large_cache and self._large_cache[0] == key:
            return self._large_cache[1]
        r = random.Random(spec["seed"])
        sub, h, w, n, k, c = spec["sub"], spec["h"], spec["w"], spec["n"], spec["k"], spec["c"]
        out = {"tag": spec["tag"], "kind": sub}
        if sub == "util":
            grid = [[Fraction(r.randint(-400, 400), 1 << 24), Fraction(r.randint(-400, 400), 1 << 24)]
                    for _ in range(n)]
            out["grid"] = [qlist(p) for p in grid]
            B = 200000
        else:
            cells = h * w
            n = min(n, cells)
            pos = {0, cells - 1} if n >= 2 else ({cells - 1} if n == 1 else set())
            if n > len(pos):
                rest = [i for i in r.sample(range(cells), min(cells, n + 2)) if i not in pos]
                pos |= set(rest[:n - len(pos)])
            bits = ["1"] * cells
            for i in pos:
                bits[i] = "0"
            sy, sx = gen.scales_pair(r)
            if sy == sx:
                sx = sy * Fraction(3, 2)
            oy, ox = gen.origin_pair(r)
            out.update(mask={"h": h, "w": w, "bits": "".join(bits)}, pixel_scales=[q(sy), q(sx)],
                       origin=[q(oy), q(ox)])
            ext = max(abs(float(oy)) + h / 2.0 * float(sy), abs(float(ox)) + w / 2.0 * float(sx)) * ARCSEC
            B = int(min(200000, max(4, 50.0 / ext)))       # keeps |phase| below ~1e3 rad (see `assumptions`)
        uv = [[Fraction(r.randint(-B, B)), Fraction(r.randint(-B, B))] for _ in range(k)]
        if k >= 2:
            uv[r.randrange(k)] = [Fraction(0), Fraction(0)]
        if k >= 3:
            i, j = r.sample(range(k), 2)
            uv[j] = list(uv[i])
        if k >= 1 and B > 100:
            i = r.randrange(k)
            uv[i] = [uv[i][0] + Fraction(1, 2), uv[i][1] - Fraction(3, 4)]
        out["uv"] = [qlist(p) for p in uv]
        if sub == "normal_eq":
            objs, first = [], True
            for cj in spec.get("cols") or [c]:
                objs.append({"M": qmat(self._matrix(r, n, cj)), "n_cols": cj, "has_reg": not first and r.random() < 0.5,
                             "cls": r.choice(["mapper", "linear"])})
                first = False
            out.update(
                data=[qlist([gen.dyadic(r, -4, 4, 3), gen.dyadic(r, -4, 4, 3)]) for _ in range(k)],
                noise=[qlist([gen.pos_dyadic(r, 1, 4, 2), gen.pos_dyadic(r, 1, 4, 2)]) for _ in range(k)],
                diag_value=q(Fraction(1, 2)), default_settings=False, via_factory=False, preload=r.random() < 0.5,
                objs=objs, feed={"uv_dtype": "float", "M": "float", "vis": "complex", "scribble_uv": False})
        else:
            out.update(
                image=qlist([self._val(r, False) for _ in range(n)]),
                vis=[qlist([self._val(r, False), self._val(r, False)]) for _ in range(k)],
                M=qmat(self._matrix(r, n, c)), n_cols=c,
                feed={"uv_dtype": "float", "image": "float", "M": "float", "vis": "complex",
                      "preload_kw": "explicit", "scribble_uv": False})
        C13._large_cache = (key, out)
        return out

    def _shrink_large(self, case):
        def steps(v, lo):
            out, d = [], v
            for x in (lo, lo + 1, v // 2):
                if lo <= x < v:
                    out.append(x)
            d = v // 4
            while d >= 1:
                if v - d >= lo:
                    out.append(v - d)
                d //= 2
            return sorted(set(out))

        for key, lo in (("n", 1), ("k", 1), ("c", 1)):
            if key == "c" and case.get("cols"):
                continue
            for x in steps(case[key], lo):
                yield {**case, key: x}
        if case.get("cols"):
            cols = case["cols"]
            for j, cj in enumerate(cols):
                for x in steps(cj, 1):
                    c2 = cols[:j] + [x] + cols[j + 1:]
                    yield {**case, "cols": c2, "c": sum(c2)}
        if case["sub"] != "util":
            cells = case["h"] * case["w"]
            for t in steps(cells, max(1, case["n"])):
                h, w = self._frame_for(t, square_ok=True)
                yield {**case, "h": h, "w": w}


CHECK = C13()
