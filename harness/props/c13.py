"""C13 — direct Fourier transform, preloaded variant and adjoint are exact and consistent."""
from __future__ import annotations

import math
from fractions import Fraction

import numpy as np

import gen
from common import PropertyCheck, load_autoarray, mask_json, q, qlist, qmat

TOL = 1e-9
ARCSEC = math.pi / 648000.0


def _f(x):
    return float(Fraction(x))


def _cx_list(a):
    return [[q(float(np.real(v))), q(float(np.imag(v)))] for v in np.asarray(a).ravel()]


def _cx_mat(a):
    a = np.asarray(a)
    return [[[q(float(np.real(v))), q(float(np.imag(v)))] for v in row] for row in a]


def _close_arr(got, exp, scale=None):
    got = np.asarray(got)
    exp = np.asarray(exp)
    if got.shape != exp.shape:
        return False, f"shape {got.shape} != {exp.shape}"
    if got.size == 0:
        return True, ""
    if not np.all(np.isfinite(got)):
        return False, "non-finite entries"
    s = max(1.0, float(np.max(np.abs(exp)))) if scale is None else scale
    d = np.abs(got - exp)
    i = int(np.argmax(d))
    if d.ravel()[i] > TOL * s:
        return False, f"entry {np.unravel_index(i, d.shape)}: got {got.ravel()[i]!r}, expected {exp.ravel()[i]!r}"
    return True, ""


class C13(PropertyCheck):
    pid = "C13"
    title = "direct Fourier transform"
    rtol = Fraction(1, 10 ** 9)
    nontrivial_rule = (
        "a case is non-trivial when it has >= 2 unmasked pixels (or grid points) and >= 1 non-zero "
        "baseline; distinct = distinct (kind, mask/grid, scales, origin, baselines, arrays)"
    )
    exhaustive_note = {
        "quick": "every mask with >=1 unmasked pixel for every shape with H*W <= 4 (fixed baseline set incl. zero and a repeated baseline)",
        "thorough": "every mask with >=1 unmasked pixel for every shape with H*W <= 6 (fixed baseline set incl. zero and a repeated baseline)",
    }
    trusted_extra = [
        "libm cos/sin and the double 3.141592653589793 are parameters of the model (Float in the driver, outputs compared at 1e-9 relative to max(1,|value|))",
        "np.dot / np.hstack / complex arithmetic of numpy are modelled (finite sums, pair arithmetic), not verified",
        "the pylops base class is replaced by a three-line stand-in (common.load_autoarray)",
    ]
    modelled_functions = [
        "autoarray/operators/transformer_util.py:preload_real_transforms",
        "autoarray/operators/transformer_util.py:preload_imag_transforms",
        "autoarray/operators/transformer_util.py:visibilities_via_preload_jit_from",
        "autoarray/operators/transformer_util.py:visibilities_jit",
        "autoarray/operators/transformer_util.py:image_via_jit_from",
        "autoarray/operators/transformer_util.py:transformed_mapping_matrix_via_preload_jit_from",
        "autoarray/operators/transformer_util.py:transformed_mapping_matrix_jit",
        "autoarray/operators/transformer.py:TransformerDFT.__init__",
        "autoarray/operators/transformer.py:TransformerDFT.visibilities_from",
        "autoarray/operators/transformer.py:TransformerDFT.image_from",
        "autoarray/operators/transformer.py:TransformerDFT.transform_mapping_matrix",
        "autoarray/structures/grids/grid_2d_util.py:grid_2d_slim_via_mask_from",
        "autoarray/geometry/geometry_util.py:central_scaled_coordinate_2d_from",
        "autoarray/geometry/geometry_util.py:central_pixel_coordinates_2d_from",
        "autoarray/structures/grids/uniform_2d.py:Grid2D.in_radians",
        "autoarray/mask/derive/grid_2d.py:DeriveGrid2D.unmasked",
        "autoarray/structures/arrays/array_2d_util.py:array_2d_native_from",
        "autoarray/structures/visibilities.py:AbstractVisibilities.__init__",
        "autoarray/structures/visibilities.py:AbstractVisibilities.in_array",
        "autoarray/inversion/inversion/interferometer/inversion_interferometer_util.py:data_vector_via_transformed_mapping_matrix_from",
        "autoarray/inversion/inversion/interferometer/mapping.py:InversionInterferometerMapping.data_vector",
        "autoarray/inversion/inversion/interferometer/mapping.py:InversionInterferometerMapping.curvature_matrix",
        "autoarray/inversion/inversion/interferometer/abstract.py:AbstractInversionInterferometer.operated_mapping_matrix_list",
        "autoarray/inversion/inversion/abstract.py:AbstractInversion.operated_mapping_matrix",
        "autoarray/inversion/inversion/abstract.py:AbstractInversion.no_regularization_index_list",
        "autoarray/inversion/inversion/abstract.py:AbstractInversion.param_range_list_from",
        "autoarray/inversion/inversion/inversion_util.py:curvature_matrix_via_mapping_matrix_from",
        "autoarray/inversion/inversion/inversion_util.py:curvature_matrix_with_added_to_diag_from",
    ]
    assumptions = [
        "images are slim-stored (TransformerDFT.visibilities_from reads np.array(image) on the preload path)",
        "noise-map real and imaginary parts are non-zero",
        "|phase| stays below ~1e3 rad so that double rounding of the phase is far below the 1e-9 comparison band",
    ]

    # ------------------------------------------------------------------ generation
    def _uv(self, rng, k, force_special=True):
        uv = []
        for _ in range(k):
            uv.append([Fraction(rng.randint(-200000, 200000)), Fraction(rng.randint(-200000, 200000))])
        if force_special and k >= 2:
            uv[rng.randrange(k)] = [Fraction(0), Fraction(0)]          # zero baseline
        if force_special and k >= 3:
            i, j = rng.sample(range(k), 2)
            uv[j] = list(uv[i])                                        # repeated baseline
        if rng.random() < 0.3:
            i = rng.randrange(k)
            uv[i] = [uv[i][0] + Fraction(1, 2), uv[i][1] - Fraction(3, 4)]  # non-integer
        return uv

    def _matrix(self, rng, n, c, signed=True, ints=False):
        out = []
        for _ in range(n):
            row = []
            for _ in range(c):
                r = rng.random()
                mag = Fraction(rng.randint(1, 4)) if ints else gen.pos_dyadic(rng, 1, 3, 2)
                if r < 0.3:
                    v = Fraction(0)
                elif signed and r < 0.65:
                    v = -mag
                else:
                    v = mag
                row.append(v)
            out.append(row)
        return out

    def _val(self, rng, ints):
        return Fraction(rng.randint(-5, 5)) if ints else gen.dyadic(rng, -4, 4, 3)

    def _feed(self, rng, ints, uv):
        """how the numbers reach the public API (round-3 hardening): dtype / container of every array
        argument, explicit-default keyword values, and whether the caller's baseline array is
        overwritten after the transformer was built (the transformer must own its baselines)."""
        uv_int = all(Fraction(a).denominator == 1 and Fraction(b).denominator == 1 for a, b in uv)
        return {
            "uv_dtype": "int64" if (uv_int and rng.random() < 0.3) else "float",
            "image": rng.choice(["int64", "pyint_list"]) if ints else rng.choice(["float", "float_list", "float32"]),
            "M": "int64" if ints else rng.choice(["float", "float32"]),
            # complex ndarray / python list of complex / float array of (re, im) pairs
            "vis": rng.choice(["complex", "list", "pairs"]),
            # preload_transform=True passed explicitly or left to its default (True)
            "preload_kw": rng.choice(["explicit", "default"]),
            "scribble_uv": rng.random() < 0.5,
        }

    def _transformer_case(self, rng, m, tag, k=None, c=None, fixed_uv=None, ints=None):
        n = sum(1 for r in m for b in r if not b)
        k = rng.randint(1, 6) if k is None else k
        c = c or rng.randint(1, 4)
        if ints is None:
            ints = rng.random() < 0.22
        sy, sx = gen.scales_pair(rng)
        oy, ox = gen.origin_pair(rng)
        if rng.random() < 0.25:
            oy, ox = Fraction(0), Fraction(0)
        uv = fixed_uv if fixed_uv is not None else (self._uv(rng, k) if k > 0 else [])
        k = len(uv)
        uvq = [qlist(p) for p in uv]
        return {
            "tag": tag + ("_int" if ints else ""), "kind": "transformer", "mask": mask_json(m),
            "pixel_scales": [q(sy), q(sx)], "origin": [q(oy), q(ox)],
            "uv": uvq,
            "image": qlist([self._val(rng, ints) for _ in range(n)]),
            "vis": [qlist([self._val(rng, ints), self._val(rng, ints)]) for _ in range(k)],
            "M": qmat(self._matrix(rng, n, c, ints=ints)), "n_cols": c,
            "feed": self._feed(rng, ints, uvq),
        }

    def _normal_case(self, rng, m, tag):
        n = sum(1 for r in m for b in r if not b)
        k = rng.randint(2, 6)
        sy, sx = gen.scales_pair(rng)
        oy, ox = gen.origin_pair(rng)
        nobj = rng.randint(1, 3)
        style = rng.choice(["all_reg", "partial", "none_reg"])
        objs = []
        for j in range(nobj):
            c = rng.randint(1, 3)
            has = {"all_reg": True, "none_reg": False}.get(style, rng.random() < 0.5)
            objs.append({"M": qmat(self._matrix(rng, n, c)), "n_cols": c, "has_reg": has,
                         "cls": rng.choice(["mapper", "linear"])})
        return {
            "tag": tag + "_" + style, "kind": "normal_eq", "mask": mask_json(m),
            "pixel_scales": [q(sy), q(sx)], "origin": [q(oy), q(ox)],
            "uv": [qlist(p) for p in self._uv(rng, k)],
            "data": [qlist([gen.dyadic(rng, -4, 4, 3), gen.dyadic(rng, -4, 4, 3)]) for _ in range(k)],
            "noise": [qlist([gen.pos_dyadic(rng, 1, 4, 2), gen.pos_dyadic(rng, 1, 4, 2)]) for _ in range(k)],
            # explicit values incl. the "set but falsy" 0 and the explicit value equal to the package default
            "diag_value": q(rng.choice([Fraction(1, 1024), Fraction(1, 2), Fraction(3), Fraction(0),
                                        Fraction(1.0e-3)])),
            "default_settings": rng.random() < 0.25,
            "via_factory": rng.random() < 0.4,
            "preload": rng.random() < 0.5,
            "objs": objs,
            "feed": {"uv_dtype": "float", "M": rng.choice(["float", "int64", "float32"]),
                     "vis": rng.choice(["complex", "list", "pairs"]),
                     "scribble_uv": rng.random() < 0.5},
        }

    def _util_case(self, rng, tag):
        n = rng.randint(1, 8)
        k = rng.randint(1, 5)
        c = rng.randint(1, 3)
        # arbitrary (irregular, repeated, zero) grid positions in radians: dyadic multiples of 2^-24
        grid = [[Fraction(rng.randint(-400, 400), 1 << 24), Fraction(rng.randint(-400, 400), 1 << 24)]
                for _ in range(n)]
        if n >= 2 and rng.random() < 0.5:
            grid[1] = list(grid[0])
        ints = rng.random() < 0.25
        uvq = [qlist(p) for p in self._uv(rng, k)]
        return {
            "tag": tag + ("_int" if ints else ""), "kind": "util", "grid": [qlist(p) for p in grid],
            "uv": uvq,
            "image": qlist([self._val(rng, ints) for _ in range(n)]),
            "vis": [qlist([self._val(rng, ints), self._val(rng, ints)]) for _ in range(k)],
            "M": qmat(self._matrix(rng, n, c, ints=ints)), "n_cols": c,
            "feed": self._feed(rng, ints, uvq),
        }

    def generate(self, tier, rng):
        cells = 4 if tier == "quick" else 6
        fixed_uv = [[Fraction(30000), Fraction(-70000)], [Fraction(0), Fraction(0)],
                    [Fraction(-125000), Fraction(40000)], [Fraction(30000), Fraction(-70000)]]
        for (h, w) in gen.shapes_upto(cells):
            for m in gen.all_masks(h, w):
                yield self._transformer_case(rng, m, "exh_mask", c=2, fixed_uv=fixed_uv)
        # degenerate sizes: no unmasked pixel, no baseline, a single baseline, a single pixel
        for (h, w) in gen.shapes_upto(4):
            yield self._transformer_case(rng, gen.full(h, w), "zero_pixels", c=2)
            yield self._transformer_case(rng, gen.full(h, w, False), "zero_baselines", k=0, c=2)
            yield self._transformer_case(rng, gen.full(h, w, False), "one_baseline", k=1, c=1)
        yield self._transformer_case(rng, [[False]], "one_pixel_zero_baselines", k=0, c=1)
        n = 300 if tier == "quick" else 2500
        for i in range(n):
            h, w = rng.randint(1, 7), rng.randint(1, 7)
            m, kind = gen.random_mask(rng, h, w)
            yield self._transformer_case(rng, m, f"rnd_{kind}")
        for i in range(100 if tier == "quick" else 800):
            yield self._util_case(rng, "util")
        for i in range(150 if tier == "quick" else 1200):
            h, w = rng.randint(1, 6), rng.randint(1, 6)
            m, kind = gen.random_mask(rng, h, w)
            yield self._normal_case(rng, m, "normal")

    # ------------------------------------------------------------------ implementation
    def _mask(self, aa, case):
        mj = case["mask"]
        mb = np.array([c == "1" for c in mj["bits"]], dtype=bool).reshape(mj["h"], mj["w"])
        sy, sx = (_f(v) for v in case["pixel_scales"])
        oy, ox = (_f(v) for v in case["origin"])
        return aa.Mask2D(mask=mb, pixel_scales=(sy, sx), origin=(oy, ox))

    # -- feeding helpers (dtype / container variants; the real numbers are unchanged)
    def _uv_in(self, case):
        feed = case.get("feed") or {}
        if feed.get("uv_dtype") == "int64":
            return np.array([[int(Fraction(a)), int(Fraction(b))] for a, b in case["uv"]],
                            dtype=np.int64).reshape(-1, 2)
        return np.array([[_f(a), _f(b)] for a, b in case["uv"]], dtype=float).reshape(-1, 2)

    def _scribble(self, case, uv_in):
        """overwrite the CALLER's baseline array after construction: nothing may change."""
        if (case.get("feed") or {}).get("scribble_uv") and uv_in.size:
            uv_in *= -3
            uv_in += 12345

    def _image_in(self, case):
        kind = (case.get("feed") or {}).get("image", "float")
        if kind == "int64":
            return np.array([int(Fraction(v)) for v in case["image"]], dtype=np.int64)
        if kind == "pyint_list":
            return [int(Fraction(v)) for v in case["image"]]
        if kind == "float_list":
            return [_f(v) for v in case["image"]]
        if kind == "float32":
            return np.array([_f(v) for v in case["image"]], dtype=np.float32)
        return np.array([_f(v) for v in case["image"]], dtype=float)

    def _matrix_in(self, rows, n_cols, kind):
        if kind == "int64":
            return np.array([[int(Fraction(v)) for v in r] for r in rows], dtype=np.int64).reshape(-1, n_cols)
        a = np.array([[_f(v) for v in r] for r in rows], dtype=float).reshape(-1, n_cols)
        return a.astype(np.float32) if kind == "float32" else a

    def _vis_in(self, aa, pairs, kind, cls=None):
        cls = cls or aa.Visibilities
        if kind == "list" and pairs:
            return cls(visibilities=[complex(_f(a), _f(b)) for a, b in pairs])
        if kind == "pairs" and pairs:
            return cls(visibilities=np.array([[_f(a), _f(b)] for a, b in pairs], dtype=float))
        return cls(visibilities=np.array([complex(_f(a), _f(b)) for a, b in pairs], dtype=complex))

    def run_impl(self, case):
        aa = load_autoarray()
        feed = case.get("feed") or {}
        kind = case["kind"]
        if kind == "transformer":
            mask = self._mask(aa, case)
            image = aa.Array2D(values=self._image_in(case), mask=mask)
            vis = self._vis_in(aa, case["vis"], feed.get("vis", "complex"))
            M = self._matrix_in(case["M"], case["n_cols"], feed.get("M", "float"))
            obs = {}
            for preload in (True, False):
                uv_in = self._uv_in(case)
                if preload and feed.get("preload_kw") == "default":
                    t = aa.TransformerDFT(uv_wavelengths=uv_in, real_space_mask=mask)
                else:
                    t = aa.TransformerDFT(uv_wavelengths=uv_in, real_space_mask=mask,
                                          preload_transform=preload)
                self._scribble(case, uv_in)
                img = t.image_from(visibilities=vis)
                obs["preload_" + str(preload).lower()] = {
                    "grid": [qlist(p) for p in np.array(t.grid).reshape(-1, 2)],
                    "visibilities": _cx_list(t.visibilities_from(image=image)),
                    "image": qlist(np.array(img.slim).ravel()),
                    "image_native": qlist(np.array(img.native).ravel()),
                    "transformed": _cx_mat(np.asarray(t.transform_mapping_matrix(mapping_matrix=M)).reshape(
                        len(case["uv"]), case["n_cols"])),
                }
            return obs
        uv = self._uv_in(case)
        if kind == "util":
            tu = aa.util.transformer
            grid = np.array([[_f(a), _f(b)] for a, b in case["grid"]]).reshape(-1, 2)
            image = np.asarray(self._image_in(case))
            ints = feed.get("M") == "int64"
            vis2 = np.array([[(int(Fraction(a)) if ints else _f(a)), (int(Fraction(b)) if ints else _f(b))]
                             for a, b in case["vis"]]).reshape(-1, 2)
            M = self._matrix_in(case["M"], case["n_cols"], feed.get("M", "float"))
            re = tu.preload_real_transforms(grid_radians=grid, uv_wavelengths=uv)
            im = tu.preload_imag_transforms(grid_radians=grid, uv_wavelengths=uv)
            return {
                "preload_true": {
                    "visibilities": _cx_list(tu.visibilities_via_preload_jit_from(
                        image_1d=image, preloaded_reals=re, preloaded_imags=im)),
                    "transformed": _cx_mat(tu.transformed_mapping_matrix_via_preload_jit_from(
                        mapping_matrix=M, preloaded_reals=re, preloaded_imags=im)),
                    "image": qlist(tu.image_via_jit_from(n_pixels=grid.shape[0], grid_radians=grid,
                                                          uv_wavelengths=uv, visibilities=vis2)),
                },
                "preload_false": {
                    "visibilities": _cx_list(tu.visibilities_jit(
                        image_1d=image, grid_radians=grid, uv_wavelengths=uv)),
                    "transformed": _cx_mat(tu.transformed_mapping_matrix_jit(
                        mapping_matrix=M, grid_radians=grid, uv_wavelengths=uv)),
                    "image": qlist(tu.image_via_jit_from(n_pixels=grid.shape[0], grid_radians=grid,
                                                          uv_wavelengths=uv, visibilities=vis2)),
                },
            }
        # normal equations
        from autoarray.inversion.inversion.dataset_interface import DatasetInterface

        mask = self._mask(aa, case)
        data = self._vis_in(aa, case["data"], feed.get("vis", "complex"))
        noise = self._vis_in(aa, case["noise"], feed.get("vis", "complex"), aa.VisibilitiesNoiseMap)
        objs = []
        for o in case["objs"]:
            mk = feed.get("M", "float")
            if mk == "int64" and not all(Fraction(v).denominator == 1 for r in o["M"] for v in r):
                mk = "float"
            M = self._matrix_in(o["M"], o["n_cols"], mk)
            reg = aa.m.MockRegularization(regularization_matrix=np.eye(o["n_cols"])) if o["has_reg"] else None
            if o["cls"] == "mapper":
                objs.append(aa.m.MockMapper(mapping_matrix=M, parameters=o["n_cols"], regularization=reg,
                                            edge_pixel_list=[]))
            else:
                objs.append(aa.m.MockLinearObj(mapping_matrix=M, parameters=o["n_cols"], regularization=reg))
        if case["default_settings"]:
            settings = aa.SettingsInversion(use_w_tilde=False)
        else:
            settings = aa.SettingsInversion(
                use_w_tilde=False, no_regularization_add_to_curvature_diag_value=_f(case["diag_value"]))
        if case["via_factory"]:
            ds = aa.Interferometer(data=data, noise_map=noise, uv_wavelengths=uv, real_space_mask=mask,
                                   transformer_class=aa.TransformerDFT)
            if ds.transformer.preload_transform != case["preload"]:
                ds.transformer = aa.TransformerDFT(uv_wavelengths=uv, real_space_mask=mask,
                                                   preload_transform=case["preload"])
            self._scribble(case, uv)
            inv = aa.Inversion(dataset=ds, linear_obj_list=objs, settings=settings)
        else:
            t = aa.TransformerDFT(uv_wavelengths=uv, real_space_mask=mask, preload_transform=case["preload"])
            self._scribble(case, uv)
            ds = DatasetInterface(data=data, noise_map=noise, transformer=t)
            inv = aa.InversionInterferometerMapping(dataset=ds, linear_obj_list=objs, settings=settings)
        if type(inv).__name__ != "InversionInterferometerMapping":
            return {"err": "wrong_inversion_class", "msg": type(inv).__name__}
        return {
            "operated_mapping_matrix": _cx_mat(inv.operated_mapping_matrix),
            "data_vector": qlist(np.array(inv.data_vector)),
            "curvature_matrix": qmat(np.array(inv.curvature_matrix)),
            "no_regularization_index_list": [int(i) for i in inv.no_regularization_index_list],
        }

    # ------------------------------------------------------------------ model
    def _diag(self, case):
        return "1/1000" if case["default_settings"] else case["diag_value"]

    def model_requests(self, case, impl_obs):
        kind = case["kind"]
        if kind == "normal_eq":
            # the package default 1.0e-3 is not a dyadic rational: hand the driver the exact double
            diag = q(1.0e-3) if case["default_settings"] else case["diag_value"]
            return [{"op": "c13.normal_eq", "mask": case["mask"], "pixel_scales": case["pixel_scales"],
                     "origin": case["origin"], "uv": case["uv"], "preload": case["preload"],
                     "data": case["data"], "noise": case["noise"], "diag_value": diag,
                     "objs": [{"M": o["M"], "n_cols": o["n_cols"], "has_reg": o["has_reg"]}
                              for o in case["objs"]]}]
        base = {"op": "c13.transformer", "uv": case["uv"], "image": case["image"], "vis": case["vis"],
                "M": case["M"], "n_cols": case["n_cols"]}
        if kind == "transformer":
            base.update(mask=case["mask"], pixel_scales=case["pixel_scales"], origin=case["origin"])
        else:
            base.update(grid=case["grid"])
        return [{**base, "preload": True}, {**base, "preload": False}]

    def model_obs(self, case, responses):
        for r in responses:
            if "ok" not in r:
                return {"err": r.get("err")}
        if case["kind"] == "normal_eq":
            return responses[0]["ok"]
        out = {}
        for key, r in zip(("preload_true", "preload_false"), responses):
            o = dict(r["ok"])
            if case["kind"] == "util":
                o.pop("grid", None)
            out[key] = o
        return out

    # ------------------------------------------------------------------ oracle
    def _grid(self, case):
        """pixel centres of the unmasked pixels in radians, from the mask geometry (independent)."""
        if case["kind"] == "util":
            return np.array([[_f(a), _f(b)] for a, b in case["grid"]]).reshape(-1, 2)
        mj = case["mask"]
        h, w = mj["h"], mj["w"]
        sy, sx = (Fraction(v) for v in case["pixel_scales"])
        oy, ox = (Fraction(v) for v in case["origin"])
        pts = []
        for i, b in enumerate(mj["bits"]):
            if b == "0":
                y, x = divmod(i, w)
                pts.append([float(oy + (Fraction(h - 1, 2) - y) * sy) * ARCSEC,
                            float(ox + (x - Fraction(w - 1, 2)) * sx) * ARCSEC])
        return np.array(pts).reshape(-1, 2)

    def _operator(self, case):
        g = self._grid(case)
        uv = np.array([[_f(a), _f(b)] for a, b in case["uv"]]).reshape(-1, 2)
        # A[k, p] = exp(-2 pi i (x_p u_k + y_p v_k))
        ph = -2.0 * math.pi * (np.outer(uv[:, 0], g[:, 1]) + np.outer(uv[:, 1], g[:, 0]))
        return np.cos(ph) + 1j * np.sin(ph), g

    def oracle(self, case, obs):
        if "err" in obs:
            return False, f"implementation raised {obs['err']}: {obs.get('msg', '')}"
        A, g = self._operator(case)
        kind = case["kind"]

        def cx(lst):
            return np.array([complex(_f(a), _f(b)) for a, b in lst])

        def cxm(mat, k, c):
            return np.array([[complex(_f(a), _f(b)) for a, b in row] for row in mat]).reshape(k, c)

        K, N = A.shape
        if kind == "normal_eq":
            Ms = [np.array([[_f(v) for v in r] for r in o["M"]]).reshape(N, o["n_cols"]) for o in case["objs"]]
            B = np.hstack(Ms)
            T = A @ B
            C = B.shape[1]
            ok, d = _close_arr(cxm(obs["operated_mapping_matrix"], K, C), T)
            if not ok:
                return False, "operated (transformed) mapping matrix is not the Fourier operator applied to the columns: " + d
            V = cx(case["data"])
            S = cx(case["noise"])
            D = (T.real * (V.real / S.real ** 2)[:, None]).sum(axis=0) + \
                (T.imag * (V.imag / S.imag ** 2)[:, None]).sum(axis=0)
            F = (T.real / S.real[:, None]).T @ (T.real / S.real[:, None]) + \
                (T.imag / S.imag[:, None]).T @ (T.imag / S.imag[:, None])
            diag = 1.0e-3 if case["default_settings"] else _f(case["diag_value"])
            off = 0
            noreg = []
            for o in case["objs"]:
                if not o["has_reg"]:
                    noreg += list(range(off, off + o["n_cols"]))
                off += o["n_cols"]
            for i in noreg:
                F[i, i] += diag
            ok, d = _close_arr(np.array([_f(v) for v in obs["data_vector"]]), D)
            if not ok:
                return False, "data_vector is not the noise-weighted real+imaginary product: " + d
            ok, d = _close_arr(np.array([[_f(v) for v in r] for r in obs["curvature_matrix"]]).reshape(C, C), F)
            if not ok:
                return False, "curvature_matrix is not the noise-weighted real+imaginary Gram matrix: " + d
            return True, ""
        I = np.array([_f(v) for v in case["image"]])
        V = cx(case["vis"])
        M = np.array([[_f(v) for v in r] for r in case["M"]]).reshape(N, case["n_cols"])
        exp_vis = A @ I
        exp_T = A @ M
        exp_img = np.real(A.conj().T @ V)
        for key in ("preload_true", "preload_false"):
            o = obs[key]
            if kind == "transformer":
                ok, d = _close_arr(np.array([[_f(a), _f(b)] for a, b in o["grid"]]).reshape(-1, 2), g,
                                   scale=max(1e-12, float(np.max(np.abs(g))) if g.size else 1e-12))
                if not ok:
                    return False, f"{key}: transformer grid is not the unmasked pixel centres in radians: " + d
            ok, d = _close_arr(cx(o["visibilities"]), exp_vis)
            if not ok:
                return False, f"{key}: visibilities != sum_p I_p exp(-2 pi i (x_p u + y_p v)): " + d
            ok, d = _close_arr(cxm(o["transformed"], K, case["n_cols"]), exp_T)
            if not ok:
                return False, f"{key}: transformed mapping matrix != operator applied to each column: " + d
            ok, d = _close_arr(np.array([_f(v) for v in o["image"]]), exp_img)
            if not ok:
                return False, f"{key}: image_from != real part of the conjugate-transpose operator: " + d
            if kind == "transformer":
                mj = case["mask"]
                nat = np.zeros(mj["h"] * mj["w"])
                nat[[i for i, b in enumerate(mj["bits"]) if b == "0"]] = exp_img
                ok, d = _close_arr(np.array([_f(v) for v in o["image_native"]]), nat)
                if not ok:
                    return False, f"{key}: native image is not the adjoint image at the unmasked pixels / zero elsewhere: " + d
        a, b = obs["preload_true"], obs["preload_false"]
        for k2 in ("visibilities", "transformed"):
            x = np.array(a[k2], dtype=object)
            ok, d = _close_arr(np.vectorize(_f)(x) if x.size else np.zeros(0),
                               np.vectorize(_f)(np.array(b[k2], dtype=object)) if x.size else np.zeros(0))
            if not ok:
                return False, f"{k2}: preloaded and non-preloaded paths differ: " + d
        return True, ""

    # ------------------------------------------------------------------ misc
    def nontrivial(self, case, obs):
        npts = len(case["grid"]) if case["kind"] == "util" else case["mask"]["bits"].count("0")
        nz = any(Fraction(a) != 0 or Fraction(b) != 0 for a, b in case["uv"])
        return npts >= 2 and nz

    def shrink(self, case):
        if case["kind"] != "transformer":
            return
        # drop a baseline
        k = len(case["uv"])
        for i in range(k):
            if k > 1:
                yield {**case, "uv": case["uv"][:i] + case["uv"][i + 1:],
                       "vis": case["vis"][:i] + case["vis"][i + 1:]}
        # drop a column of M
        c = case["n_cols"]
        for j in range(c):
            if c > 1:
                yield {**case, "n_cols": c - 1, "M": [r[:j] + r[j + 1:] for r in case["M"]]}
        # mask a pixel
        mj = case["mask"]
        bits = mj["bits"]
        un = [i for i, b in enumerate(bits) if b == "0"]
        for pos, i in enumerate(un):
            if len(un) > 1:
                yield {**case, "mask": {**mj, "bits": bits[:i] + "1" + bits[i + 1:]},
                       "image": case["image"][:pos] + case["image"][pos + 1:],
                       "M": case["M"][:pos] + case["M"][pos + 1:]}
        if case["origin"] != ["0", "0"]:
            yield {**case, "origin": ["0", "0"]}

    def theorems_for(self, case):
        if case["kind"] == "normal_eq":
            return ["C13.a_grid_is_pixel_centres_in_radians", "C13.b_transformed_mapping_matrix",
                    "C13.d_data_vector", "C13.d_curvature_matrix", "C13.d_curvature_symmetric",
                    "C13.d_operated_mapping_matrix_rows", "C13.d_data_vector_from_mapping_matrix"]
        t = ["C13.a_phase", "C13.a_visibilities", "C13.a_preload_eq", "C13.b_transformed_mapping_matrix",
             "C13.b_columnwise_operator", "C13.c_image_from",
             "C13.c_image_is_real_part_of_conjugate_transpose", "C13.c_adjoint_identity"]
        if case["kind"] == "transformer":
            t.append("C13.a_grid_is_pixel_centres_in_radians")
        return t


CHECK = C13()
