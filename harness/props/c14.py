"""C14 — resize, pad and trim keep data centred and attached to its coordinates; zoom windows contain
every unmasked pixel with its value."""
from __future__ import annotations

import itertools
from fractions import Fraction

import numpy as np

import gen
from common import PropertyCheck, Skip, load_autoarray, mask_json, q, qlist

TOL = Fraction(1, 10 ** 9)

# pixel scales: dyadic ones keep every coordinate an exact double; 3/4, 3/2, 3 make o/s inexact
SCALES = [Fraction(1, 4), Fraction(1, 2), Fraction(1), Fraction(2), Fraction(3, 4), Fraction(3, 2),
          Fraction(3)]


# --------------------------------------------------------------------------------------------
# helpers shared by run_impl and oracle
# --------------------------------------------------------------------------------------------
def _bits(mj):
    return [[mj["bits"][y * mj["w"] + x] == "1" for x in range(mj["w"])] for y in range(mj["h"])]


def _grid2(vals, h, w):
    return [[Fraction(vals[y * w + x]) for x in range(w)] for y in range(h)]


def _coord_y(h, oy, sy, i):
    return oy + (Fraction(h - 1, 2) - i) * sy


def _coord_x(w, ox, sx, j):
    return ox + (j - Fraction(w - 1, 2)) * sx


def _close(a, b):
    a, b = Fraction(a), Fraction(b)
    return abs(a - b) <= TOL * max(1, abs(a), abs(b))


def _admissible(n, n2):
    """offsets t (result[r] = src[r + t]) of a centred crop / embedding of n -> n2 along one axis:
    the two margins differ by at most one pixel (equal when the parity is preserved)."""
    d = n - n2
    return sorted({d // 2, -((-d) // 2)})


def _window(prev, h, w, h2, w2, ty, tx, pad):
    out = []
    for r in range(h2):
        row = []
        for c in range(w2):
            y, x = r + ty, c + tx
            row.append(prev[y][x] if 0 <= y < h and 0 <= x < w else pad)
        out.append(row)
    return out


def _geom_case(rng, exact=None):
    if exact is None:
        exact = rng.random() < 0.6
    pool = SCALES[:4] if exact else SCALES
    sy, sx = rng.choice(pool), rng.choice(pool)
    if rng.random() < 0.15:
        oy, ox = Fraction(0), Fraction(0)
    else:
        oy, ox = gen.dyadic(rng, -4, 4, 3), gen.dyadic(rng, -4, 4, 3)
    return {"scales": [q(sy), q(sx)], "origin": [q(oy), q(ox)]}


def _values(rng, n, signed=True):
    vals = gen.distinct_ints(rng, n, signed=signed)
    if rng.random() < 0.3:
        vals = [Fraction(v, 4) for v in vals]
    return vals


class C14(PropertyCheck):
    pid = "C14"
    title = "resize / pad / trim / zoom"
    nontrivial_rule = (
        "a case is non-trivial when the shape changes on at least one axis (resize/pad/trim), or the "
        "mask has both masked and unmasked pixels (zoom / apply_mask); distinct = distinct "
        "(kind, shapes, mask, values, geometry, steps)"
    )
    exhaustive_note = {
        "quick": "resized_array_2d_from: every (H,W) in 1..5 x 1..5 to every (H',W') in 1..7 x 1..7 "
                 "(all 16 parity combinations); Mask2D/Array2D.resized_from there-and-back: every (H,W) in "
                 "1..4^2 to every (H',W') in 1..6^2 with both mask pad values; pad/trim: every shape in "
                 "1..5^2 with every odd kernel in {1,3,5,7}^2; zoom: every mask of every shape with H*W<=8 "
                 "(successive apply_mask chains are enumerated over shape x kernel x relation x length, masks seeded)",
        "thorough": "resized_array_2d_from: every (H,W) in 1..8^2 to every (H',W') in 1..10^2; "
                    "Mask2D/Array2D.resized_from there-and-back: every (H,W) in 1..6^2 to every (H',W') "
                    "in 1..8^2; pad/trim: every shape in 1..7^2 with every odd kernel in {1,...,9}^2; "
                    "zoom: every mask of every shape with H*W<=12",
    }
    trusted_extra = [
        "numpy basic slicing (trimmed_after_convolution_from, trimmed_array_from), np.where/amin/amax "
        "(zoom_region) and astype('bool') are modelled directly, not as loops; checked by correspondence",
        "IEEE rounding of pixel-centre coordinates: theorems are over an exact ordered field; "
        "coordinates are compared within 1e-9 relative",
    ]
    # loop ties (DESIGN §12): regenerated from the source on every run, tie theorems proved for all sizes
    loop_tie_modules = ["LoopsResize"]
    modelled_functions = [
        "autoarray/structures/arrays/array_2d_util.py:resized_array_2d_from",
        "autoarray/structures/arrays/array_2d_util.py:extracted_array_2d_from",
        "autoarray/structures/arrays/array_2d_util.py:convert_array_2d",
        "autoarray/structures/arrays/uniform_2d.py:AbstractArray2D.resized_from",
        "autoarray/structures/arrays/uniform_2d.py:AbstractArray2D.padded_before_convolution_from",
        "autoarray/structures/arrays/uniform_2d.py:AbstractArray2D.trimmed_after_convolution_from",
        "autoarray/structures/arrays/uniform_2d.py:AbstractArray2D.zoomed_around_mask",
        "autoarray/mask/mask_2d.py:Mask2D.resized_from",
        "autoarray/mask/mask_2d.py:Mask2D.trimmed_array_from",
        "autoarray/mask/mask_2d.py:Mask2D.zoom_region",
        "autoarray/mask/mask_2d_util.py:blurring_mask_2d_from",
        "autoarray/mask/derive/mask_2d.py:DeriveMask2D.blurring_from",
        "autoarray/dataset/imaging/dataset.py:Imaging.__init__",
        "autoarray/dataset/imaging/dataset.py:Imaging.apply_mask",
        "autoarray/dataset/imaging/dataset.py:Imaging.grids",
        "autoarray/mask/abstract_mask.py:Mask.is_all_false",
        "autoarray/mask/abstract_mask.py:Mask.pixels_in_mask",
        "autoarray/dataset/grids.py:GridsDataset.uniform",
        "autoarray/structures/grids/uniform_2d.py:Grid2D.from_mask",
        "autoarray/structures/grids/grid_2d_util.py:grid_2d_slim_via_mask_from",
        "autoarray/geometry/geometry_util.py:central_pixel_coordinates_2d_from",
        "autoarray/geometry/geometry_util.py:central_scaled_coordinate_2d_from",
    ]
    assumptions = [
        "shapes >= 1 on both axes; at least one unmasked pixel for zoom; odd kernel shapes; "
        "trim kernels smaller than the array; noise maps positive",
    ]

    # ------------------------------------------------------------------ generation
    # -- round-3 hardening: the same mathematical case is fed through different dtypes / containers /
    #    spellings of optional arguments / constructors (the exact model and the oracle do not care)
    VALUE_KEYS = ("src", "native", "data", "noise", "padded")

    def generate(self, tier, rng):
        for case in self._generate_base(tier, rng):
            yield self._harden(rng, case)

    def _harden(self, rng, case):
        r = rng.random()
        dt = "f8" if r < 0.45 else "i8" if r < 0.63 else "list" if r < 0.80 else "f4" if r < 0.88 else "obj"
        v = {"dt": dt,
             "shp": rng.choice(("tuple", "tuple", "list", "npint")),
             "pad": rng.choice(("int", "float", "bool")),
             "mask_in": rng.choice(("bool", "bool", "list", "int")),
             "scalar_scale": rng.random() < 0.5,
             "omit_defaults": rng.random() < 0.4,
             "ctor": rng.choice(("native", "native", "slim", "no_mask_apply", "direct"))}
        if dt in ("i8", "list"):
            for k in self.VALUE_KEYS:
                if k in case and any(Fraction(x).denominator != 1 for x in case[k]):
                    case = {**case, k: qlist([Fraction(x) * 4 for x in case[k]])}
        return {**case, "variant": v}

    @staticmethod
    def _var(case):
        return case.get("variant") or {}

    def _vals(self, case, key, h, w, need_ndarray=False):
        """the value array of the case in the dtype / container the variant asks for."""
        fr = [Fraction(x) for x in case[key]]
        dt = self._var(case).get("dt", "f8")
        integral = all(f.denominator == 1 for f in fr)
        if dt == "i8" and integral:
            return np.array([int(f) for f in fr], dtype=np.int64).reshape(h, w)
        if dt == "f4":
            return np.array([float(f) for f in fr], dtype=np.float32).reshape(h, w)
        if dt == "list" and not need_ndarray:
            flat = [int(f) if integral else float(f) for f in fr]
            return [flat[y * w:(y + 1) * w] for y in range(h)]
        if dt == "list" and integral:
            return np.array([int(f) for f in fr], dtype=np.int64).reshape(h, w)
        return np.array([float(f) for f in fr]).reshape(h, w)

    def _shp(self, case, pair):
        k = self._var(case).get("shp", "tuple")
        if k == "list":
            return [int(pair[0]), int(pair[1])]
        if k == "npint":
            return (np.int64(pair[0]), np.int64(pair[1]))
        return (int(pair[0]), int(pair[1]))

    def _padv(self, case, b):
        k = self._var(case).get("pad", "int")
        b = int(b)
        return {"int": b, "float": float(b), "bool": bool(b)}[k]

    def _scales_arg(self, case, sc):
        if self._var(case).get("scalar_scale") and sc[0] == sc[1]:
            return float(sc[0])
        return sc

    def _mask_arg(self, case, bits2d):
        k = self._var(case).get("mask_in", "bool")
        if k == "list":
            return [[bool(b) for b in row] for row in bits2d]
        if k == "int":
            return np.array(bits2d, dtype=np.int64)
        return np.array(bits2d, dtype=bool)

    def _generate_base(self, tier, rng):
        quick = tier == "quick"
        # 1. raw util, exhaustive shapes (all parity combinations)
        src_max, dst_max = (5, 7) if quick else (8, 10)
        for h, w, h2, w2 in itertools.product(range(1, src_max + 1), range(1, src_max + 1),
                                              range(1, dst_max + 1), range(1, dst_max + 1)):
            pad = Fraction(0) if rng.random() < 0.5 else gen.dyadic(rng, -3, 3, 2)
            yield {"tag": "util_resize_exh", "kind": "util_resize", "h": h, "w": w,
                   "shape": [h2, w2], "src": qlist(_values(rng, h * w)), "pad": q(pad), "origin": None}
        # explicit origins (only the unit tests use this argument)
        for _ in range(40 if quick else 300):
            h, w = rng.randint(1, 7), rng.randint(1, 7)
            yield {"tag": "util_resize_origin", "kind": "util_resize", "h": h, "w": w,
                   "shape": [rng.randint(1, 8), rng.randint(1, 8)], "src": qlist(_values(rng, h * w)),
                   "pad": q(gen.dyadic(rng, -3, 3, 2)),
                   "origin": [rng.randrange(h), rng.randrange(w)]}
        # 2. raw window extraction, incl. windows leaving the frame on every side
        for _ in range(150 if quick else 1500):
            h, w = rng.randint(1, 6), rng.randint(1, 6)
            y0, x0 = rng.randint(-3, h + 1), rng.randint(-3, w + 1)
            y1, x1 = rng.randint(y0, h + 3), rng.randint(x0, w + 3)
            yield {"tag": "util_extract", "kind": "util_extract", "h": h, "w": w,
                   "src": qlist(_values(rng, h * w)), "win": [y0, y1, x0, x1]}
        # 3. Mask2D.resized_from and Array2D.resized_from: there and back again, exhaustive shapes
        s_max, d_max = (4, 6) if quick else (6, 8)
        for h, w, h2, w2, pad in itertools.product(range(1, s_max + 1), range(1, s_max + 1),
                                                   range(1, d_max + 1), range(1, d_max + 1), (0, 1)):
            m, mk = gen.random_mask(rng, h, w)
            steps = [{"k": "resize", "shape": [h2, w2], "mask_pad": pad},
                     {"k": "resize", "shape": [h, w], "mask_pad": rng.choice((0, 1))}]
            base = {"mask": mask_json(m), **_geom_case(rng), "steps": steps,
                    "roundtrip": h2 >= h and w2 >= w}
            yield {"tag": "mask_resize_exh", "kind": "mask_chain", **base}
            yield {"tag": "array_resize_exh", "kind": "array_chain", **base,
                   "native": qlist(_values(rng, h * w)), "store_native": rng.random() < 0.5}
        # 4. pad for an odd kernel then trim for the same kernel: all shapes x all odd kernels
        p_max, kmax = (5, 7) if quick else (7, 9)
        kernels = list(range(1, kmax + 1, 2))
        for h, w, kh, kw in itertools.product(range(1, p_max + 1), range(1, p_max + 1), kernels, kernels):
            m, mk = gen.random_mask(rng, h, w)
            pad = rng.choice((0, 1))
            yield {"tag": "pad_trim_exh", "kind": "array_chain", "mask": mask_json(m),
                   **_geom_case(rng), "native": qlist(_values(rng, h * w)),
                   "store_native": rng.random() < 0.5, "roundtrip": True,
                   "steps": [{"k": "pad", "kernel": [kh, kw], "mask_pad": pad},
                             {"k": "trim", "kernel": [kh, kw]}]}
            yield {"tag": "mask_trimmed_array", "kind": "mask_trim", "image_shape": [h, w],
                   "kernel": [kh, kw], **_geom_case(rng),
                   "padded": qlist(_values(rng, (h + kh - 1) * (w + kw - 1)))}
        # trimmed_array_from with arbitrary (also odd) pad sizes: the model mirrors the code
        for _ in range(60 if quick else 400):
            ih, iw = rng.randint(1, 5), rng.randint(1, 5)
            hp, wp = ih + rng.randint(0, 5), iw + rng.randint(0, 5)
            yield {"tag": "mask_trimmed_array_anypad", "kind": "mask_trim", "image_shape": [ih, iw],
                   "padded_shape": [hp, wp], **_geom_case(rng), "padded": qlist(_values(rng, hp * wp))}
        # 5. longer random chains on larger masks
        for _ in range(120 if quick else 800):
            h, w = rng.randint(2, 8), rng.randint(2, 8)
            m, mk = gen.random_mask(rng, h, w)
            steps, ch, cw = [], h, w
            for _s in range(rng.randint(1, 4)):
                kind = rng.choice(("resize", "pad", "trim"))
                if kind == "resize":
                    ch, cw = rng.randint(1, 10), rng.randint(1, 10)
                    steps.append({"k": "resize", "shape": [ch, cw], "mask_pad": rng.choice((0, 1))})
                elif kind == "pad":
                    kh, kw = rng.choice((1, 3, 5)), rng.choice((1, 3, 5))
                    ch, cw = ch + kh - 1, cw + kw - 1
                    steps.append({"k": "pad", "kernel": [kh, kw], "mask_pad": rng.choice((0, 1))})
                else:
                    ks = [k for k in (1, 3, 5) if k - 1 < ch], [k for k in (1, 3, 5) if k - 1 < cw]
                    kh, kw = rng.choice(ks[0]), rng.choice(ks[1])
                    ch, cw = ch - (kh - 1), cw - (kw - 1)
                    steps.append({"k": "trim", "kernel": [kh, kw]})
            yield {"tag": f"array_chain_random_{mk}", "kind": "array_chain", "mask": mask_json(m),
                   **_geom_case(rng), "native": qlist(_values(rng, h * w)),
                   "store_native": rng.random() < 0.5, "roundtrip": False, "steps": steps}
        # 6. Imaging.apply_mask: masks whose blurring region does / does not leave the frame
        shapes = [(3, 3), (3, 4), (4, 3), (4, 5), (5, 4)] if quick else \
            [(h, w) for h in range(2, 7) for w in range(2, 7)]
        kers = [(1, 1), (1, 3), (3, 1), (3, 3), (3, 5), (5, 3), (5, 5)]
        if not quick:
            kers += [(1, 5), (5, 1), (7, 3), (3, 7), (7, 7)]
        for (h, w), (kh, kw) in itertools.product(shapes, kers):
            for margin in (0, 0, 1):
                m, mk = gen.random_mask(rng, h, w, margin=margin if min(h, w) > 2 * margin else 0)
                yield self._apply_mask_case(rng, m, kh, kw, f"apply_mask_{'edge' if margin == 0 else 'inner'}")
        for _ in range(120 if quick else 800):
            h, w = rng.randint(2, 9), rng.randint(2, 9)
            kh, kw = rng.choice((1, 3, 5, 7)), rng.choice((1, 3, 5, 7))
            margin = rng.choice((0, 0, 1, 2))
            m, mk = gen.random_mask(rng, h, w, margin=margin if min(h, w) > 2 * margin else 0)
            yield self._apply_mask_case(rng, m, kh, kw, f"apply_mask_random_{mk}")
        # degenerate frames (1x1, 1xN, Nx1) and masks with zero / one unmasked pixel
        for (h, w), (kh, kw) in itertools.product([(1, 1), (1, 3), (3, 1), (1, 4), (2, 1), (2, 2)],
                                                  [(1, 1), (3, 3), (1, 3), (3, 1), (5, 3)]):
            yield self._apply_mask_case(rng, gen.full(h, w, False), kh, kw, "apply_mask_degenerate_all_unmasked")
            yield self._apply_mask_case(rng, gen.full(h, w, True), kh, kw, "apply_mask_degenerate_all_masked")
            yield self._apply_mask_case(rng, gen.random_mask(rng, h, w, kind="single")[0], kh, kw,
                                        "apply_mask_degenerate_single")
        for _ in range(30 if quick else 200):
            h, w = rng.randint(1, 5), rng.randint(1, 5)
            yield {"tag": "array_chain_all_masked", "kind": "array_chain", "mask": mask_json(gen.full(h, w, True)),
                   **_geom_case(rng), "native": qlist(_values(rng, h * w)), "store_native": rng.random() < 0.5,
                   "roundtrip": True,
                   "steps": [{"k": "resize", "shape": [h + rng.randint(0, 3), w + rng.randint(0, 3)],
                              "mask_pad": rng.choice((0, 1))},
                             {"k": "resize", "shape": [h, w], "mask_pad": 0}]}
        # 6b. successive apply_mask calls: every later mask is applied to the retained unmasked dataset
        rel_kinds = ("superset", "subset", "disjoint", "shifted", "random", "all_false_first")
        chain_shapes = [(3, 3), (3, 4), (4, 5)] if quick else [(3, 3), (3, 4), (4, 3), (4, 5), (5, 4), (5, 6)]
        chain_kers = [(1, 1), (3, 3), (1, 3), (3, 5)] if quick else [(1, 1), (3, 3), (1, 3), (3, 1), (3, 5), (5, 3), (5, 5)]
        for (h, w), (kh, kw), rel, nsteps in itertools.product(chain_shapes, chain_kers, rel_kinds, (2, 3)):
            margin = rng.choice((0, 0, 1))
            yield self._apply_mask_chain_case(rng, h, w, kh, kw, rel, nsteps,
                                              margin if min(h, w) > 2 * margin else 0)
        for _ in range(80 if quick else 800):
            h, w = rng.randint(2, 8), rng.randint(2, 8)
            kh, kw = rng.choice((1, 3, 5)), rng.choice((1, 3, 5))
            margin = rng.choice((0, 0, 1, 2))
            yield self._apply_mask_chain_case(rng, h, w, kh, kw, rng.choice(rel_kinds), rng.choice((2, 3, 4)),
                                              margin if min(h, w) > 2 * margin else 0)
        # 7. zoom: exhaustive small masks (all shapes, square or not), then larger non-square ones
        cells = 8 if quick else 12
        for (h, w) in gen.shapes_upto(cells):
            masks = list(gen.all_masks(h, w))
            if len(masks) > 700:
                off = rng.randrange(5)
                masks = masks[off::5]
            for m in masks:
                yield self._zoom_case(rng, m, rng.choice((0, 1, 1, 2)), "zoom_exh")
        for _ in range(250 if quick else 2000):
            h, w = rng.randint(1, 9), rng.randint(1, 11)
            m, mk = gen.random_mask(rng, h, w)
            yield self._zoom_case(rng, m, rng.choice((0, 1, 1, 2, 3)), f"zoom_random_{mk}")

    def _apply_mask_case(self, rng, m, kh, kw, tag):
        h, w = len(m), len(m[0])
        return {"tag": tag, "kind": "apply_mask", "mask": mask_json(m), **_geom_case(rng),
                "data": qlist(_values(rng, h * w)),
                "noise": qlist([abs(v) for v in _values(rng, h * w, signed=False)]),
                "kernel": [kh, kw]}

    @staticmethod
    def _related_mask(rng, a, rel, margin):
        """a mask related to `a` (True = masked): its unmasked set is a superset / subset / disjoint /
        shifted copy of a's, or independent."""
        h, w = len(a), len(a[0])
        cells = [(y, x) for y in range(h) for x in range(w)]
        unm = [(y, x) for y, x in cells if not a[y][x]]
        msk = [(y, x) for y, x in cells if a[y][x]]
        b = [row[:] for row in a]
        if rel == "superset" and msk:
            for y, x in rng.sample(msk, rng.randint(1, min(3, len(msk)))):
                b[y][x] = False
            return b
        if rel == "subset" and len(unm) > 1:
            for y, x in rng.sample(unm, rng.randint(1, len(unm) - 1)):
                b[y][x] = True
            return b
        if rel == "disjoint" and msk:
            b = [[True] * w for _ in range(h)]
            for y, x in rng.sample(msk, rng.randint(1, min(4, len(msk)))):
                b[y][x] = False
            return b
        if rel == "shifted":
            dy, dx = rng.choice(((0, 1), (1, 0), (0, -1), (-1, 0), (1, 1), (-1, 1)))
            b = [[True] * w for _ in range(h)]
            for y, x in unm:
                if 0 <= y + dy < h and 0 <= x + dx < w:
                    b[y + dy][x + dx] = False
            if any(not v for r in b for v in r):
                return b
        return gen.random_mask(rng, h, w, margin=margin)[0]

    def _apply_mask_chain_case(self, rng, h, w, kh, kw, rel, nsteps, margin):
        if rel == "all_false_first":
            masks = [gen.full(h, w, False)]
        else:
            masks = [gen.random_mask(rng, h, w, margin=margin)[0]]
        while len(masks) < nsteps:
            r = rel if rel != "all_false_first" else rng.choice(("random", "subset"))
            if len(masks) >= 2:
                r = rng.choice(("superset", "subset", "disjoint", "shifted", "random"))
            if rng.random() < 0.08:
                masks.append(gen.full(h, w, True))      # zero unmasked pixels: triples are vacuous, no crash
            else:
                prev = masks[-1] if any(not v for row in masks[-1] for v in row) else masks[0]
                masks.append(self._related_mask(rng, prev, r, margin))
        return {"tag": f"apply_mask_chain_{rel}", "kind": "apply_mask_chain", "h": h, "w": w,
                "masks": [mask_json(m) for m in masks], **_geom_case(rng),
                "data": qlist(_values(rng, h * w)),
                "noise": qlist([abs(v) for v in _values(rng, h * w, signed=False)]),
                "kernel": [kh, kw]}

    def _zoom_case(self, rng, m, buffer, tag):
        h, w = len(m), len(m[0])
        return {"tag": tag, "kind": "zoom", "mask": mask_json(m), **_geom_case(rng),
                "native": qlist(_values(rng, h * w)), "buffer": buffer}

    # ------------------------------------------------------------------ implementation
    @staticmethod
    def _geom(case):
        sc = tuple(float(Fraction(v)) for v in case["scales"])
        og = tuple(float(Fraction(v)) for v in case["origin"])
        return sc, og

    @staticmethod
    def _mask_obs(mask):
        return {"mask": mask_json(np.asarray(mask).astype(bool)),
                "scales": qlist(mask.pixel_scales), "origin": qlist(mask.origin)}

    def _arr_obs(self, aa, arr):
        mask = arr.mask
        grid = np.asarray(aa.Grid2D.from_mask(mask=mask).array).reshape(-1, 2)
        return {**self._mask_obs(mask),
                "native": qlist(np.asarray(arr.native.array).ravel()),
                "slim": qlist(np.asarray(arr.slim.array).ravel()),
                "store_native": bool(arr.store_native),
                "grid": [qlist(p) for p in grid]}

    def _ds_obs(self, aa, ds, h, w):
        dobs = self._arr_obs(aa, ds.data)
        nobs = self._arr_obs(aa, ds.noise_map)
        return {"padded": tuple(ds.data.shape_native) != (h, w), "data": dobs, "noise": nobs,
                "grid_uniform": [qlist(p) for p in np.asarray(ds.grids.uniform.array).reshape(-1, 2)],
                "ds_mask": self._mask_obs(ds.mask)}

    def _mask2d(self, aa, case):
        sc, og = self._geom(case)
        return aa.Mask2D(mask=self._mask_arg(case, _bits(case["mask"])),
                         pixel_scales=self._scales_arg(case, sc), origin=og)

    def _make_array(self, aa, case, mask, key, h, w, store_native=False):
        """Array2D on `mask` holding case[key], through the constructor route the variant names."""
        v = self._var(case)
        vals = self._vals(case, key, h, w)
        ctor = v.get("ctor", "native")
        if v.get("dt") == "obj":   # an autoarray structure where an array is accepted
            vals = aa.Array2D.no_mask(values=self._vals({**case, "variant": {}}, key, h, w),
                                      pixel_scales=mask.pixel_scales, origin=mask.origin).native
        if ctor == "slim" and v.get("dt") != "obj":
            m = np.asarray(mask).astype(bool)
            flat = np.asarray(vals, dtype=np.asarray(vals).dtype).reshape(h, w)[~m]
            if v.get("dt") == "list":
                flat = flat.tolist()
            return aa.Array2D(values=flat, mask=mask, store_native=store_native)
        if ctor == "no_mask_apply" and not store_native:
            return aa.Array2D.no_mask(values=vals, pixel_scales=mask.pixel_scales,
                                      origin=mask.origin).apply_mask(mask=mask)
        return aa.Array2D(values=vals, mask=mask, store_native=store_native)

    def _unmasked_pair(self, aa, case, h, w, sc, og):
        """unmasked data and noise map: Array2D.no_mask, or Array2D(values, mask=Mask2D.all_false(...))"""
        out = []
        for key in ("data", "noise"):
            vals = self._vals(case, key, h, w)
            if self._var(case).get("ctor") in ("slim", "no_mask_apply"):
                m = aa.Mask2D.all_false(shape_native=(h, w), pixel_scales=self._scales_arg(case, sc), origin=og)
                out.append(aa.Array2D(values=vals, mask=m))
            else:
                out.append(aa.Array2D.no_mask(values=vals, pixel_scales=self._scales_arg(case, sc), origin=og))
        return out

    def _psf(self, aa, case, kh, kw, sc):
        dt = self._var(case).get("dt", "f8")
        if dt in ("i8", "list"):
            vals = np.ones((kh, kw), dtype=np.int64) if dt == "i8" else [[1] * kw for _ in range(kh)]
        else:
            vals = np.ones((kh, kw))
        return aa.Kernel2D.no_mask(values=vals, pixel_scales=self._scales_arg(case, sc))

    def run_impl(self, case):
        aa = load_autoarray()
        from autoarray.structures.arrays import array_2d_util

        kind = case["kind"]
        if kind == "util_resize":
            src = self._vals(case, "src", case["h"], case["w"], need_ndarray=True)
            kw = {}
            if case["origin"] is not None:
                kw["origin"] = tuple(case["origin"])
            elif not self._var(case).get("omit_defaults", True):
                kw["origin"] = (-1, -1)  # the explicit value equal to the default
            pad = Fraction(case["pad"])
            padv = int(pad) if pad.denominator == 1 and self._var(case).get("pad") == "int" else float(pad)
            if not (pad == 0 and self._var(case).get("omit_defaults")):
                kw["pad_value"] = padv
            out = array_2d_util.resized_array_2d_from(
                array_2d=src, resized_shape=self._shp(case, case["shape"]), **kw)
            if tuple(out.shape) != tuple(case["shape"]):
                return {"err": "wrong_shape", "msg": str(out.shape)}
            return qlist(out.ravel())
        if kind == "util_extract":
            src = self._vals(case, "src", case["h"], case["w"], need_ndarray=True)
            y0, y1, x0, x1 = case["win"]
            if self._var(case).get("shp") == "npint":
                y0, y1, x0, x1 = (np.int64(v) for v in (y0, y1, x0, x1))
            out = array_2d_util.extracted_array_2d_from(array_2d=src, y0=y0, y1=y1, x0=x0, x1=x1)
            return {"shape": [int(out.shape[0]), int(out.shape[1])], "values": qlist(out.ravel())}
        if kind == "mask_chain":
            mask = self._mask2d(aa, case)
            obs = {"init": self._mask_obs(mask), "steps": []}
            for s in case["steps"]:
                if s["mask_pad"] == 0 and self._var(case).get("omit_defaults"):
                    mask = mask.resized_from(new_shape=self._shp(case, s["shape"]))
                else:
                    mask = mask.resized_from(new_shape=self._shp(case, s["shape"]),
                                             pad_value=self._padv(case, s["mask_pad"]))
                o = self._mask_obs(mask)
                g = np.asarray(aa.Grid2D.from_mask(mask=mask).array).reshape(-1, 2)
                o["grid"] = [qlist(p) for p in g]
                obs["steps"].append(o)
            return obs
        if kind == "array_chain":
            mask = self._mask2d(aa, case)
            h, w = case["mask"]["h"], case["mask"]["w"]
            arr = self._make_array(aa, case, mask, "native", h, w, store_native=case["store_native"])
            obs = {"init": self._arr_obs(aa, arr), "steps": []}
            omit = self._var(case).get("omit_defaults")
            for s in case["steps"]:
                kwp = {} if (s.get("mask_pad", 0) == 0 and omit) else \
                    {"mask_pad_value": self._padv(case, s.get("mask_pad", 0))}
                if s["k"] == "resize":
                    arr = arr.resized_from(new_shape=self._shp(case, s["shape"]), **kwp)
                elif s["k"] == "pad":
                    arr = arr.padded_before_convolution_from(kernel_shape=self._shp(case, s["kernel"]), **kwp)
                else:
                    arr = arr.trimmed_after_convolution_from(kernel_shape=self._shp(case, s["kernel"]))
                obs["steps"].append(self._arr_obs(aa, arr))
            return obs
        if kind == "mask_trim":
            sc, og = self._geom(case)
            ih, iw = case["image_shape"]
            if "padded_shape" in case:
                hp, wp = case["padded_shape"]
            else:
                hp, wp = ih + case["kernel"][0] - 1, iw + case["kernel"][1] - 1
            pm = aa.Mask2D.all_false(shape_native=(hp, wp), pixel_scales=self._scales_arg(case, sc), origin=og)
            pa = aa.Array2D.no_mask(values=self._vals(case, "padded", hp, wp),
                                    pixel_scales=self._scales_arg(case, sc), origin=og)
            out = pm.trimmed_array_from(padded_array=pa, image_shape=self._shp(case, (ih, iw)))
            return {"shape": [int(v) for v in out.shape_native],
                    "native": qlist(np.asarray(out.native.array).ravel()),
                    "scales": qlist(out.mask.pixel_scales), "origin": qlist(out.mask.origin),
                    "all_unmasked": bool(not np.asarray(out.mask).any())}
        if kind == "apply_mask":
            sc, og = self._geom(case)
            mask = self._mask2d(aa, case)
            h, w = case["mask"]["h"], case["mask"]["w"]
            kh, kw = case["kernel"]
            psf = self._psf(aa, case, kh, kw, sc)
            if self._var(case).get("ctor") == "direct":
                # the same functionality without apply_mask: Imaging(...) of already-masked arrays with
                # pad_for_convolver=True performs the automatic padding itself
                data = aa.Array2D(values=self._vals(case, "data", h, w), mask=mask)
                noise = aa.Array2D(values=self._vals(case, "noise", h, w), mask=mask)
                ds = aa.Imaging(data=data, noise_map=noise, psf=psf, pad_for_convolver=True)
            else:
                data, noise = self._unmasked_pair(aa, case, h, w, sc, og)
                ds = aa.Imaging(data=data, noise_map=noise, psf=psf).apply_mask(mask=mask)
            return self._ds_obs(aa, ds, h, w)
        if kind == "apply_mask_chain":
            sc, og = self._geom(case)
            h, w = case["h"], case["w"]
            data, noise = self._unmasked_pair(aa, case, h, w, sc, og)
            kh, kw = case["kernel"]
            psf = self._psf(aa, case, kh, kw, sc)
            ds = aa.Imaging(data=data, noise_map=noise, psf=psf)
            steps = []
            for mj in case["masks"]:
                mask = aa.Mask2D(mask=self._mask_arg(case, _bits(mj)), pixel_scales=self._scales_arg(case, sc),
                                 origin=og)
                ds = ds.apply_mask(mask=mask)
                steps.append(self._ds_obs(aa, ds, h, w))
            return steps
        if kind == "zoom":
            mask = self._mask2d(aa, case)
            h, w = case["mask"]["h"], case["mask"]["w"]
            arr = self._make_array(aa, case, mask, "native", h, w)
            region = [int(v) for v in mask.zoom_region]
            if case["buffer"] == 1 and self._var(case).get("omit_defaults"):
                z = arr.zoomed_around_mask()
            elif self._var(case).get("shp") == "npint":
                z = arr.zoomed_around_mask(buffer=np.int64(case["buffer"]))
            else:
                z = arr.zoomed_around_mask(buffer=case["buffer"])
            return {"region": region, "shape": [int(v) for v in z.shape_native],
                    "native": qlist(np.asarray(z.native.array).ravel()),
                    "scales": qlist(z.mask.pixel_scales)}
        raise ValueError(kind)

    # ------------------------------------------------------------------ model
    def model_requests(self, case, impl_obs):
        kind = case["kind"]
        if kind == "util_resize":
            r = {"op": "c14.resized_util", "src": case["src"], "h": case["h"], "w": case["w"],
                 "shape": case["shape"], "pad": case["pad"]}
            if case["origin"] is not None:
                r["origin"] = case["origin"]
            return [r]
        if kind == "util_extract":
            y0, y1, x0, x1 = case["win"]
            return [{"op": "c14.extracted_util", "src": case["src"], "h": case["h"], "w": case["w"],
                     "y0": y0, "y1": y1, "x0": x0, "x1": x1}]
        geom = {"scales": case.get("scales"), "origin": case.get("origin")}
        if kind == "mask_chain":
            steps = [{"shape": s["shape"], "pad": str(s["mask_pad"])} for s in case["steps"]]
            reqs = [{"op": "c14.mask_chain", "mask": case["mask"], **geom, "steps": steps}]
            # coordinates of the unmasked pixels of every intermediate mask, from the model's own masks:
            # a second pass is not possible in one batch, so ask for the grid of the *implementation's*
            # mask (equal to the model's whenever the first comparison passes)
            if isinstance(impl_obs, dict) and "steps" in impl_obs:
                for o in impl_obs["steps"]:
                    reqs.append({"op": "c14.grid", "mask": o["mask"], **geom})
            return reqs
        if kind == "array_chain":
            steps = []
            for s in case["steps"]:
                s2 = dict(s)
                if "mask_pad" in s2:
                    s2["mask_pad"] = str(s2["mask_pad"])
                steps.append(s2)
            return [{"op": "c14.array_chain", "mask": case["mask"], **geom, "native": case["native"],
                     "store_native": case["store_native"], "steps": steps}]
        if kind == "mask_trim":
            ih, iw = case["image_shape"]
            if "padded_shape" in case:
                hp, wp = case["padded_shape"]
            else:
                hp, wp = ih + case["kernel"][0] - 1, iw + case["kernel"][1] - 1
            return [{"op": "c14.trimmed_array_from", "padded": case["padded"], "padded_shape": [hp, wp],
                     "image_shape": [ih, iw]}]
        if kind == "apply_mask":
            return [{"op": "c14.apply_mask", "mask": case["mask"], **geom, "data": case["data"],
                     "noise": case["noise"], "kernel": case["kernel"]}]
        if kind == "apply_mask_chain":
            return [{"op": "c14.apply_mask_chain", "h": case["h"], "w": case["w"], "masks": case["masks"],
                     **geom, "data": case["data"], "noise": case["noise"], "kernel": case["kernel"]}]
        if kind == "zoom":
            return [{"op": "c14.zoom", "mask": case["mask"], **geom, "native": case["native"],
                     "buffer": case["buffer"]}]
        raise ValueError(kind)

    def model_obs(self, case, responses):
        for r in responses:
            if "err" in r:
                return {"err": r["err"]}
        kind = case["kind"]
        if kind == "mask_chain":
            steps = [dict(s) for s in responses[0]["ok"]]
            for s, g in zip(steps, responses[1:]):
                s["grid"] = g["ok"]
            return {"steps": steps}
        if kind == "array_chain":
            return {"steps": responses[0]["ok"]}
        if kind == "mask_trim":
            o = dict(responses[0]["ok"])
            o["scales"], o["origin"], o["all_unmasked"] = case["scales"], case["origin"], True
            return o
        def ds_model(o):
            return {"padded": o["padded"], "data": o["data"], "noise": o["noise"],
                    "grid_uniform": o["data"]["grid"],
                    "ds_mask": {k: o["data"][k] for k in ("mask", "scales", "origin")}}

        if kind == "apply_mask":
            return ds_model(responses[0]["ok"])
        if kind == "apply_mask_chain":
            return [ds_model(o) for o in responses[0]["ok"]]
        return responses[0]["ok"]

    def compare(self, case, impl_obs, model_obs, cmp):
        if isinstance(impl_obs, dict) and "err" in impl_obs and len(impl_obs) <= 2:
            return cmp.diff({"err": impl_obs["err"]}, model_obs)
        if case["kind"] in ("mask_chain", "array_chain"):
            impl_obs = {"steps": impl_obs["steps"]}
        return self._cmp(impl_obs, model_obs, cmp, "$")

    def _cmp(self, a, b, cmp, path):
        """exact everywhere except under keys named grid* (pixel-centre coordinates: 1e-9 relative)."""
        if isinstance(a, dict) and isinstance(b, dict):
            if set(a) != set(b):
                return f"{path}: keys impl={sorted(a)} model={sorted(b)}"
            for k in sorted(a):
                if k.startswith("grid"):
                    old = cmp.rtol
                    cmp.rtol = TOL
                    try:
                        d = cmp.diff(a[k], b[k], f"{path}.{k}")
                    finally:
                        cmp.rtol = old
                else:
                    d = self._cmp(a[k], b[k], cmp, f"{path}.{k}")
                if d:
                    return d
            return None
        if isinstance(a, list) and isinstance(b, list) and a and isinstance(a[0], dict):
            if len(a) != len(b):
                return f"{path}: length impl={len(a)} model={len(b)}"
            for i, (x, y) in enumerate(zip(a, b)):
                d = self._cmp(x, y, cmp, f"{path}[{i}]")
                if d:
                    return d
            return None
        return cmp.diff(a, b, path)

    # ------------------------------------------------------------------ oracle (independent of the model)
    def oracle(self, case, obs):
        if isinstance(obs, dict) and "err" in obs:
            return False, f"implementation raised {obs}"
        return getattr(self, "_oracle_" + case["kind"])(case, obs)

    def _oracle_util_resize(self, case, obs):
        h, w = case["h"], case["w"]
        h2, w2 = case["shape"]
        src = _grid2(case["src"], h, w)
        got = _grid2(obs, h2, w2)
        pad = Fraction(case["pad"])
        if case["origin"] is None:
            tys, txs = _admissible(h, h2), _admissible(w, w2)
            what = "centred crop / centred embedding"
        else:
            oy, ox = case["origin"]
            tys = sorted({oy - h2 // 2, oy - (h2 - 1) // 2})
            txs = sorted({ox - w2 // 2, ox - (w2 - 1) // 2})
            what = "window centred on the given origin pixel"
        for ty in tys:
            for tx in txs:
                if got == _window(src, h, w, h2, w2, ty, tx, pad):
                    return True, ""
        return False, f"resized {h}x{w}->{h2}x{w2} is not the {what} (padded with {pad})"

    def _oracle_util_extract(self, case, obs):
        h, w = case["h"], case["w"]
        y0, y1, x0, x1 = case["win"]
        if obs["shape"] != [y1 - y0, x1 - x0]:
            return False, f"extracted shape {obs['shape']} != window {[y1 - y0, x1 - x0]}"
        src = _grid2(case["src"], h, w)
        got = _grid2(obs["values"], y1 - y0, x1 - x0)
        if got != _window(src, h, w, y1 - y0, x1 - x0, y0, x0, Fraction(0)):
            return False, "extracted window is not array[y0:y1, x0:x1] with zeros outside the frame"
        return True, ""

    # -- one resize/pad/trim step, for masks (values=None) and arrays --------------------------------
    def _check_step(self, case, step, prev, cur, with_values):
        geom = ([Fraction(v) for v in case["scales"]], [Fraction(v) for v in case["origin"]])
        h, w = prev["mask"]["h"], prev["mask"]["w"]
        h2, w2 = cur["mask"]["h"], cur["mask"]["w"]
        k = step["k"]
        if k == "resize":
            want = tuple(step["shape"])
        elif k == "pad":
            want = (h + step["kernel"][0] - 1, w + step["kernel"][1] - 1)
        else:
            want = (h - (step["kernel"][0] - 1), w - (step["kernel"][1] - 1))
        if (h2, w2) != want:
            return f"{k}: shape {(h2, w2)} != {want}"
        for key in ("scales", "origin"):
            if [Fraction(v) for v in cur[key]] != geom[0 if key == "scales" else 1]:
                return f"{k}: {key} changed to {cur[key]} (input {case[key]})"
        pm, cm = _bits(prev["mask"]), _bits(cur["mask"])
        mask_pad = bool(int(step.get("mask_pad", 0)))
        found = None
        for ty in _admissible(h, h2):
            for tx in _admissible(w, w2):
                if cm != _window(pm, h, w, h2, w2, ty, tx, mask_pad):
                    continue
                if with_values:
                    pv = _grid2(prev["native"], h, w)
                    cv = _grid2(cur["native"], h2, w2)
                    exp = _window(pv, h, w, h2, w2, ty, tx, Fraction(0))
                    exp = [[Fraction(0) if cm[r][c] else exp[r][c] for c in range(w2)] for r in range(h2)]
                    if cv != exp:
                        continue
                found = (ty, tx)
                break
            if found:
                break
        if not found:
            return (f"{k} {h}x{w}->{h2}x{w2}: mask{' and values are' if with_values else ' is'} not the "
                    f"centred crop / centred embedding (mask pad {int(mask_pad)}, value pad 0) of the input")
        ty, tx = found
        unm = [(r, c) for r in range(h2) for c in range(w2) if not cm[r][c]]
        if with_values:
            cv = _grid2(cur["native"], h2, w2)
            if [Fraction(v) for v in cur["slim"]] != [cv[r][c] for r, c in unm]:
                return f"{k}: .slim is not the row-major list of unmasked native values"
            if cur["store_native"] != case["store_native"]:
                return f"{k}: store_native flag changed"
        # coordinate attachment when the parity of an axis is preserved
        if len(cur["grid"]) != len(unm):
            return f"{k}: grid has {len(cur['grid'])} points for {len(unm)} unmasked pixels"
        (sy, sx), (oy, ox) = geom
        for (r, c), p in zip(unm, cur["grid"]):
            y, x = r + ty, c + tx
            if not (0 <= y < h and 0 <= x < w):
                continue
            if (h - h2) % 2 == 0 and not _close(p[0], _coord_y(h, oy, sy, y)):
                return (f"{k} {h}x{w}->{h2}x{w2}: pixel {(y, x)}->{(r, c)} moved in y: "
                        f"{float(Fraction(p[0]))} != {float(_coord_y(h, oy, sy, y))}")
            if (w - w2) % 2 == 0 and not _close(p[1], _coord_x(w, ox, sx, x)):
                return (f"{k} {h}x{w}->{h2}x{w2}: pixel {(y, x)}->{(r, c)} moved in x: "
                        f"{float(Fraction(p[1]))} != {float(_coord_x(w, ox, sx, x))}")
        return None

    def _oracle_chain(self, case, obs, with_values):
        prev = obs["init"]
        for step, cur in zip(case["steps"], obs["steps"]):
            step = dict(step)
            step.setdefault("k", "resize")
            bad = self._check_step(case, step, prev, cur, with_values)
            if bad:
                return False, bad
            prev = cur
        if case.get("roundtrip"):
            a, b = obs["init"], obs["steps"][-1]
            for key in a:
                if key.startswith("grid"):
                    continue
                if a[key] != b.get(key):
                    what = "pad then trim" if case["steps"][0]["k"] == "pad" else "enlarge then shrink"
                    return False, f"{what} is not the identity: {key} differs"
            if "grid" in a and "grid" in b:
                if len(a["grid"]) != len(b["grid"]) or not all(
                        _close(p[0], r[0]) and _close(p[1], r[1]) for p, r in zip(a["grid"], b["grid"])):
                    return False, "round trip moved the pixel coordinates"
        return True, ""

    def _oracle_mask_chain(self, case, obs):
        return self._oracle_chain(case, obs, False)

    def _oracle_array_chain(self, case, obs):
        return self._oracle_chain(case, obs, True)

    def _oracle_mask_trim(self, case, obs):
        ih, iw = case["image_shape"]
        if "padded_shape" in case:
            hp, wp = case["padded_shape"]
            if (hp - ih) % 2 or (wp - iw) % 2:
                return True, ""  # odd pad size: no odd kernel produces it; the statement is silent
        else:
            hp, wp = ih + case["kernel"][0] - 1, iw + case["kernel"][1] - 1
        if obs["shape"] != [ih, iw]:
            return False, f"trimmed shape {obs['shape']} != image shape {[ih, iw]}"
        pv = _grid2(case["padded"], hp, wp)
        exp = _window(pv, hp, wp, ih, iw, (hp - ih) // 2, (wp - iw) // 2, Fraction(0))
        if _grid2(obs["native"], ih, iw) != exp:
            return False, "trimmed array is not the centred crop of the padded array"
        if [Fraction(v) for v in obs["scales"]] != [Fraction(v) for v in case["scales"]] or \
                [Fraction(v) for v in obs["origin"]] != [Fraction(v) for v in case["origin"]]:
            return False, "trimmed array lost the pixel scales / origin of the mask"
        return True, ""

    def _oracle_apply_mask(self, case, obs):
        mj = case["mask"]
        h, w = mj["h"], mj["w"]
        m = _bits(mj)
        unm = [(y, x) for y in range(h) for x in range(w) if not m[y][x]]
        data = _grid2(case["data"], h, w)
        noise = _grid2(case["noise"], h, w)
        sy, sx = [Fraction(v) for v in case["scales"]]
        oy, ox = [Fraction(v) for v in case["origin"]]
        if [Fraction(v) for v in obs["data"]["slim"]] != [data[y][x] for y, x in unm]:
            return False, "data values of the unmasked pixels changed by apply_mask" + (
                " (padded)" if obs["padded"] else "")
        if [Fraction(v) for v in obs["noise"]["slim"]] != [noise[y][x] for y, x in unm]:
            return False, "noise values of the unmasked pixels changed by apply_mask" + (
                " (padded)" if obs["padded"] else "")
        for gkey, g in (("grids.uniform", obs["grid_uniform"]), ("Grid2D.from_mask(data.mask)", obs["data"]["grid"]),
                        ("Grid2D.from_mask(noise_map.mask)", obs["noise"]["grid"])):
            if len(g) != len(unm):
                return False, f"{gkey} has {len(g)} points for {len(unm)} unmasked pixels"
            for (y, x), p in zip(unm, g):
                if not (_close(p[0], _coord_y(h, oy, sy, y)) and _close(p[1], _coord_x(w, ox, sx, x))):
                    return False, (f"{gkey}: coordinate of pixel {(y, x)} moved "
                                   f"({[float(Fraction(v)) for v in p]} != "
                                   f"{[float(_coord_y(h, oy, sy, y)), float(_coord_x(w, ox, sx, x))]})"
                                   + (" after automatic padding" if obs["padded"] else ""))
        for o in (obs["data"], obs["noise"], obs["ds_mask"]):
            if o["mask"]["bits"].count("0") != len(unm):
                return False, "number of unmasked pixels changed"
        if obs["ds_mask"]["mask"] != obs["data"]["mask"] or obs["noise"]["mask"] != obs["data"]["mask"]:
            return False, "dataset mask, data mask and noise-map mask differ"
        # the native arrays hold each value at the (possibly shifted) unmasked pixel, in the same order
        for o, src in ((obs["data"], data), (obs["noise"], noise)):
            mh, mw = o["mask"]["h"], o["mask"]["w"]
            cm = _bits(o["mask"])
            nat = _grid2(o["native"], mh, mw)
            got = [nat[r][c] for r in range(mh) for c in range(mw) if not cm[r][c]]
            if got != [src[y][x] for y, x in unm]:
                return False, "native array does not hold the values at the unmasked pixels in order"
        return True, ""

    def _oracle_apply_mask_chain(self, case, obs):
        """after every apply_mask the triples of that mask's unmasked pixels are those of the ORIGINAL
        unmasked dataset (however many masks were applied before)."""
        if len(obs) != len(case["masks"]):
            return False, "missing steps"
        for i, (mj, o) in enumerate(zip(case["masks"], obs)):
            ok, detail = self._oracle_apply_mask({**case, "mask": mj}, o)
            if not ok:
                return False, f"apply_mask #{i + 1} of {len(case['masks'])} (on a dataset already masked {i} time(s)): {detail}"
        return True, ""

    def _oracle_zoom(self, case, obs):
        mj = case["mask"]
        h, w = mj["h"], mj["w"]
        m = _bits(mj)
        vals = _grid2(case["native"], h, w)
        b = case["buffer"]
        y0, y1, x0, x1 = obs["region"]
        # the window is anchored at (y0 - buffer, x0 - buffer) and has the shape of the returned array
        zh, zw = obs["shape"]
        wy0, wx0 = y0 - b, x0 - b
        wy1, wx1 = wy0 + zh, wx0 + zw
        if len(obs["native"]) != zh * zw:
            return False, f"zoomed array has {len(obs['native'])} values for shape {obs['shape']}"
        z = _grid2(obs["native"], zh, zw)
        for y in range(h):
            for x in range(w):
                if m[y][x]:
                    continue
                if not (wy0 <= y < wy1 and wx0 <= x < wx1):
                    return False, f"unmasked pixel {(y, x)} is outside the zoom window {[wy0, wy1, wx0, wx1]}"
                if z[y - wy0][x - wx0] != vals[y][x]:
                    return False, f"unmasked pixel {(y, x)} does not carry its value in the zoomed array"
        return True, ""

    # ------------------------------------------------------------------ misc
    def nontrivial(self, case, obs):
        kind = case["kind"]
        if kind == "util_resize":
            return [case["h"], case["w"]] != case["shape"]
        if kind in ("mask_chain", "array_chain"):
            return any(s.get("k") != "pad" or s["kernel"] != [1, 1] for s in case["steps"])
        if kind in ("zoom", "apply_mask"):
            return "0" in case["mask"]["bits"] and "1" in case["mask"]["bits"]
        if kind == "apply_mask_chain":
            return len({m["bits"] for m in case["masks"]}) > 1
        return True

    def shrink(self, case):
        kind = case["kind"]
        if kind in ("zoom", "apply_mask"):
            mj = case["mask"]
            bits = mj["bits"]
            for i, c in enumerate(bits):
                if c == "0" and bits.count("0") > 1:
                    yield {**case, "mask": {**mj, "bits": bits[:i] + "1" + bits[i + 1:]}}
        if kind == "apply_mask_chain":
            if len(case["masks"]) > 2:
                yield {**case, "masks": case["masks"][1:]}
                yield {**case, "masks": case["masks"][:-1]}
            if case["kernel"] != [1, 1]:
                yield {**case, "kernel": [1, 1]}
            for i, mj in enumerate(case["masks"]):
                bits = mj["bits"]
                for k, c in enumerate(bits):
                    if c == "0" and bits.count("0") > 1:
                        ms = list(case["masks"])
                        ms[i] = {**mj, "bits": bits[:k] + "1" + bits[k + 1:]}
                        yield {**case, "masks": ms}
        if kind in ("array_chain", "mask_chain", "zoom", "apply_mask", "mask_trim", "apply_mask_chain"):
            if case.get("origin") != ["0", "0"]:
                yield {**case, "origin": ["0", "0"]}
            if case.get("scales") != ["1", "1"]:
                yield {**case, "scales": ["1", "1"]}
        if kind in ("array_chain", "mask_chain") and len(case["steps"]) > 1 and not case.get("roundtrip"):
            yield {**case, "steps": case["steps"][:-1]}

    def theorems_for(self, case):
        return {
            "util_resize": ["C14.resized_eq_centred_window", "C14.resized_getElem", "C14.centred_margins",
                            "C14.crop_is_centred", "C14.embed_is_centred"],
            "util_extract": ["C14.extracted_eq_window"],
            "mask_chain": ["C14.mask_resized_getElem", "C14.mask_shrink_enlarge_identity",
                           "C14.coordinate_kept_y", "C14.coordinate_kept_x", "C14.pixel_centre_closed_form",
                           "C14.resize_keeps_value_and_coordinate"],
            "array_chain": ["C14.array_resized_native", "C14.trim_pad_identity", "C14.trimmed_is_centred_crop",
                            "C14.array_shrink_enlarge_identity", "C14.padding_keeps_triples",
                            "C14.resize_keeps_value_and_coordinate"],
            "mask_trim": ["C14.trimmed_array_from_padded"],
            "apply_mask": ["C14.apply_mask_keeps_triples", "C14.auto_padding_iff",
                           "C14.padding_keeps_triples"],
            "apply_mask_chain": ["C14.successive_apply_mask_eq_last", "C14.apply_mask_keeps_triples"],
            "zoom": ["C14.zoom_contains_unmasked", "C14.extracted_eq_window"],
        }.get(case["kind"], ["C14.*"])


CHECK = C14()
