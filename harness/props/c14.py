"""C14 — resize, pad and trim keep data centred and attached to its coordinates; zoom windows contain
every unmasked pixel with its value.

Streams: ordinary small cases (exhaustive shapes + seeded structured cases, every one compared with the Lean
model), reuse HISTORIES on real objects (kind "history", part of every run, every read compared with the model
for a fresh object in that state) and constant-directed LARGE cases (kind "large", only when the anchored source
gained an integer constant; judged by a vectorised statement of the property, no model comparison)."""
from __future__ import annotations

import itertools
from fractions import Fraction

import numpy as np

import gen
from common import PropertyCheck, Skip, load_autoarray, mask_json, q, qlist

TOL = Fraction(1, 10 ** 9)

# pixel scales: dyadic ones keep every coordinate an exact double; 3/4, 3/2, 3 make o/s inexact
SCALES = [Fraction(1, 4), Fraction(1, 2), Fraction(1), Fraction(2), Fraction(3, 4), Fraction(3, 2),
          Fraction(3)]


# --------------------------------------------------------------------------------------------
# helpers shared by run_impl and oracle
# --------------------------------------------------------------------------------------------
def _bits(mj):
    return [[mj["bits"][y * mj["w"] + x] == "1" for x in range(mj["w"])] for y in range(mj["h"])]


def _grid2(vals, h, w):
    return [[Fraction(vals[y * w + x]) for x in range(w)] for y in range(h)]


def _coord_y(h, oy, sy, i):
    return oy + (Fraction(h - 1, 2) - i) * sy


def _coord_x(w, ox, sx, j):
    return ox + (j - Fraction(w - 1, 2)) * sx


def _close(a, b, mag=None):
    """coordinates agree within 1e-9 relative.  `mag` (round 5): the magnitude of the world's coordinates
    (max |origin|, pixel scale x frame side) for cases whose whole world is scaled by 2^k — the tolerance is then
    1e-9 * mag (absolute), so that a world of size 1e-13 is not compared with a tolerance of 1e-9"""
    a, b = Fraction(a), Fraction(b)
    if mag is not None:
        return abs(a - b) <= TOL * mag
    return abs(a - b) <= TOL * max(1, abs(a), abs(b))


def _admissible(n, n2):
    """offsets t (result[r] = src[r + t]) of a centred crop / embedding of n -> n2 along one axis:
    the two margins differ by at most one pixel (equal when the parity is preserved)."""
    d = n - n2
    return sorted({d // 2, -((-d) // 2)})


def _window(prev, h, w, h2, w2, ty, tx, pad):
    out = []
    for r in range(h2):
        row = []
        for c in range(w2):
            y, x = r + ty, c + tx
            row.append(prev[y][x] if 0 <= y < h and 0 <= x < w else pad)
        out.append(row)
    return out


def _geom_case(rng, exact=None):
    if exact is None:
        exact = rng.random() < 0.6
    pool = SCALES[:4] if exact else SCALES
    sy, sx = rng.choice(pool), rng.choice(pool)
    if rng.random() < 0.15:
        oy, ox = Fraction(0), Fraction(0)
    else:
        oy, ox = gen.dyadic(rng, -4, 4, 3), gen.dyadic(rng, -4, 4, 3)
    return {"scales": [q(sy), q(sx)], "origin": [q(oy), q(ox)]}


def _values(rng, n, signed=True):
    vals = gen.distinct_ints(rng, n, signed=signed)
    if rng.random() < 0.3:
        vals = [Fraction(v, 4) for v in vals]
    return vals


# ======================================================================================================
# Round-4 hardening, part 1: LARGE cases (kind "large"), judged by a vectorised statement of the property
#
# A large case is a compact description (shapes, a mask spec, a value formula) — never the arrays themselves.
# `run_impl` builds the inputs, calls the public API, and hands the raw numpy outputs to the `_lj_*`
# functions below, which state the property directly with numpy (exact: all values are small integers or
# quarters, pixel scales / origins dyadic).  Only the verdict and a digest travel in the observation, so
# evidence and replays stay small.  No model comparison (`model_requests` returns []).
# ======================================================================================================
LARGE_CASE_CAP = 2_600_000        # pixel-iterations one large case may cost in pure Python
LARGE_TOTAL_CAP = 70_000_000      # ... and all large cases of one run together (~35 s)


def _lvals(h, w, quarter=False, salt=0):
    """distinct signed values, asymmetric under every flip / transpose: ±(index+1+salt)"""
    idx = np.arange(h * w, dtype=np.int64)
    v = (idx + 1 + salt) * np.where(idx % 3 == 0, -1, 1)
    v = v.astype(float).reshape(h, w)
    return v / 4.0 if quarter else v


def _lmask(spec, h, w):
    """True = masked.  spec: {"t":"none"} | {"t":"all"} | {"t":"band","start":k,"count":n} (row-major indices
    [k, k+n) unmasked) | {"t":"rects","rects":[[y0,y1,x0,x1],...],"holes":[[y,x],...],"extra":[[y,x],...]}"""
    t = spec["t"]
    if t == "none":
        return np.zeros((h, w), dtype=bool)
    if t == "all":
        return np.ones((h, w), dtype=bool)
    if t == "band":
        m = np.ones(h * w, dtype=bool)
        m[spec["start"]:spec["start"] + spec["count"]] = False
        return m.reshape(h, w)
    m = np.ones((h, w), dtype=bool)
    for y0, y1, x0, x1 in spec.get("rects", []):
        m[max(0, y0):max(0, y1), max(0, x0):max(0, x1)] = False
    for y, x in spec.get("holes", []):
        m[y, x] = True
    for y, x in spec.get("extra", []):
        m[y, x] = False
    return m


def _np_window(prev, h2, w2, ty, tx, pad):
    """result[r, c] = prev[r + ty, c + tx] inside the frame of prev, pad outside"""
    h, w = prev.shape
    out = np.full((h2, w2), pad, dtype=prev.dtype)
    r0, r1 = max(0, -ty), min(h2, h - ty)
    c0, c1 = max(0, -tx), min(w2, w - tx)
    if r1 > r0 and c1 > c0:
        out[r0:r1, c0:c1] = prev[r0 + ty:r1 + ty, c0 + tx:c1 + tx]
    return out


def _first_diff(a, b):
    d = np.argwhere(np.asarray(a) != np.asarray(b))
    if len(d) == 0:
        return ""
    i = tuple(int(v) for v in d[0])
    return f" (first difference at {i}: {np.asarray(a)[i].item()!r} vs {np.asarray(b)[i].item()!r}; {len(d)} entries differ)"


def _np_close(a, b):
    a, b = np.asarray(a, dtype=float), np.asarray(b, dtype=float)
    return np.abs(a - b) <= 1e-9 * np.maximum(1.0, np.maximum(np.abs(a), np.abs(b)))


def _lj_raw_resize(src, got, shape, pad, what="resized"):
    """one call of the raw resize: a shifted window copy whose offset is within one pixel of centred on each
    axis (exactly centred when the parity of the axis is kept), padded with `pad`"""
    h, w = src.shape
    h2, w2 = shape
    if tuple(got.shape) != (h2, w2):
        return f"{what}: shape {tuple(got.shape)} != {(h2, w2)}"
    for ty in _admissible(h, h2):
        for tx in _admissible(w, w2):
            if np.array_equal(got, _np_window(src, h2, w2, ty, tx, pad)):
                return None
    exp = _np_window(src, h2, w2, _admissible(h, h2)[0], _admissible(w, w2)[0], pad)
    return (f"{what} {h}x{w}->{h2}x{w2} is not the centred crop / centred embedding (padded with {pad})"
            + _first_diff(got, exp))


def _lj_step(geom, step, prev, cur, with_values, store_native):
    """vectorised twin of C14._check_step; prev / cur: dicts of numpy arrays (mask, native, slim, grid) and
    float tuples (scales, origin)"""
    (sy, sx), (oy, ox) = geom
    pm, cm = prev["mask"], cur["mask"]
    h, w = pm.shape
    h2, w2 = cm.shape
    k = step["k"]
    if k == "resize":
        want = tuple(step["shape"])
    elif k == "pad":
        want = (h + step["kernel"][0] - 1, w + step["kernel"][1] - 1)
    else:
        want = (h - (step["kernel"][0] - 1), w - (step["kernel"][1] - 1))
    if (h2, w2) != want:
        return f"{k}: shape {(h2, w2)} != {want}"
    if tuple(cur["scales"]) != (sy, sx) or tuple(cur["origin"]) != (oy, ox):
        return f"{k}: pixel scales / origin changed to {cur['scales']} / {cur['origin']}"
    mask_pad = bool(int(step.get("mask_pad", 0)))
    found = None
    for ty in _admissible(h, h2):
        for tx in _admissible(w, w2):
            if not np.array_equal(cm, _np_window(pm, h2, w2, ty, tx, mask_pad)):
                continue
            if with_values:
                exp = _np_window(prev["native"], h2, w2, ty, tx, 0.0)
                exp[cm] = 0.0
                if not np.array_equal(cur["native"], exp):
                    continue
            found = (ty, tx)
            break
        if found:
            break
    if not found:
        return (f"{k} {h}x{w}->{h2}x{w2}: mask{' and values are' if with_values else ' is'} not the centred crop "
                f"/ centred embedding (mask pad {int(mask_pad)}, value pad 0) of the input")
    ty, tx = found
    rr, cc = np.nonzero(~cm)
    if with_values:
        if not np.array_equal(cur["slim"], cur["native"][rr, cc]):
            return f"{k}: .slim is not the row-major list of unmasked native values"
        if bool(cur["store_native"]) != bool(store_native):
            return f"{k}: store_native flag changed"
    g = cur["grid"]
    if len(g) != len(rr):
        return f"{k}: grid has {len(g)} points for {len(rr)} unmasked pixels"
    y, x = rr + ty, cc + tx
    inside = (y >= 0) & (y < h) & (x >= 0) & (x < w)
    if (h - h2) % 2 == 0:
        bad = inside & ~_np_close(g[:, 0], oy + ((h - 1) / 2.0 - y) * sy)
        if bad.any():
            i = int(np.nonzero(bad)[0][0])
            return (f"{k} {h}x{w}->{h2}x{w2}: pixel {(int(y[i]), int(x[i]))}->{(int(rr[i]), int(cc[i]))} moved in y: "
                    f"{g[i, 0]} != {oy + ((h - 1) / 2.0 - y[i]) * sy}")
    if (w - w2) % 2 == 0:
        bad = inside & ~_np_close(g[:, 1], ox + (x - (w - 1) / 2.0) * sx)
        if bad.any():
            i = int(np.nonzero(bad)[0][0])
            return (f"{k} {h}x{w}->{h2}x{w2}: pixel {(int(y[i]), int(x[i]))}->{(int(rr[i]), int(cc[i]))} moved in x: "
                    f"{g[i, 1]} != {ox + (x[i] - (w - 1) / 2.0) * sx}")
    return None


def _lj_chain(case, geom, init, steps_obs, with_values):
    prev = init
    for step, cur in zip(case["steps"], steps_obs):
        bad = _lj_step(geom, step, prev, cur, with_values, case.get("store_native", False))
        if bad:
            return bad
        prev = cur
    if case.get("roundtrip"):
        a, b = init, steps_obs[-1]
        what = "pad then trim" if case["steps"][0]["k"] == "pad" else "enlarge then shrink"
        for key in ("mask", "native", "slim"):
            if a.get(key) is None:
                continue
            if a[key].shape != b[key].shape or not np.array_equal(a[key], b[key]):
                return f"{what} is not the identity: {key} differs" + (
                    _first_diff(a[key], b[key]) if a[key].shape == b[key].shape else "")
        if tuple(a["scales"]) != tuple(b["scales"]) or tuple(a["origin"]) != tuple(b["origin"]):
            return f"{what} is not the identity: geometry differs"
        if a["grid"].shape != b["grid"].shape or not _np_close(a["grid"], b["grid"]).all():
            return "round trip moved the pixel coordinates"
    return None


def _lj_zoom(m, vals, buffer, region, z):
    y0, y1, x0, x1 = region
    zh, zw = z.shape
    wy0, wx0 = y0 - buffer, x0 - buffer
    ys, xs = np.nonzero(~m)
    out = (ys < wy0) | (ys >= wy0 + zh) | (xs < wx0) | (xs >= wx0 + zw)
    if out.any():
        i = int(np.nonzero(out)[0][0])
        return (f"unmasked pixel {(int(ys[i]), int(xs[i]))} is outside the zoom window "
                f"{[int(wy0), int(wy0 + zh), int(wx0), int(wx0 + zw)]}")
    bad = z[ys - wy0, xs - wx0] != vals[ys, xs]
    if bad.any():
        i = int(np.nonzero(bad)[0][0])
        return f"unmasked pixel {(int(ys[i]), int(xs[i]))} does not carry its value in the zoomed array"
    return None


def _lj_apply_mask(m, data, noise, geom, o):
    """o: {"padded", "data": arr-dict, "noise": arr-dict, "grid_uniform": N x 2, "ds_mask": bool array}"""
    (sy, sx), (oy, ox) = geom
    h, w = m.shape
    ys, xs = np.nonzero(~m)
    tail = " (padded)" if o["padded"] else ""
    if not np.array_equal(o["data"]["slim"], data[ys, xs]):
        return "data values of the unmasked pixels changed by apply_mask" + tail
    if not np.array_equal(o["noise"]["slim"], noise[ys, xs]):
        return "noise values of the unmasked pixels changed by apply_mask" + tail
    ey, ex = oy + ((h - 1) / 2.0 - ys) * sy, ox + (xs - (w - 1) / 2.0) * sx
    for gkey, g in (("grids.uniform", o["grid_uniform"]), ("Grid2D.from_mask(data.mask)", o["data"]["grid"]),
                    ("Grid2D.from_mask(noise_map.mask)", o["noise"]["grid"])):
        if len(g) != len(ys):
            return f"{gkey} has {len(g)} points for {len(ys)} unmasked pixels"
        bad = ~(_np_close(g[:, 0], ey) & _np_close(g[:, 1], ex))
        if bad.any():
            i = int(np.nonzero(bad)[0][0])
            return (f"{gkey}: coordinate of pixel {(int(ys[i]), int(xs[i]))} moved ({g[i].tolist()} != "
                    f"{[float(ey[i]), float(ex[i])]})" + (" after automatic padding" if o["padded"] else ""))
    for mm in (o["data"]["mask"], o["noise"]["mask"], o["ds_mask"]):
        if int((~mm).sum()) != len(ys):
            return "number of unmasked pixels changed"
    if not (np.array_equal(o["ds_mask"], o["data"]["mask"]) and np.array_equal(o["noise"]["mask"], o["data"]["mask"])):
        return "dataset mask, data mask and noise-map mask differ"
    for oo, src in ((o["data"], data), (o["noise"], noise)):
        if not np.array_equal(oo["native"][~oo["mask"]], src[ys, xs]):
            return "native array does not hold the values at the unmasked pixels in order"
    return None


def _same_parity_below(n, like):
    """largest m <= n with m ≡ like (mod 2), at least 1"""
    m = n if (n - like) % 2 == 0 else n - 1
    return max(m, 1)


def _shapes_for(n, up=False):
    """non-square (H, W) whose pixel count is n or just below (up=False) / n or just above (up=True): near-square,
    an exact factorisation near the square root if one exists, a 3-row strip and its transpose, a 1-row strip
    (exactly n pixels, axis length n) and its transpose"""
    import math

    def other(a):
        return -((-n) // a) if up else max(1, n // a)

    out = []
    a = max(1, math.isqrt(n) - 3)
    out.append((a, other(a)))
    for d in range(math.isqrt(n), max(1, math.isqrt(n) // 2), -1):
        if n % d == 0 and d != n // d:
            out.append((n // d, d))
            break
    out += [(3, other(3)), (other(3), 3), (1, n), (n, 1)]
    seen, res = set(), []
    for s in out:
        if s[0] >= 1 and s[1] >= 1 and s not in seen:
            seen.add(s)
            res.append(s)
    return res


# ======================================================================================================
# Round-4 hardening, part 2: REUSE HISTORIES on real objects (kind "history")
#
# A history drives one or two small "worlds" (a Mask2D the caller keeps, the caller's values, an Array2D paired
# with that mask, an unmasked Imaging dataset) through typed steps.  `_hist_walk` is pure bookkeeping on the
# INPUT: it tracks what the mask bits / values of every world are after each step and, for every observing
# step, produces the ordinary small case (kind zoom / array_chain / mask_chain / apply_mask / util_resize) a
# FRESH object in that state would be.  Each observation is compared with the model's answer and judged by
# the ordinary oracle for that fresh case, so a stale result is a disagreement + oracle failure.
# ======================================================================================================
class HistInvalid(Exception):
    """the history is not well-formed (only raised for shrink candidates)"""


HIST_OBSERVING = ("zoom", "resize", "pad", "trim", "mask_resize", "apply_mask", "util_resize")


def _hist_walk(case):
    """yield (op, world_index, live world state BEFORE the op, fresh sub-case or None) for every op"""
    worlds = []
    for W in case["worlds"]:
        mj = W["mask"]
        worlds.append({"h": mj["h"], "w": mj["w"], "bits": [c == "1" for c in mj["bits"]],
                       "scales": list(W["scales"]), "origin": list(W["origin"]), "native": list(W["native"]),
                       "noise": list(W["noise"]) if W.get("noise") else None,
                       "store_native": bool(W.get("store_native", False)),
                       "arr_built": False, "arr_native": bool(W.get("store_native", False))})
    if case.get("share_mask"):
        a, b = worlds[0], worlds[1]
        if (a["h"], a["w"], a["bits"], a["scales"], a["origin"]) != (b["h"], b["w"], b["bits"], b["scales"], b["origin"]):
            raise HistInvalid("shared mask needs equal masks")
        b["bits"] = a["bits"]
    var = case.get("variant") or {}
    # round 5 (R5-D): configuration histories.  `cfg` = general.structures.native_binned_only in force; an
    # Array2D is natively stored when it was asked to be or when it was BUILT while the value was True.
    has_cfg = any(o["op"] == "config" for o in case["ops"])
    cfg = False

    def mj_of(st):
        return {"h": st["h"], "w": st["w"], "bits": "".join("1" if b else "0" for b in st["bits"])}

    def touch(st):   # the world's Array2D is (lazily) built now
        if not st["arr_built"]:
            st["arr_built"] = True
            st["arr_native"] = st["store_native"] or cfg

    for op in case["ops"]:
        wi = op.get("w", 0)
        if not 0 <= wi < len(worlds):
            raise HistInvalid("world")
        st = worlds[wi]
        h, w = st["h"], st["w"]
        k = op["op"]
        if has_cfg and k in ("decoy", "derive", "fault", "edit_data"):
            raise HistInvalid("not combined with configuration flips")
        geom = {"scales": list(st["scales"]), "origin": list(st["origin"]), "variant": var}
        if has_cfg:
            geom["cfg_native"] = cfg
        if k in ("zoom", "resize", "pad", "trim", "edit_values"):
            touch(st)
        sub = None
        if k == "zoom":
            if all(st["bits"]):
                raise HistInvalid("zoom of an all-masked mask")
            sub = {"kind": "zoom", "mask": mj_of(st), **geom, "native": list(st["native"]), "buffer": op["buffer"]}
        elif k in ("resize", "pad", "trim"):
            step = {"k": k}
            if k == "resize":
                step.update(shape=list(op["shape"]), mask_pad=op.get("mask_pad", 0))
            elif k == "pad":
                step.update(kernel=list(op["kernel"]), mask_pad=op.get("mask_pad", 0))
            else:
                if op["kernel"][0] - 1 >= h or op["kernel"][1] - 1 >= w:
                    raise HistInvalid("trim larger than the array")
                step.update(kernel=list(op["kernel"]))
            sub = {"kind": "array_chain", "mask": mj_of(st), **geom, "native": list(st["native"]),
                   "store_native": bool(st["arr_native"] or cfg), "steps": [step], "roundtrip": False}
        elif k == "mask_resize":
            sub = {"kind": "mask_chain", "mask": mj_of(st), **geom, "roundtrip": False,
                   "steps": [{"k": "resize", "shape": list(op["shape"]), "mask_pad": op.get("mask_pad", 0)}]}
        elif k == "apply_mask":
            if st["noise"] is None:
                raise HistInvalid("world without a noise map")
            sub = {"kind": "apply_mask", "mask": mj_of(st), **geom, "data": list(st["native"]),
                   "noise": list(st["noise"]), "kernel": list(case["kernel"])}
        elif k == "util_resize":
            sub = {"kind": "util_resize", "h": h, "w": w, "shape": list(op["shape"]), "src": list(st["native"]),
                   "pad": op.get("pad", "0"), "origin": None, "variant": var}
        yield op, wi, st, sub
        # ---- bookkeeping of the steps that change a world
        if k == "config":
            cfg = bool(op["value"])
        elif k == "rebuild":
            st["arr_built"] = False
        if k == "edit_mask":
            for st2 in worlds:
                if st2["bits"] is st["bits"]:
                    st2["arr_built"] = False
            if "rect" in op:
                y0, y1, x0, x1 = op["rect"]
                cells = [(y, x) for y in range(y0, y1) for x in range(x0, x1)]
            else:
                cells = [tuple(c) for c in op["cells"]]
            for y, x in cells:
                if not (0 <= y < h and 0 <= x < w):
                    raise HistInvalid("cell")
                st["bits"][y * w + x] = bool(op["value"])
        elif k in ("edit_values", "edit_data"):
            for (y, x), v in zip(op["cells"], op["values"]):
                if not (0 <= y < h and 0 <= x < w):
                    raise HistInvalid("cell")
                if k == "edit_values" and st["bits"][y * w + x]:
                    raise HistInvalid("in-place write under the mask")
                st["native"][y * w + x] = v
            if k == "edit_data":
                st["arr_built"] = False
        elif k == "derive" and op.get("what", "mask") == "mask" and case.get("share_mask"):
            raise HistInvalid("derive with a shared mask")


class C14(PropertyCheck):
    pid = "C14"
    title = "resize / pad / trim / zoom"
    nontrivial_rule = (
        "a case is non-trivial when the shape changes on at least one axis (resize/pad/trim), or the "
        "mask has both masked and unmasked pixels (zoom / apply_mask); distinct = distinct "
        "(kind, shapes, mask, values, geometry, steps); a reuse history is non-trivial when it has two worlds or at "
        "least one non-observing step (in-place edit, fault, derive, decoy); constant-directed large cases always"
    )
    exhaustive_note = {
        "quick": "resized_array_2d_from: every (H,W) in 1..5 x 1..5 to every (H',W') in 1..7 x 1..7 "
                 "(all 16 parity combinations); Mask2D/Array2D.resized_from there-and-back: every (H,W) in "
                 "1..4^2 to every (H',W') in 1..6^2 with both mask pad values; pad/trim: every shape in "
                 "1..5^2 with every odd kernel in {1,3,5,7}^2; zoom: every mask of every shape with H*W<=8 "
                 "(successive apply_mask chains are enumerated over shape x kernel x relation x length, masks seeded)",
        "thorough": "resized_array_2d_from: every (H,W) in 1..8^2 to every (H',W') in 1..10^2; "
                    "Mask2D/Array2D.resized_from there-and-back: every (H,W) in 1..6^2 to every (H',W') "
                    "in 1..8^2; pad/trim: every shape in 1..7^2 with every odd kernel in {1,...,9}^2; "
                    "zoom: every mask of every shape with H*W<=12",
    }
    trusted_extra = [
        "numpy basic slicing (trimmed_after_convolution_from, trimmed_array_from), np.where/amin/amax "
        "(zoom_region) and astype('bool') are modelled directly, not as loops; checked by correspondence",
        "IEEE rounding of pixel-centre coordinates: theorems are over an exact ordered field; "
        "coordinates are compared within 1e-9 relative",
    ]
    # loop ties (DESIGN §12): regenerated from the source on every run, tie theorems proved for all sizes
    loop_tie_modules = ["LoopsResize"]
    modelled_functions = [
        "autoarray/structures/arrays/array_2d_util.py:resized_array_2d_from",
        "autoarray/structures/arrays/array_2d_util.py:extracted_array_2d_from",
        "autoarray/structures/arrays/array_2d_util.py:convert_array_2d",
        "autoarray/structures/arrays/uniform_2d.py:AbstractArray2D.resized_from",
        "autoarray/structures/arrays/uniform_2d.py:AbstractArray2D.padded_before_convolution_from",
        "autoarray/structures/arrays/uniform_2d.py:AbstractArray2D.trimmed_after_convolution_from",
        "autoarray/structures/arrays/uniform_2d.py:AbstractArray2D.zoomed_around_mask",
        "autoarray/mask/mask_2d.py:Mask2D.resized_from",
        "autoarray/mask/mask_2d.py:Mask2D.trimmed_array_from",
        "autoarray/mask/mask_2d.py:Mask2D.zoom_region",
        "autoarray/mask/mask_2d_util.py:blurring_mask_2d_from",
        "autoarray/mask/derive/mask_2d.py:DeriveMask2D.blurring_from",
        "autoarray/dataset/imaging/dataset.py:Imaging.__init__",
        "autoarray/dataset/imaging/dataset.py:Imaging.apply_mask",
        "autoarray/dataset/imaging/dataset.py:Imaging.grids",
        "autoarray/mask/abstract_mask.py:Mask.is_all_false",
        "autoarray/mask/abstract_mask.py:Mask.pixels_in_mask",
        "autoarray/dataset/grids.py:GridsDataset.uniform",
        "autoarray/structures/grids/uniform_2d.py:Grid2D.from_mask",
        "autoarray/structures/grids/grid_2d_util.py:grid_2d_slim_via_mask_from",
        "autoarray/geometry/geometry_util.py:central_pixel_coordinates_2d_from",
        "autoarray/geometry/geometry_util.py:central_scaled_coordinate_2d_from",
    ]
    assumptions = [
        "shapes >= 1 on both axes; at least one unmasked pixel for zoom; odd kernel shapes; "
        "trim kernels smaller than the array; noise maps positive",
    ]

    # ------------------------------------------------------------------ generation
    # -- round-3 hardening: the same mathematical case is fed through different dtypes / containers /
    #    spellings of optional arguments / constructors (the exact model and the oracle do not care)
    VALUE_KEYS = ("src", "native", "data", "noise", "padded")

    CONVENTIONAL_SIZES = (4096, 16384, 65536)

    def _conventional_large(self, rng):
        """thorough tier / failing-input search only: a thin slice of the large stream at conventional power-of-two
        frame sizes, so that a size gate written WITHOUT a new literal (`1 << 16`, a module constant, a config
        value) still meets inputs on both sides of the usual thresholds.  First in the stream: the search budget
        is short."""
        quota = {"large_util_resize": 8, "large_array_resize": 4, "large_mask_resize": 2, "large_zoom_unmasked": 2,
                 "large_extract_frame": 2, "large_extract_window": 2, "large_pad_trim": 1, "large_unmasked_count": 1}
        for c in self.CONVENTIONAL_SIZES:
            seen = {}
            for case in self.generate_large([c], rng):
                t = case["tag"]
                if seen.get(t, 0) < quota.get(t, 0):
                    seen[t] = seen.get(t, 0) + 1
                    yield {**case, "tag": t.replace("large_", "large_conv_")}

    def generate(self, tier, rng):
        if tier != "quick" and not self.size_hints:
            yield from self._conventional_large(rng)
        elif tier == "quick":
            yield from self._always_large(rng)
        # round-5/6 hardening (small streams first: they also lead the failing-input search)
        yield from self._decade_cases(tier, rng)
        yield from self._option_cases(tier, rng)
        yield from self._own_cases(tier, rng)
        yield from self._cfg_cases(tier, rng)
        for case in self._generate_base(tier, rng):
            yield self._harden(rng, case)
        # round-4 hardening: reuse histories on real objects (part of every run)
        yield from self._history_cases(tier, rng)

    def _harden(self, rng, case):
        r = rng.random()
        dt = "f8" if r < 0.45 else "i8" if r < 0.63 else "list" if r < 0.80 else "f4" if r < 0.88 else "obj"
        v = {"dt": dt,
             "shp": rng.choice(("tuple", "tuple", "list", "npint")),
             "pad": rng.choice(("int", "float", "bool")),
             "mask_in": rng.choice(("bool", "bool", "list", "int")),
             "scalar_scale": rng.random() < 0.5,
             "omit_defaults": rng.random() < 0.4,
             "ctor": rng.choice(("native", "native", "slim", "no_mask_apply", "direct", "obj_slim", "obj_native"))}
        # round 5 (R5-C): memory layout of value / mask arrays, structures built from structures, spellings of
        # the Mask2D constructor.  Equal values, so the model and the oracle do not care.
        r = rng.random()
        v["lay"] = "C" if r < 0.5 else rng.choice(("F", "neg", "strided", "ro", "F", "strided"))
        r = rng.random()
        v["mlay"] = "C" if r < 0.6 else rng.choice(("F", "neg", "strided", "ro"))
        r = rng.random()
        v["mask_ctor"] = "plain" if r < 0.6 else rng.choice(("from_mask", "from_mask", "invert", "zero_origin"))
        if v["mask_ctor"] == "from_mask" and "origin" in case and isinstance(case["origin"], list) \
                and "scales" in case and rng.random() < 0.5:
            # a Mask2D built from a Mask2D of ANOTHER geometry with the explicit origin exactly (0.0, 0.0)
            case = {**case, "origin": ["0", "0"]}
        if dt in ("i8", "list"):
            for k in self.VALUE_KEYS:
                if k in case and any(Fraction(x).denominator != 1 for x in case[k]):
                    case = {**case, k: qlist([Fraction(x) * 4 for x in case[k]])}
        return {**case, "variant": v}

    @staticmethod
    def _var(case):
        return case.get("variant") or {}

    def _vals(self, case, key, h, w, need_ndarray=False):
        """the value array of the case in the dtype / container the variant asks for."""
        fr = [Fraction(x) for x in case[key]]
        dt = self._var(case).get("dt", "f8")
        lay = self._var(case).get("lay", "C")
        integral = all(f.denominator == 1 for f in fr)
        if dt == "i8" and integral:
            return self._reg(self._layout(np.array([int(f) for f in fr], dtype=np.int64).reshape(h, w), lay))
        if dt == "f4":
            return self._reg(self._layout(np.array([float(f) for f in fr], dtype=np.float32).reshape(h, w), lay))
        if dt == "listf" and not need_ndarray:      # python floats only (decades: no integer overflow)
            flat = [float(f) for f in fr]
            return self._reg([flat[y * w:(y + 1) * w] for y in range(h)])
        if dt == "list" and not need_ndarray:
            flat = [int(f) if integral else float(f) for f in fr]
            return self._reg([flat[y * w:(y + 1) * w] for y in range(h)])
        if dt == "list" and integral:
            return self._reg(self._layout(np.array([int(f) for f in fr], dtype=np.int64).reshape(h, w), lay))
        return self._reg(self._layout(np.array([float(f) for f in fr]).reshape(h, w), lay))

    @staticmethod
    def _layout(a, lay):
        """an array EQUAL to the C-contiguous 2-D array `a` in another memory layout (round 5, R5-C): Fortran
        order, negative strides, a strided window of a larger buffer full of junk, read-only"""
        if lay == "F":
            return np.asfortranarray(a)
        if lay == "neg":
            return np.ascontiguousarray(a[::-1, ::-1])[::-1, ::-1]
        if lay == "strided":
            h, w = a.shape
            big = np.full((2 * h + 1, 3 * w + 2), 77, dtype=a.dtype)
            view = big[1::2, 1::3][:h, :w]
            view[...] = a
            return view
        if lay == "ro":
            a = a.copy()
            a.setflags(write=False)
            return a
        return a

    # -- round 5 (R5-B): while an ownership history runs, every array / structure handed to or returned by the
    #    API is registered here, so that it can be scribbled over afterwards
    _own = None

    def _reg(self, *objs):
        if self._own is not None:
            self._own.extend(objs)
        return objs[0] if objs else None

    def _shp(self, case, pair):
        k = self._var(case).get("shp", "tuple")
        if k == "list":
            return [int(pair[0]), int(pair[1])]
        if k == "npint":
            return (np.int64(pair[0]), np.int64(pair[1]))
        return (int(pair[0]), int(pair[1]))

    def _padv(self, case, b):
        k = self._var(case).get("pad", "int")
        b = int(b)
        return {"int": b, "float": float(b), "bool": bool(b)}[k]

    def _scales_arg(self, case, sc):
        if self._var(case).get("scalar_scale") and sc[0] == sc[1]:
            return float(sc[0])
        return sc

    def _mask_arg(self, case, bits2d):
        k = self._var(case).get("mask_in", "bool")
        lay = self._var(case).get("mlay", "C")
        if k == "list":
            return self._reg([[bool(b) for b in row] for row in bits2d])
        if k == "int":
            return self._reg(self._layout(np.array(bits2d, dtype=np.int64), lay))
        return self._reg(self._layout(np.array(bits2d, dtype=bool), lay))

    def _generate_base(self, tier, rng):
        quick = tier == "quick"
        # 1. raw util, exhaustive shapes (all parity combinations)
        src_max, dst_max = (5, 7) if quick else (8, 10)
        for h, w, h2, w2 in itertools.product(range(1, src_max + 1), range(1, src_max + 1),
                                              range(1, dst_max + 1), range(1, dst_max + 1)):
            pad = Fraction(0) if rng.random() < 0.5 else gen.dyadic(rng, -3, 3, 2)
            yield {"tag": "util_resize_exh", "kind": "util_resize", "h": h, "w": w,
                   "shape": [h2, w2], "src": qlist(_values(rng, h * w)), "pad": q(pad), "origin": None}
        # explicit origins (only the unit tests use this argument)
        for _ in range(40 if quick else 300):
            h, w = rng.randint(1, 7), rng.randint(1, 7)
            yield {"tag": "util_resize_origin", "kind": "util_resize", "h": h, "w": w,
                   "shape": [rng.randint(1, 8), rng.randint(1, 8)], "src": qlist(_values(rng, h * w)),
                   "pad": q(gen.dyadic(rng, -3, 3, 2)),
                   "origin": [rng.randrange(h), rng.randrange(w)]}
        # 2. raw window extraction, incl. windows leaving the frame on every side
        for _ in range(150 if quick else 1500):
            h, w = rng.randint(1, 6), rng.randint(1, 6)
            y0, x0 = rng.randint(-3, h + 1), rng.randint(-3, w + 1)
            y1, x1 = rng.randint(y0, h + 3), rng.randint(x0, w + 3)
            yield {"tag": "util_extract", "kind": "util_extract", "h": h, "w": w,
                   "src": qlist(_values(rng, h * w)), "win": [y0, y1, x0, x1]}
        # 3. Mask2D.resized_from and Array2D.resized_from: there and back again, exhaustive shapes
        s_max, d_max = (4, 6) if quick else (6, 8)
        for h, w, h2, w2, pad in itertools.product(range(1, s_max + 1), range(1, s_max + 1),
                                                   range(1, d_max + 1), range(1, d_max + 1), (0, 1)):
            m, mk = gen.random_mask(rng, h, w)
            steps = [{"k": "resize", "shape": [h2, w2], "mask_pad": pad},
                     {"k": "resize", "shape": [h, w], "mask_pad": rng.choice((0, 1))}]
            base = {"mask": mask_json(m), **_geom_case(rng), "steps": steps,
                    "roundtrip": h2 >= h and w2 >= w}
            yield {"tag": "mask_resize_exh", "kind": "mask_chain", **base}
            yield {"tag": "array_resize_exh", "kind": "array_chain", **base,
                   "native": qlist(_values(rng, h * w)), "store_native": rng.random() < 0.5}
        # 4. pad for an odd kernel then trim for the same kernel: all shapes x all odd kernels
        p_max, kmax = (5, 7) if quick else (7, 9)
        kernels = list(range(1, kmax + 1, 2))
        for h, w, kh, kw in itertools.product(range(1, p_max + 1), range(1, p_max + 1), kernels, kernels):
            m, mk = gen.random_mask(rng, h, w)
            pad = rng.choice((0, 1))
            yield {"tag": "pad_trim_exh", "kind": "array_chain", "mask": mask_json(m),
                   **_geom_case(rng), "native": qlist(_values(rng, h * w)),
                   "store_native": rng.random() < 0.5, "roundtrip": True,
                   "steps": [{"k": "pad", "kernel": [kh, kw], "mask_pad": pad},
                             {"k": "trim", "kernel": [kh, kw]}]}
            yield {"tag": "mask_trimmed_array", "kind": "mask_trim", "image_shape": [h, w],
                   "kernel": [kh, kw], **_geom_case(rng),
                   "padded": qlist(_values(rng, (h + kh - 1) * (w + kw - 1)))}
        # trimmed_array_from with arbitrary (also odd) pad sizes: the model mirrors the code
        for _ in range(60 if quick else 400):
            ih, iw = rng.randint(1, 5), rng.randint(1, 5)
            hp, wp = ih + rng.randint(0, 5), iw + rng.randint(0, 5)
            yield {"tag": "mask_trimmed_array_anypad", "kind": "mask_trim", "image_shape": [ih, iw],
                   "padded_shape": [hp, wp], **_geom_case(rng), "padded": qlist(_values(rng, hp * wp))}
        # 5. longer random chains on larger masks
        for _ in range(120 if quick else 800):
            h, w = rng.randint(2, 8), rng.randint(2, 8)
            m, mk = gen.random_mask(rng, h, w)
            steps, ch, cw = [], h, w
            for _s in range(rng.randint(1, 4)):
                kind = rng.choice(("resize", "pad", "trim"))
                if kind == "resize":
                    ch, cw = rng.randint(1, 10), rng.randint(1, 10)
                    steps.append({"k": "resize", "shape": [ch, cw], "mask_pad": rng.choice((0, 1))})
                elif kind == "pad":
                    kh, kw = rng.choice((1, 3, 5)), rng.choice((1, 3, 5))
                    ch, cw = ch + kh - 1, cw + kw - 1
                    steps.append({"k": "pad", "kernel": [kh, kw], "mask_pad": rng.choice((0, 1))})
                else:
                    ks = [k for k in (1, 3, 5) if k - 1 < ch], [k for k in (1, 3, 5) if k - 1 < cw]
                    kh, kw = rng.choice(ks[0]), rng.choice(ks[1])
                    ch, cw = ch - (kh - 1), cw - (kw - 1)
                    steps.append({"k": "trim", "kernel": [kh, kw]})
            yield {"tag": f"array_chain_random_{mk}", "kind": "array_chain", "mask": mask_json(m),
                   **_geom_case(rng), "native": qlist(_values(rng, h * w)),
                   "store_native": rng.random() < 0.5, "roundtrip": False, "steps": steps}
        # 6. Imaging.apply_mask: masks whose blurring region does / does not leave the frame
        shapes = [(3, 3), (3, 4), (4, 3), (4, 5), (5, 4)] if quick else \
            [(h, w) for h in range(2, 7) for w in range(2, 7)]
        kers = [(1, 1), (1, 3), (3, 1), (3, 3), (3, 5), (5, 3), (5, 5)]
        if not quick:
            kers += [(1, 5), (5, 1), (7, 3), (3, 7), (7, 7)]
        for (h, w), (kh, kw) in itertools.product(shapes, kers):
            for margin in (0, 0, 1):
                m, mk = gen.random_mask(rng, h, w, margin=margin if min(h, w) > 2 * margin else 0)
                yield self._apply_mask_case(rng, m, kh, kw, f"apply_mask_{'edge' if margin == 0 else 'inner'}")
        for _ in range(120 if quick else 800):
            h, w = rng.randint(2, 9), rng.randint(2, 9)
            kh, kw = rng.choice((1, 3, 5, 7)), rng.choice((1, 3, 5, 7))
            margin = rng.choice((0, 0, 1, 2))
            m, mk = gen.random_mask(rng, h, w, margin=margin if min(h, w) > 2 * margin else 0)
            yield self._apply_mask_case(rng, m, kh, kw, f"apply_mask_random_{mk}")
        # degenerate frames (1x1, 1xN, Nx1) and masks with zero / one unmasked pixel
        for (h, w), (kh, kw) in itertools.product([(1, 1), (1, 3), (3, 1), (1, 4), (2, 1), (2, 2)],
                                                  [(1, 1), (3, 3), (1, 3), (3, 1), (5, 3)]):
            yield self._apply_mask_case(rng, gen.full(h, w, False), kh, kw, "apply_mask_degenerate_all_unmasked")
            yield self._apply_mask_case(rng, gen.full(h, w, True), kh, kw, "apply_mask_degenerate_all_masked")
            yield self._apply_mask_case(rng, gen.random_mask(rng, h, w, kind="single")[0], kh, kw,
                                        "apply_mask_degenerate_single")
        for _ in range(30 if quick else 200):
            h, w = rng.randint(1, 5), rng.randint(1, 5)
            yield {"tag": "array_chain_all_masked", "kind": "array_chain", "mask": mask_json(gen.full(h, w, True)),
                   **_geom_case(rng), "native": qlist(_values(rng, h * w)), "store_native": rng.random() < 0.5,
                   "roundtrip": True,
                   "steps": [{"k": "resize", "shape": [h + rng.randint(0, 3), w + rng.randint(0, 3)],
                              "mask_pad": rng.choice((0, 1))},
                             {"k": "resize", "shape": [h, w], "mask_pad": 0}]}
        # 6b. successive apply_mask calls: every later mask is applied to the retained unmasked dataset
        rel_kinds = ("superset", "subset", "disjoint", "shifted", "random", "all_false_first")
        chain_shapes = [(3, 3), (3, 4), (4, 5)] if quick else [(3, 3), (3, 4), (4, 3), (4, 5), (5, 4), (5, 6)]
        chain_kers = [(1, 1), (3, 3), (1, 3), (3, 5)] if quick else [(1, 1), (3, 3), (1, 3), (3, 1), (3, 5), (5, 3), (5, 5)]
        for (h, w), (kh, kw), rel, nsteps in itertools.product(chain_shapes, chain_kers, rel_kinds, (2, 3)):
            margin = rng.choice((0, 0, 1))
            yield self._apply_mask_chain_case(rng, h, w, kh, kw, rel, nsteps,
                                              margin if min(h, w) > 2 * margin else 0)
        for _ in range(80 if quick else 800):
            h, w = rng.randint(2, 8), rng.randint(2, 8)
            kh, kw = rng.choice((1, 3, 5)), rng.choice((1, 3, 5))
            margin = rng.choice((0, 0, 1, 2))
            yield self._apply_mask_chain_case(rng, h, w, kh, kw, rng.choice(rel_kinds), rng.choice((2, 3, 4)),
                                              margin if min(h, w) > 2 * margin else 0)
        # 7. zoom: exhaustive small masks (all shapes, square or not), then larger non-square ones
        cells = 8 if quick else 12
        for (h, w) in gen.shapes_upto(cells):
            masks = list(gen.all_masks(h, w))
            if len(masks) > 700:
                off = rng.randrange(5)
                masks = masks[off::5]
            for m in masks:
                yield self._zoom_case(rng, m, rng.choice((0, 1, 1, 2)), "zoom_exh")
        for _ in range(250 if quick else 2000):
            h, w = rng.randint(1, 9), rng.randint(1, 11)
            m, mk = gen.random_mask(rng, h, w)
            yield self._zoom_case(rng, m, rng.choice((0, 1, 1, 2, 3)), f"zoom_random_{mk}")

    # ------------------------------------------------------------------ round 4: history generation
    P20 = Fraction(1, 2 ** 20)      # relative twin perturbation: inside np.allclose's rtol, far outside 1e-9
    P33 = Fraction(1, 2 ** 33)      # ~1.2e-10: "tiny value" scale, below np.allclose's atol

    def _world(self, rng, h, w, m=None, exact=None, store_native=None):
        if m is None:
            m = gen.random_mask(rng, h, w)[0]
            if all(b for row in m for b in row):
                m[rng.randrange(h)][rng.randrange(w)] = False
        return {"mask": mask_json(m), **_geom_case(rng, exact=exact), "native": qlist(_values(rng, h * w)),
                "noise": qlist([abs(v) for v in _values(rng, h * w, signed=False)]),
                "store_native": (rng.random() < 0.4) if store_native is None else store_native}

    @staticmethod
    def _bits2(W):
        return _bits(W["mask"])

    def _rand_read(self, rng, h, w, bits, kinds=None):
        """a random observing op that is well-formed for a world of shape (h, w) with the given bits"""
        kinds = list(kinds or ("zoom", "zoom", "resize", "resize", "pad", "trim", "mask_resize", "apply_mask",
                               "util_resize"))
        if all(b for row in bits for b in row):
            kinds = [k for k in kinds if k != "zoom"] or ["resize"]
        k = rng.choice(kinds)
        if k == "trim":
            ks = [x for x in (1, 3, 5) if x - 1 < h], [x for x in (1, 3, 5) if x - 1 < w]
            if ks[0] == [1] and ks[1] == [1]:
                k = "pad"
            else:
                return {"op": "trim", "kernel": [rng.choice(ks[0]), rng.choice(ks[1])]}
        if k == "zoom":
            return {"op": "zoom", "buffer": rng.choice((0, 1, 1, 2))}
        if k == "resize":
            return {"op": "resize", "shape": [rng.randint(1, h + 3), rng.randint(1, w + 3)],
                    "mask_pad": rng.choice((0, 1))}
        if k == "pad":
            return {"op": "pad", "kernel": [rng.choice((1, 3, 5)), rng.choice((1, 3, 5))], "mask_pad": rng.choice((0, 1))}
        if k == "mask_resize":
            return {"op": "mask_resize", "shape": [rng.randint(1, h + 3), rng.randint(1, w + 3)],
                    "mask_pad": rng.choice((0, 1))}
        if k == "util_resize":
            return {"op": "util_resize", "shape": [rng.randint(1, h + 3), rng.randint(1, w + 3)],
                    "pad": q(gen.dyadic(rng, -3, 3, 2))}
        return {"op": "apply_mask"}

    def _rand_mask_edit(self, rng, h, w, bits, prefer=None):
        """an in-place mask edit that changes at least one bit (and keeps >= 1 unmasked pixel); updates bits"""
        unm = [(y, x) for y in range(h) for x in range(w) if not bits[y][x]]
        msk = [(y, x) for y in range(h) for x in range(w) if bits[y][x]]
        value = prefer if prefer is not None else rng.choice((0, 0, 1))
        if value == 0 and not msk:
            value = 1
        if value == 1 and len(unm) < 2:
            value = 0
        if value == 0 and not msk:
            return None
        pool = msk if value == 0 else unm
        via = rng.choice(("item", "item", "boolkey", "slice"))
        if via == "slice":
            y, x = rng.choice(pool)
            y1, x1 = min(h, y + rng.randint(1, 2)), min(w, x + rng.randint(1, 2))
            cells = [(a, b) for a in range(y, y1) for b in range(x, x1)]
            if value == 1 and all(bits[a][b] or (a, b) in cells for a in range(h) for b in range(w)):
                cells = [(y, x)]
                y1, x1 = y + 1, x + 1
            op = {"op": "edit_mask", "rect": [y, y1, x, x1], "value": value, "via": "slice"}
        else:
            kmax = len(pool) if value == 0 else len(pool) - 1
            cells = rng.sample(pool, rng.randint(1, max(1, min(3, kmax))))
            op = {"op": "edit_mask", "cells": [list(c) for c in cells], "value": value, "via": via}
        for a, b in cells:
            bits[a][b] = bool(value)
        return op

    def _rand_value_edit(self, rng, h, w, bits, which="edit_values"):
        pool = [(y, x) for y in range(h) for x in range(w) if which == "edit_data" or not bits[y][x]]
        if not pool:
            return None
        cells = rng.sample(pool, rng.randint(1, min(3, len(pool))))
        vals = [Fraction(rng.randint(100, 999) * rng.choice((-1, 1)), rng.choice((1, 1, 4))) for _ in cells]
        if which == "edit_data":
            vals = [abs(v) for v in vals]
        return {"op": which, "cells": [list(c) for c in cells], "values": qlist(vals)}

    FAULTS = ("zoom_bad_buffer", "resize_short_shape", "resize_negative", "resize_float", "pad_short_kernel",
              "mask_resize_short", "ctor_wrong_length", "util_1d", "apply_mask_wrong_shape")
    MASK_DERIVE = ("copy", "deepcopy", "slice", "with_new_array", "ctor")
    ARR_DERIVE = ("copy", "deepcopy", "add0", "mul1", "negneg", "with_new_array")

    def _history_cases(self, tier, rng):
        quick = tier == "quick"
        kernels = [(1, 1), (3, 3), (1, 3), (3, 5), (5, 3)]

        def case(tag, worlds, ops, **extra):
            kh, kw = extra.pop("kernel", None) or rng.choice(kernels)
            return {"tag": tag, "kind": "history", "worlds": worlds, "kernel": [kh, kw], "ops": ops, **extra}

        # (i-a) enumerated: a read, an in-place edit that unmasks a pixel far outside the old bounding square,
        #       the same read, the edit undone, the same read — every corner, every buffer, every write route
        vias = itertools.cycle(("item", "boolkey", "slice"))
        for (h, w) in ((7, 9), (6, 5), (9, 6)):
            cy, cx = h // 2, w // 2
            for corner in ((0, 0), (0, w - 1), (h - 1, 0), (h - 1, w - 1)):
                for buf in (0, 1, 2):
                    m = gen.full(h, w, True)
                    m[cy][cx] = False
                    if (corner[0] + corner[1] + buf) % 2:
                        m[cy][cx - 1] = False
                    via = next(vias)
                    y, x = corner
                    ed = {"op": "edit_mask", "value": 0, "via": via}
                    ed.update({"rect": [y, y + 1, x, x + 1]} if via == "slice" else {"cells": [[y, x]]})
                    ops = [{"op": "zoom", "buffer": buf}, ed, {"op": "zoom", "buffer": buf},
                           {"op": "edit_mask", "cells": [[y, x]], "value": 1, "via": "item"},
                           {"op": "zoom", "buffer": buf}]
                    if buf == 1:
                        ops.insert(0, {"op": "decoy"})
                    yield case("hist_zoom_edit_enum", [self._world(rng, h, w, m=m)], ops)
        # (i-b) every observing API: read -> in-place edit (mask or values) -> the SAME read -> ...
        for _ in range(140 if quick else 1400):
            h, w = rng.randint(2, 7), rng.randint(2, 8)
            W = self._world(rng, h, w)
            bits = self._bits2(W)
            focus = self._rand_read(rng, h, w, bits, kinds=("zoom", "zoom", "resize", "pad", "mask_resize",
                                                            "apply_mask", "trim"))
            ops = []
            if rng.random() < 0.3:
                ops.append({"op": "decoy"})
            ops.append(dict(focus))
            for _e in range(rng.randint(1, 3)):
                r = rng.random()
                ed = self._rand_mask_edit(rng, h, w, bits) if r < 0.6 else \
                    self._rand_value_edit(rng, h, w, bits, "edit_values" if r < 0.85 else "edit_data")
                if ed is None:
                    continue
                ops.append(ed)
                if rng.random() < 0.25:
                    ops.append({"op": "decoy"})
                if focus["op"] == "zoom" and all(b for row in bits for b in row):
                    continue
                ops.append(dict(focus))
                if rng.random() < 0.4:
                    ops.append(self._rand_read(rng, h, w, bits))
            yield case("hist_edit_reread", [W], ops)
        # (ii) near-duplicate twins: the same calls on a world and on its copy with ONE ingredient perturbed
        #      by 2^-20 relative (or 2^-33 absolute on tiny values), alternating
        twin_axes = ("scales", "origin", "values", "tiny_values", "noise", "pad", "values_shared_mask")
        for i in range(84 if quick else 840):
            axis = twin_axes[i % len(twin_axes)]
            h, w = rng.randint(2, 6), rng.randint(2, 7)
            A = self._world(rng, h, w, store_native=False)
            B = {**A}
            one = 1 + self.P20
            extra = {}
            if axis == "scales":
                B["scales"] = qlist([Fraction(v) * one for v in A["scales"]])
            elif axis == "origin":
                B["origin"] = qlist([Fraction(v) * one if Fraction(v) != 0 else self.P20 for v in A["origin"]])
            elif axis in ("values", "values_shared_mask"):
                B["native"] = qlist([Fraction(v) * one for v in A["native"]])
                if axis == "values_shared_mask":
                    extra["share_mask"] = True
            elif axis == "tiny_values":
                A["native"] = qlist([Fraction(v) * self.P33 for v in A["native"]])
                B["native"] = qlist([Fraction(v) + self.P33 * rng.choice((-1, 1)) for v in A["native"]])
            elif axis == "noise":
                B["noise"] = qlist([Fraction(v) * one for v in A["noise"]])
            bits = self._bits2(A)
            kinds = {"scales": ("resize", "pad", "mask_resize", "apply_mask", "zoom"),
                     "origin": ("resize", "pad", "mask_resize", "apply_mask"),
                     "noise": ("apply_mask",), "pad": ("util_resize",)}.get(
                axis, ("zoom", "resize", "pad", "trim", "apply_mask", "util_resize"))
            ops = []
            for _r in range(rng.randint(1, 3)):
                rd = self._rand_read(rng, h, w, bits, kinds=kinds)
                rd2 = dict(rd)
                if axis == "pad":
                    rd2["pad"] = q(Fraction(rd["pad"]) + self.P33)
                first = rng.choice((0, 1))
                ops += [{**(rd if first == 0 else rd2), "w": first}, {**(rd2 if first == 0 else rd), "w": 1 - first},
                        {**(rd if first == 0 else rd2), "w": first}]
            yield case(f"hist_twin_{axis}", [A, B], ops, **extra)
        # (iii) fault then reuse: a call that raises in the middle of API X, then an in-place edit, then X again on
        #       the same objects (every fault kind in turn; the all-masked zoom raises inside zoom_region)
        interrupted = {"zoom_bad_buffer": ("zoom",), "zoom": ("zoom",), "resize_short_shape": ("resize",),
                       "resize_negative": ("resize",), "resize_float": ("resize",), "pad_short_kernel": ("pad",),
                       "mask_resize_short": ("mask_resize",), "ctor_wrong_length": ("zoom", "resize", "trim"),
                       "util_1d": ("util_resize",), "apply_mask_wrong_shape": ("apply_mask",)}
        fault_kinds = list(self.FAULTS) + ["zoom"]
        for i in range(120 if quick else 1200):
            what = fault_kinds[i % len(fault_kinds)]
            h, w = rng.randint(2, 6), rng.randint(2, 7)
            W = self._world(rng, h, w)
            if i % 5 == 4 and what != "zoom":
                W["readonly"] = True
            bits = self._bits2(W)
            focus = self._rand_read(rng, h, w, bits, kinds=interrupted[what])
            ops = [dict(focus)] if rng.random() < 0.6 else []
            if what == "zoom":
                # zoom of an all-masked mask raises inside zoom_region; then pixels are unmasked by hand
                ops.append({"op": "edit_mask", "rect": [0, h, 0, w], "value": 1, "via": "slice"})
                ops.append({"op": "fault", "what": "zoom", "buffer": rng.choice((0, 1, 2))})
                bits = [[True] * w for _ in range(h)]
                ops.append(self._rand_mask_edit(rng, h, w, bits, prefer=0))
                ops.append({"op": "zoom", "buffer": rng.choice((0, 1, 2))})
                yield case("hist_fault_reuse", [W], ops)
                continue
            for _f in range(rng.randint(1, 2)):
                ops.append({"op": "fault", "what": what})
                if rng.random() < 0.3:
                    ops.append(self._rand_read(rng, h, w, bits, kinds=("resize", "mask_resize", "util_resize", "pad")))
                if not W.get("readonly"):
                    ed = self._rand_mask_edit(rng, h, w, bits) if rng.random() < 0.7 else \
                        self._rand_value_edit(rng, h, w, bits)
                    if ed:
                        ops.append(ed)
                if focus["op"] == "zoom" and all(b for row in bits for b in row):
                    break
                if focus["op"] == "trim":
                    focus = self._rand_read(rng, h, w, bits, kinds=("trim",))
                ops.append(dict(focus))
                if rng.random() < 0.4:
                    ops.append(self._rand_read(rng, h, w, bits))
            yield case("hist_fault_reuse", [W], ops)
        # (iv) two different worlds, ONE psf / over-sampling configuration (and optionally one mask object for two
        #      value arrays), the same reads interleaved in both orders
        for i in range(80 if quick else 800):
            shared_mask = i % 4 == 0
            h, w = rng.randint(2, 6), rng.randint(2, 7)
            A = self._world(rng, h, w, store_native=False)
            if shared_mask:
                B = {**A, "native": qlist(_values(rng, h * w)),
                     "noise": qlist([abs(v) for v in _values(rng, h * w, signed=False)])}
                h2, w2 = h, w
            else:
                same_shape = rng.random() < 0.5
                h2, w2 = (h, w) if same_shape else (rng.randint(2, 6), rng.randint(2, 7))
                B = self._world(rng, h2, w2)
            bA, bB = self._bits2(A), self._bits2(B)
            if shared_mask:
                bB = bA
            ops = []
            for _r in range(rng.randint(2, 4)):
                first = rng.choice((0, 1))
                for wi in (first, 1 - first, first):
                    hh, ww, bb = (h, w, bA) if wi == 0 else (h2, w2, bB)
                    if _r == 0 or rng.random() < 0.6:
                        ops.append({**self._rand_read(rng, hh, ww, bb, kinds=("apply_mask", "apply_mask", "zoom",
                                                                               "resize", "pad", "mask_resize")),
                                    "w": wi})
                if rng.random() < 0.5:
                    wi = rng.choice((0, 1))
                    hh, ww, bb = (h, w, bA) if wi == 0 else (h2, w2, bB)
                    ed = self._rand_mask_edit(rng, hh, ww, bb)
                    if ed:
                        ops.append({**ed, "w": wi})
            yield case("hist_shared_" + ("mask" if shared_mask else "config"), [A, B], ops,
                       **({"share_mask": True} if shared_mask else {}))
        # (v) decoy reads of every sibling quantity first; derived objects (copies, slices, arithmetic) edited
        for i in range(100 if quick else 1000):
            h, w = rng.randint(2, 7), rng.randint(2, 8)
            W = self._world(rng, h, w)
            bits = self._bits2(W)
            ops = [{"op": "decoy"}] if i % 2 == 0 else [self._rand_read(rng, h, w, bits)]
            for _r in range(rng.randint(1, 3)):
                r = rng.random()
                if r < 0.45:
                    ops.append({"op": "derive", "what": "mask", "how": rng.choice(self.MASK_DERIVE)})
                elif r < 0.75:
                    ops.append({"op": "derive", "what": "arr", "how": rng.choice(self.ARR_DERIVE)})
                else:
                    ops.append({"op": "decoy"})
                if rng.random() < 0.7:
                    ed = self._rand_mask_edit(rng, h, w, bits) if rng.random() < 0.6 else \
                        self._rand_value_edit(rng, h, w, bits)
                    if ed:
                        ops.append(ed)
                ops.append(self._rand_read(rng, h, w, bits))
                if rng.random() < 0.5:
                    ops.append(self._rand_read(rng, h, w, bits))
            yield case("hist_decoy_derive", [W], ops)

    # ==================================================================================================
    # Round 5/6 hardening: decades (R5-A/E), ownership histories (R5-B), configuration histories (R5-D),
    # option crossing (R5-F), always-on mid-size cases (R5-E).  Layout / container variants (R5-C) live in
    # `_harden`, `_vals`, `_mask_arg`, `_mask2d_of`, `_make_array`, `_unmasked_pair` and apply to every stream.
    # ==================================================================================================
    def _small_case(self, rng, kind):
        """one seeded ordinary small case of the given kind (dyadic geometry: every coordinate an exact double)"""
        if kind == "util_resize":
            h, w = rng.randint(1, 6), rng.randint(1, 6)
            return {"kind": "util_resize", "h": h, "w": w, "shape": [rng.randint(1, 8), rng.randint(1, 8)],
                    "src": qlist(_values(rng, h * w)), "pad": q(gen.dyadic(rng, -3, 3, 2)),
                    "origin": [rng.randrange(h), rng.randrange(w)] if rng.random() < 0.2 else None}
        if kind == "util_extract":
            h, w = rng.randint(1, 6), rng.randint(1, 6)
            y0, x0 = rng.randint(-2, h), rng.randint(-2, w)
            return {"kind": "util_extract", "h": h, "w": w, "src": qlist(_values(rng, h * w)),
                    "win": [y0, rng.randint(y0, h + 2), x0, rng.randint(x0, w + 2)]}
        if kind in ("mask_chain", "array_chain"):
            h, w = rng.randint(1, 6), rng.randint(1, 6)
            m = gen.random_mask(rng, h, w)[0]
            r = rng.random()
            if r < 0.45 or kind == "mask_chain":
                h2, w2 = h + rng.randint(0, 3), w + rng.randint(0, 3)
                if rng.random() < 0.3:
                    h2, w2 = rng.randint(1, 8), rng.randint(1, 8)
                steps = [{"k": "resize", "shape": [h2, w2], "mask_pad": rng.choice((0, 1))},
                         {"k": "resize", "shape": [h, w], "mask_pad": rng.choice((0, 1))}]
                rt = h2 >= h and w2 >= w
            elif r < 0.8:
                kh, kw = rng.choice((1, 3, 5)), rng.choice((1, 3, 5))
                steps = [{"k": "pad", "kernel": [kh, kw], "mask_pad": rng.choice((0, 1))},
                         {"k": "trim", "kernel": [kh, kw]}]
                rt = True
            else:
                steps = [{"k": "resize", "shape": [rng.randint(1, 8), rng.randint(1, 8)], "mask_pad": rng.choice((0, 1))}]
                rt = False
            base = {"kind": kind, "mask": mask_json(m), **_geom_case(rng, exact=True), "steps": steps, "roundtrip": rt}
            if kind == "array_chain":
                base.update(native=qlist(_values(rng, h * w)), store_native=rng.random() < 0.5)
            return base
        if kind == "mask_trim":
            ih, iw = rng.randint(1, 5), rng.randint(1, 5)
            kh, kw = rng.choice((1, 3, 5)), rng.choice((1, 3, 5))
            return {"kind": "mask_trim", "image_shape": [ih, iw], "kernel": [kh, kw], **_geom_case(rng, exact=True),
                    "padded": qlist(_values(rng, (ih + kh - 1) * (iw + kw - 1)))}
        if kind in ("apply_mask", "apply_mask_chain"):
            h, w = rng.randint(2, 7), rng.randint(2, 7)
            kh, kw = rng.choice((1, 3, 3, 5)), rng.choice((1, 3, 3, 5))
            margin = rng.choice((0, 0, 1))
            margin = margin if min(h, w) > 2 * margin else 0
            if kind == "apply_mask":
                c = self._apply_mask_case(rng, gen.random_mask(rng, h, w, margin=margin)[0], kh, kw, "")
            else:
                c = self._apply_mask_chain_case(rng, h, w, kh, kw, rng.choice(("superset", "subset", "disjoint",
                                                                               "shifted", "random")), 2, margin)
            c.update(_geom_case(rng, exact=True))
            return c
        if kind == "zoom":
            h, w = rng.randint(1, 7), rng.randint(1, 8)
            m = gen.random_mask(rng, h, w)[0]
            if all(b for row in m for b in row):
                m[rng.randrange(h)][rng.randrange(w)] = False
            c = self._zoom_case(rng, m, rng.choice((0, 1, 1, 2)), "")
            c.update(_geom_case(rng, exact=True))
            return c
        raise ValueError(kind)

    DEC_VALUE_KEYS = ("src", "native", "data", "padded")
    DEC_MODES = {   # mode -> kinds that have the ingredient
        "world": ("array_chain", "mask_chain", "apply_mask", "apply_mask_chain", "zoom", "mask_trim"),
        "values": ("util_resize", "util_extract", "array_chain", "apply_mask", "zoom", "mask_trim", "apply_mask_chain"),
        "noise": ("apply_mask", "apply_mask_chain"),
        "scales": ("array_chain", "mask_chain", "apply_mask", "apply_mask_chain"),
        "origin_far": ("array_chain", "mask_chain", "apply_mask", "apply_mask_chain", "mask_trim"),
        "origin_tiny": ("array_chain", "mask_chain", "apply_mask", "apply_mask_chain"),
        "pixelwise": ("util_resize", "util_extract", "array_chain", "apply_mask", "zoom", "mask_trim"),
        "near_uniform_values": ("util_resize", "array_chain", "apply_mask", "zoom", "apply_mask_chain", "util_extract"),
        "near_uniform_noise": ("apply_mask", "apply_mask_chain"),
        "near_equal_scales": ("array_chain", "mask_chain", "apply_mask", "apply_mask_chain"),
        "near_zero_values": ("util_resize", "array_chain", "apply_mask", "zoom", "mask_trim", "util_extract"),
        "pad": ("util_resize",),
        "mantissa": ("util_resize", "util_extract", "array_chain", "apply_mask", "zoom", "mask_trim", "apply_mask_chain"),
        "extreme_values": ("util_resize", "util_extract", "array_chain", "apply_mask", "zoom", "mask_trim"),
        "extreme_world": ("array_chain", "mask_chain", "apply_mask", "apply_mask_chain", "zoom"),
    }

    def _decade(self, rng, case, mode):
        """the same small case with the whole world / one ingredient moved to another decade (powers of two: all
        inputs stay exact doubles), or with a nearly-uniform / nearly-equal / nearly-zero ingredient"""
        c = dict(case)
        two = Fraction(2)

        def rep(f):   # the double nearest to f, as an exact Fraction (model and code see the same number)
            return Fraction(float(f))

        def mul(keys, fac):
            for key in keys:
                if key in c and c[key] is not None:
                    c[key] = qlist([rep(Fraction(v) * fac) for v in c[key]])

        def k_of(lo, hi):
            return rng.choice((-1, 1)) * rng.randint(lo, hi)

        vkeys = [k for k in self.DEC_VALUE_KEYS if k in c]
        if mode == "world":
            g = two ** k_of(8, 45)
            mul(("scales", "origin"), g)
            vf = two ** k_of(8, 45)
            mul(vkeys, vf)
            mul(("noise",), two ** k_of(8, 45))
        elif mode == "values":
            mul(vkeys, two ** k_of(8, 45))
        elif mode == "noise":
            mul(("noise",), two ** k_of(8, 45))
        elif mode == "scales":
            mul(("scales",), two ** k_of(8, 40))
        elif mode == "origin_far":
            c["origin"] = qlist([rep(Fraction(v) + rng.choice((-1, 1)) * two ** rng.randint(10, 40)) for v in c["origin"]])
        elif mode == "origin_tiny":
            t = two ** (-rng.randint(20, 40))
            c["origin"] = qlist([rep((Fraction(v) if Fraction(v) != 0 else Fraction(3, 8)) * t) for v in c["origin"]])
        elif mode == "pixelwise":
            for key in vkeys:
                c[key] = qlist([rep(Fraction(v) * two ** k_of(0, 45)) for v in c[key]])
        elif mode in ("near_uniform_values", "near_uniform_noise"):
            keys = vkeys if mode == "near_uniform_values" else ["noise"]
            j = rng.choice((20, 25, 30, 40))
            base = Fraction(rng.randint(1, 31)) * two ** (k_of(0, 40) if rng.random() < 0.7 else 0)
            if mode == "near_uniform_values" and rng.random() < 0.5:
                base = -base
            for key in keys:
                n = len(c[key])
                es = rng.sample(range(0, 2 * n + 3), n)
                if rng.random() < 0.5:
                    es[rng.randrange(n)] = 0
                c[key] = qlist([rep(base * (1 + Fraction(e, 2 ** j))) for e in es])
        elif mode == "near_equal_scales":
            s0 = Fraction(c["scales"][0]) * two ** (k_of(0, 40) if rng.random() < 0.6 else 0)
            s1 = s0 * (1 + Fraction(rng.choice((-1, 1)), 2 ** 20))
            c["scales"] = qlist([rep(s0), rep(s1)] if rng.random() < 0.5 else [rep(s1), rep(s0)])
        elif mode == "near_zero_values":
            for key in vkeys:
                vals = [Fraction(v) for v in c[key]]
                tiny = [i for i in range(len(vals)) if rng.random() < 0.6] or [0]
                if rng.random() < 0.25:
                    tiny = list(range(len(vals)))
                for i in tiny:
                    vals[i] = rep(vals[i] * two ** (-rng.randint(30, 60)))
                c[key] = qlist(vals)
        elif mode == "mantissa":
            # values (and noise) that need > 40 significant bits: a float32 / rounded intermediate loses them
            for key in vkeys + (["noise"] if "noise" in c else []):
                c[key] = qlist([rep(Fraction(v) + Fraction(rng.randint(1, 2 ** 44 - 1), 2 ** 46)) for v in c[key]])
            if "pad" in c:
                c["pad"] = q(rep(Fraction(c["pad"]) + Fraction(rng.randint(1, 2 ** 44 - 1), 2 ** 46)))
        elif mode == "pad":
            p0 = Fraction(c["pad"]) if Fraction(c["pad"]) != 0 else Fraction(3, 4)
            c["pad"] = q(rep(p0 * two ** k_of(20, 60)))
        elif mode == "extreme_values":
            mul(vkeys, two ** k_of(100, 480))
            mul(("noise",), two ** k_of(100, 480))
            if "pad" in c and rng.random() < 0.5:
                c["pad"] = q(rep((Fraction(c["pad"]) or Fraction(1)) * two ** k_of(100, 480)))
        elif mode == "extreme_world":
            mul(("scales", "origin"), two ** k_of(60, 400))
            mul(vkeys, two ** k_of(60, 400))
        else:
            raise ValueError(mode)
        if "scales" in c:
            sy, sx = (abs(Fraction(v)) for v in c["scales"])
            oy, ox = (abs(Fraction(v)) for v in c["origin"])
            c["mag"] = q(max(oy, ox, sy * 16, sx * 16))
        return c

    def _decade_cases(self, tier, rng):
        modes = list(self.DEC_MODES)
        for i in range(280 if tier == "quick" else 2800):
            mode = modes[i % len(modes)]
            kinds = self.DEC_MODES[mode]
            kind = kinds[(i // len(modes)) % len(kinds)]
            case = self._harden(rng, self._small_case(rng, kind))
            v = dict(case["variant"])
            v["dt"] = rng.choice(("f8", "f8", "listf", "obj"))   # no integer / float32 route: magnitudes matter
            case = self._decade(rng, {**case, "variant": v}, mode)
            case["tag"] = f"dec_{mode}"
            yield case

    def _own_cases(self, tier, rng):
        kinds = ("util_resize", "util_extract", "mask_chain", "array_chain", "mask_trim", "apply_mask",
                 "apply_mask_chain", "zoom", "array_chain", "apply_mask", "zoom", "util_resize")
        hows = ("nan", "add", "neg")
        for i in range(132 if tier == "quick" else 1320):
            kind = kinds[i % len(kinds)]
            sub = self._harden(rng, self._small_case(rng, kind))
            sub["tag"] = "own_sub"
            yield {"tag": f"own_{kind}", "kind": "own", "sub": sub, "rounds": 3, "scribble": hows[i % 3]}

    def _cfg_cases(self, tier, rng):
        """configuration histories (R5-D): general.structures.native_binned_only — the only configuration value
        the anchored code reads on these paths — is flipped BETWEEN calls on reused and on rebuilt objects; the
        storage mode of every result follows the value in force when it (or the object it derives from) was built,
        values / masks / coordinates never change"""
        kernels = [(1, 1), (3, 3), (1, 3), (3, 5)]
        for i in range(60 if tier == "quick" else 600):
            h, w = rng.randint(2, 6), rng.randint(2, 7)
            W = self._world(rng, h, w, exact=True)
            bits = self._bits2(W)
            reads = ("resize", "pad", "trim", "zoom", "apply_mask", "resize", "apply_mask")
            focus = self._rand_read(rng, h, w, bits, kinds=reads)
            ops = []
            cfg = False
            if i % 3 == 0:
                cfg = True
                ops.append({"op": "config", "value": True})
            ops.append(dict(focus))
            for _r in range(rng.randint(2, 4)):
                cfg = not cfg if rng.random() < 0.8 else cfg
                ops.append({"op": "config", "value": cfg})
                r = rng.random()
                if r < 0.3:
                    ops.append({"op": "rebuild"})
                elif r < 0.45:
                    ed = self._rand_mask_edit(rng, h, w, bits)
                    if ed:
                        ops.append(ed)
                elif r < 0.55:
                    ed = self._rand_value_edit(rng, h, w, bits)
                    if ed:
                        ops.append(ed)
                if focus["op"] == "zoom" and all(b for row in bits for b in row):
                    focus = self._rand_read(rng, h, w, bits, kinds=("resize", "apply_mask"))
                if focus["op"] == "trim":
                    focus = self._rand_read(rng, h, w, bits, kinds=("trim",))
                ops.append(dict(focus))
                if rng.random() < 0.4:
                    ops.append(self._rand_read(rng, h, w, bits, kinds=reads + ("mask_resize",)))
            kh, kw = rng.choice(kernels)
            yield {"tag": "hist_config", "kind": "history", "worlds": [W], "kernel": [kh, kw], "ops": ops}

    def _option_cases(self, tier, rng):
        """rarely combined options (R5-F): the constructor options of Imaging (read off its signature) crossed
        pairwise — each non-default value of one with each non-default value of another — on masks whose blurring
        region does / does not leave the frame; the dataset-level trim after the automatic padding; zoom and
        resize of natively stored arrays carrying a header"""
        import inspect

        aa = load_autoarray()
        params = inspect.signature(aa.Imaging.__init__).parameters
        table = {k: v for k, v in self.IMAGING_OPTION_VALUES.items() if k in params}
        names = sorted(table)
        combos = [({a: va}) for a in names for va in table[a]]
        combos += [{a: va, b: vb} for a, b in itertools.combinations(names, 2) for va in table[a] for vb in table[b]]
        reps = 2 if tier == "quick" else 12
        for opts in combos:
            for rep_i in range(reps):
                h, w = rng.randint(2, 6), rng.randint(2, 6)
                kh, kw = rng.choice((3, 3, 5)), rng.choice((1, 3, 3, 5))
                margin = 0 if rep_i % 2 == 0 else (1 if min(h, w) > 2 else 0)
                m = gen.random_mask(rng, h, w, margin=margin)[0]
                if all(b for row in m for b in row):
                    m[rng.randrange(h)][rng.randrange(w)] = False
                case = self._harden(rng, self._apply_mask_case(rng, m, kh, kw, "opt_pair" if len(opts) > 1 else "opt_single"))
                o = dict(opts)
                if rng.random() < 0.5:
                    o["ds_trim"] = True
                case["opts"] = o
                yield case
        # two successive apply_mask calls carry the options along (self.psf, self.over_sampling, ...)
        for opts in combos[:: (4 if tier == "quick" else 1)]:
            if opts.get("pad_for_convolver"):
                continue
            h, w = rng.randint(3, 5), rng.randint(3, 5)
            case = self._apply_mask_chain_case(rng, h, w, rng.choice((1, 3)), rng.choice((3, 5)),
                                               rng.choice(("superset", "disjoint", "shifted", "random")), 2, 0)
            case = self._harden(rng, case)
            case.update(tag="opt_chain", opts=dict(opts))
            yield case
        # Array2D options: natively stored arrays and headers through zoom / resize / pad / trim
        for i in range(40 if tier == "quick" else 400):
            kind = ("zoom", "array_chain")[i % 2]
            case = self._harden(rng, self._small_case(rng, kind))
            v = dict(case["variant"])
            v["header"] = i % 4 < 2
            case["variant"] = v
            if kind == "zoom":
                case["store_native"] = i % 3 != 0
            case["tag"] = f"opt_{kind}_{'header' if v['header'] else 'plain'}"
            yield case

    def _always_large(self, rng):
        """quick tier (R5-E): a handful of always-on mid-size cases beyond 2^15 / 2^16 pixels, judged by the
        vectorised statement of the property (the thorough tier has `_conventional_large`)"""
        quota = {32768: {"large_util_resize": 1, "large_zoom_unmasked": 1},
                 65536: {"large_util_resize": 2, "large_array_resize": 1, "large_extract_frame": 1}}
        for c, qt in quota.items():
            seen = {}
            for case in self.generate_large([c], rng):
                t = case["tag"]
                if seen.get(t, 0) < qt.get(t, 0):
                    seen[t] = seen.get(t, 0) + 1
                    yield {**case, "tag": t.replace("large_", "large_always_")}
                if all(seen.get(t, 0) >= n for t, n in qt.items()):
                    break

    # ------------------------------------------------------------------ round 4: constant-directed large cases
    def generate_large(self, hints, rng):
        """sizes on both sides of every new integer constant, in EVERY size dimension C14's code loops over:
        target / source frame pixels (non-square, strips = axis length), unmasked pixels, kernel side and kernel
        pixels, zoom window, extraction window, padded frame, buffer.  Cheapest first; bounded total work."""
        import math

        hints = [c for c in sorted(set(int(c) for c in hints)) if c >= 8]
        if not hints:
            return
        per_hint = LARGE_TOTAL_CAP // len(hints)
        geoms = [{"scales": ["1/2", "1/4"], "origin": ["3/2", "-5/4"]},
                 {"scales": ["2", "1/2"], "origin": ["-1/4", "3"]},
                 {"scales": ["1", "1"], "origin": ["0", "0"]}]

        def src_dim(target, mix, small):
            """a small source length <= target whose parity differs from / equals the target's"""
            want = (target + 1) % 2 if mix else target % 2
            for cand in (small, small - 1):
                if cand % 2 == want and 1 <= cand <= target:
                    return cand
            cand = target if target % 2 == want else target - 1
            return max(1, cand)

        for c in hints:
            pts = [n for n in (c - 1, c, c + 1, c + c // 3 + 1, 2 * c + 1) if n >= 2]
            items = []   # (priority, estimated work, case)

            def add(prio, work, case_):
                # both sides of the constant (c-1, c) of every family before the farther points of any family
                if work <= LARGE_CASE_CAP:
                    items.append((prio if prio == 9 else 2 * prio + (0 if pi <= 1 else 1), work,
                                  {"kind": "large", "hint": c, **case_}))

            for pi, n in enumerate(pts):
                shapes = _shapes_for(n, up=n >= c)
                g = geoms[pi % len(geoms)]
                # A. raw resize there and back: target frame ~ n pixels; y changes parity one way, x the other,
                #    then both parities kept
                for si, (H2, W2) in enumerate(shapes):
                    for mix in (True, False):
                        h, w = src_dim(H2, mix, 41), src_dim(W2, mix, 34)
                        add(0 if si < 2 else 1, 2 * H2 * W2,
                            {"tag": "large_util_resize", "op": "util_rt", "h": h, "w": w, "shape": [H2, W2],
                             "pad": "-3/4", "quarter": mix})
                # ... both frames large: source ~ n, target one / two pixels larger per axis
                H, W = shapes[0]
                add(1, 3 * (H + 2) * (W + 4), {"tag": "large_util_resize_big_src", "op": "util_rt", "h": H, "w": W,
                                               "shape": [H + 1, W + 3], "pad": "5/2"})
                add(2, 3 * (H + 2) * (W + 4), {"tag": "large_util_resize_big_src", "op": "util_rt", "h": H, "w": W,
                                               "shape": [H + 2, W + 4], "pad": "5/2"})
                # ... big source cropped to a small target (single step)
                add(1, H * W // 4 + 2000, {"tag": "large_util_crop", "op": "util_rt", "h": H, "w": W,
                                           "shape": [src_dim(H, True, 40), src_dim(W, False, 33)], "pad": "0"})
                # B. Array2D / Mask2D.resized_from there and back (values, mask with pad 0 / 1, coordinates)
                for si, (H2, W2) in enumerate(shapes[:3]):
                    for mix in (True, False):
                        h, w = src_dim(H2, mix, 37), src_dim(W2, mix, 30)
                        spec = {"t": "rects", "rects": [[h // 4, h // 4 + max(1, h // 2), w // 3, w // 3 + max(1, w // 3)]],
                                "holes": [], "extra": [[0, w - 1], [h - 1, 0]]}
                        steps = [{"k": "resize", "shape": [H2, W2], "mask_pad": (pi + si) % 2},
                                 {"k": "resize", "shape": [h, w], "mask_pad": 0}]
                        add(si, 7 * H2 * W2,
                            {"tag": "large_array_resize", "op": "array_chain", "h": h, "w": w, "maskspec": spec, **g,
                             "store_native": mix, "steps": steps, "roundtrip": True, "quarter": not mix})
                        if si < 2:
                            add(1 if si == 0 else 2, 4 * H2 * W2,
                                {"tag": "large_mask_resize", "op": "mask_chain", "h": h, "w": w, "maskspec": spec, **g,
                                 "steps": steps, "roundtrip": True})
                # ... frame ~ n: pad for an odd kernel then trim; unmasked pixels ~ n (a band of a larger frame)
                add(1 if H >= 3 else 9, 25 * H * W, {"tag": "large_pad_trim", "op": "array_chain", "h": H, "w": W,
                                   "maskspec": {"t": "rects", "rects": [[1, H - 1, 0, W]], "holes": [[H // 2, W // 2]]},
                                   **g, "store_native": False, "roundtrip": True,
                                   "steps": [{"k": "pad", "kernel": [3, 5], "mask_pad": 1}, {"k": "trim", "kernel": [3, 5]}]})
                Hb, Wb = H + 2, W + 1
                if Hb * Wb >= n + 3:
                    add(1, 20 * Hb * Wb, {"tag": "large_unmasked_count", "op": "array_chain", "h": Hb, "w": Wb,
                                         "maskspec": {"t": "band", "start": 2, "count": n}, **g, "store_native": True,
                                         "roundtrip": True,
                                         "steps": [{"k": "resize", "shape": [Hb + 1, Wb + 2], "mask_pad": 1},
                                                   {"k": "resize", "shape": [Hb, Wb], "mask_pad": 0}]})
                roomy = H >= 6 and W >= 10
                # C. zoom: frame ~ n with a small off-centre blob and one far pixel; unmasked ~ n (window ~ frame)
                add(1 if roomy else 9, H * W // 2 + 20000, {"tag": "large_zoom_frame", "op": "zoom", "h": H, "w": W, **g,
                                           "maskspec": {"t": "rects", "rects": [[2, 5, W - 9, W - 4]], "holes": [[3, W - 6]],
                                                        "extra": [[min(H - 1, 40), W - 1]]}, "buffer": 1})
                side = max(Hb, Wb) + 4
                if Hb * Wb >= n + 3:
                    add(1, 8 * side * side, {"tag": "large_zoom_unmasked", "op": "zoom", "h": Hb, "w": Wb, **g,
                                             "maskspec": {"t": "band", "start": 1, "count": n}, "buffer": 2})
                # D. Imaging.apply_mask: frame ~ n; kernel footprint inside the frame / leaving it by one row
                add(1 if roomy else 9, 50 * H * W, {"tag": "large_apply_mask_fits", "op": "apply_mask", "h": H, "w": W, **g,
                                    "kernel": [3, 5], "maskspec": {"t": "rects", "rects": [[1, H - 1, 2, W - 2]],
                                                                   "holes": [[H // 2, W // 3]]}})
                add(1 if roomy else 9, 60 * H * W, {"tag": "large_apply_mask_pads", "op": "apply_mask", "h": H, "w": W, **g,
                                    "kernel": [5, 3], "maskspec": {"t": "rects", "rects": [[1, H, 1, W - 1]],
                                                                   "holes": [[H // 2, W // 3]]}})
                # E. raw extraction: window ~ n leaving a small frame on every side; frame ~ n, window one pixel
                #    larger on every side
                a = max(1, math.isqrt(n) - 2)
                b = max(1, n // a)
                add(1, 2 * a * b, {"tag": "large_extract_window", "op": "util_extract", "h": 9, "w": 7,
                                   "win": [-(a // 2), a - a // 2, -(b // 3), b - b // 3]})
                add(1, 2 * (H + 2) * (W + 2), {"tag": "large_extract_frame", "op": "util_extract", "h": H, "w": W,
                                               "win": [-1, H + 1, -1, W + 1]})
                # F. trimmed_array_from: padded frame ~ n
                add(1, 6 * H * W, {"tag": "large_mask_trim", "op": "mask_trim", "image_shape": [H - 2, W - 4],
                                           "kernel": [3, 5], **g}) if H > 2 and W > 4 else None
                # G. kernel side ~ n (odd), kernel pixels ~ n: only shape arithmetic + the padded frame
                k_odd = n if n % 2 else n + 1
                for kh, kw in ((k_odd, 3), (3, k_odd)):
                    add(1, 9 * (5 + kh) * (4 + kw),
                        {"tag": "large_kernel_side", "op": "array_chain", "h": 5, "w": 4, **g, "store_native": False,
                         "maskspec": {"t": "rects", "rects": [[0, 3, 1, 4]], "holes": []}, "roundtrip": True,
                         "steps": [{"k": "pad", "kernel": [kh, kw], "mask_pad": 1}, {"k": "trim", "kernel": [kh, kw]}]})
                    add(2, 6 * (5 + kh) * (4 + kw),
                        {"tag": "large_kernel_side_trim", "op": "mask_trim", "image_shape": [5, 4], "kernel": [kh, kw], **g})
                ka = max(1, math.isqrt(n)) | 1
                kb = max(1, n // ka) | 1
                add(1, 9 * (6 + ka) * (5 + kb),
                    {"tag": "large_kernel_pixels", "op": "array_chain", "h": 6, "w": 5, **g, "store_native": True,
                     "maskspec": {"t": "rects", "rects": [[1, 4, 0, 5]], "holes": [[2, 2]]}, "roundtrip": True,
                     "steps": [{"k": "pad", "kernel": [ka, kb], "mask_pad": 0}, {"k": "trim", "kernel": [ka, kb]}]})
                add(2, 6 * 30 * ka * kb + 9 * (6 + ka) * (5 + kb),
                    {"tag": "large_kernel_pixels_apply_mask", "op": "apply_mask", "h": 6, "w": 5, **g, "kernel": [ka, kb],
                     "maskspec": {"t": "rects", "rects": [[2, 4, 1, 4]], "holes": []}})
                # H. buffer ~ n (window (s + 2n)^2)
                add(2, 6 * (2 * n + 6) ** 2, {"tag": "large_zoom_buffer", "op": "zoom", "h": 5, "w": 6, **g,
                                             "maskspec": {"t": "rects", "rects": [[1, 3, 2, 5]], "holes": []}, "buffer": n})
            items = [t for t in items if t[0] != 9]   # 9 = frame too small for this family's mask layout
            items.sort(key=lambda t: (t[0], t[1]))
            spent = 0
            for prio, work, case_ in items:
                if spent + work > per_hint:
                    continue
                spent += work
                yield case_

    def _apply_mask_case(self, rng, m, kh, kw, tag):
        h, w = len(m), len(m[0])
        return {"tag": tag, "kind": "apply_mask", "mask": mask_json(m), **_geom_case(rng),
                "data": qlist(_values(rng, h * w)),
                "noise": qlist([abs(v) for v in _values(rng, h * w, signed=False)]),
                "kernel": [kh, kw]}

    @staticmethod
    def _related_mask(rng, a, rel, margin):
        """a mask related to `a` (True = masked): its unmasked set is a superset / subset / disjoint /
        shifted copy of a's, or independent."""
        h, w = len(a), len(a[0])
        cells = [(y, x) for y in range(h) for x in range(w)]
        unm = [(y, x) for y, x in cells if not a[y][x]]
        msk = [(y, x) for y, x in cells if a[y][x]]
        b = [row[:] for row in a]
        if rel == "superset" and msk:
            for y, x in rng.sample(msk, rng.randint(1, min(3, len(msk)))):
                b[y][x] = False
            return b
        if rel == "subset" and len(unm) > 1:
            for y, x in rng.sample(unm, rng.randint(1, len(unm) - 1)):
                b[y][x] = True
            return b
        if rel == "disjoint" and msk:
            b = [[True] * w for _ in range(h)]
            for y, x in rng.sample(msk, rng.randint(1, min(4, len(msk)))):
                b[y][x] = False
            return b
        if rel == "shifted":
            dy, dx = rng.choice(((0, 1), (1, 0), (0, -1), (-1, 0), (1, 1), (-1, 1)))
            b = [[True] * w for _ in range(h)]
            for y, x in unm:
                if 0 <= y + dy < h and 0 <= x + dx < w:
                    b[y + dy][x + dx] = False
            if any(not v for r in b for v in r):
                return b
        return gen.random_mask(rng, h, w, margin=margin)[0]

    def _apply_mask_chain_case(self, rng, h, w, kh, kw, rel, nsteps, margin):
        if rel == "all_false_first":
            masks = [gen.full(h, w, False)]
        else:
            masks = [gen.random_mask(rng, h, w, margin=margin)[0]]
        while len(masks) < nsteps:
            r = rel if rel != "all_false_first" else rng.choice(("random", "subset"))
            if len(masks) >= 2:
                r = rng.choice(("superset", "subset", "disjoint", "shifted", "random"))
            if rng.random() < 0.08:
                masks.append(gen.full(h, w, True))      # zero unmasked pixels: triples are vacuous, no crash
            else:
                prev = masks[-1] if any(not v for row in masks[-1] for v in row) else masks[0]
                masks.append(self._related_mask(rng, prev, r, margin))
        return {"tag": f"apply_mask_chain_{rel}", "kind": "apply_mask_chain", "h": h, "w": w,
                "masks": [mask_json(m) for m in masks], **_geom_case(rng),
                "data": qlist(_values(rng, h * w)),
                "noise": qlist([abs(v) for v in _values(rng, h * w, signed=False)]),
                "kernel": [kh, kw]}

    def _zoom_case(self, rng, m, buffer, tag):
        h, w = len(m), len(m[0])
        return {"tag": tag, "kind": "zoom", "mask": mask_json(m), **_geom_case(rng),
                "native": qlist(_values(rng, h * w)), "buffer": buffer}

    # ------------------------------------------------------------------ implementation
    @staticmethod
    def _geom(case):
        sc = tuple(float(Fraction(v)) for v in case["scales"])
        og = tuple(float(Fraction(v)) for v in case["origin"])
        return sc, og

    def _mask_obs(self, mask):
        self._reg(mask)
        return {"mask": mask_json(np.asarray(mask).astype(bool)),
                "scales": qlist(mask.pixel_scales), "origin": qlist(mask.origin)}

    # round 5 (R5-D): True while general.structures.native_binned_only is switched on by a configuration
    # history.  In that mode `.slim` of every structure IS its native array (documented: "data structures are
    # only stored in their native format"), so the slim observation is read off the native array instead.
    _cfg_native = False

    def _arr_obs(self, aa, arr):
        mask = arr.mask
        gobj = aa.Grid2D.from_mask(mask=mask)
        grid = np.asarray(gobj.array).reshape(-1, 2)
        nobj = arr.native
        nat = np.asarray(nobj.array)
        if self._cfg_native:
            slim = nat[~np.asarray(mask).astype(bool)]
        else:
            sobj = arr.slim
            self._reg(sobj)
            slim = np.asarray(sobj.array).ravel()
        self._reg(arr, gobj, nobj)
        return {**self._mask_obs(mask),
                "native": qlist(nat.ravel()),
                "slim": qlist(slim),
                "store_native": bool(arr.store_native),
                "grid": [qlist(p) for p in grid]}

    def _ds_obs(self, aa, ds, h, w):
        dobs = self._arr_obs(aa, ds.data)
        nobs = self._arr_obs(aa, ds.noise_map)
        gu = ds.grids.uniform
        self._reg(gu, ds.psf)
        return {"padded": tuple(ds.data.shape_native) != (h, w), "data": dobs, "noise": nobs,
                "grid_uniform": [qlist(p) for p in np.asarray(gu.array).reshape(-1, 2)],
                "ds_mask": self._mask_obs(ds.mask)}

    def _mask2d(self, aa, case):
        return self._mask2d_of(aa, case, _bits(case["mask"]))

    def _mask2d_of(self, aa, case, bits2d):
        """Mask2D of the case's geometry holding `bits2d`, through the constructor spelling the variant names
        (round 5, R5-C / R5-F): plain; built from another Mask2D that has a DIFFERENT geometry (the explicit
        pixel scales and origin — also an origin of exactly (0.0, 0.0) — must win); inverted bits with
        invert=True; a zero origin omitted / given as python ints"""
        sc, og = self._geom(case)
        how = self._var(case).get("mask_ctor", "plain")
        arg = self._mask_arg(case, bits2d)
        if how == "from_mask":
            other = aa.Mask2D(mask=arg, pixel_scales=(sc[1] * 3.0, sc[0] * 0.5),
                              origin=(og[0] + 2.5 * sc[0], og[1] - 1.5 * sc[1] - 0.75))
            self._reg(other)
            return self._reg(aa.Mask2D(mask=other, pixel_scales=self._scales_arg(case, sc), origin=og))
        if how == "invert":
            if isinstance(arg, list):
                arg = [[not b for b in row] for row in arg]
            else:
                # (an INTEGER 0/1 array with invert=True is bit-inverted by the constructor — ~1 = -2 is truthy,
                #  everything ends up masked; that combination is outside C14's statement and is not fed)
                arg = self._reg(~arg.astype(bool))
            return self._reg(aa.Mask2D(mask=arg, pixel_scales=self._scales_arg(case, sc), origin=og, invert=True))
        if how == "zero_origin" and og == (0.0, 0.0):
            if self._var(case).get("omit_defaults"):
                return self._reg(aa.Mask2D(mask=arg, pixel_scales=self._scales_arg(case, sc)))
            return self._reg(aa.Mask2D(mask=arg, pixel_scales=self._scales_arg(case, sc), origin=(0, 0)))
        return self._reg(aa.Mask2D(mask=arg, pixel_scales=self._scales_arg(case, sc), origin=og))

    def _make_array(self, aa, case, mask, key, h, w, store_native=False):
        """Array2D on `mask` holding case[key], through the constructor route the variant names."""
        v = self._var(case)
        vals = self._vals(case, key, h, w)
        ctor = v.get("ctor", "native")
        if v.get("dt") == "obj":   # an autoarray structure where an array is accepted
            vals = aa.Array2D.no_mask(values=self._vals({**case, "variant": {}}, key, h, w),
                                      pixel_scales=mask.pixel_scales, origin=mask.origin).native
        kwh = {"header": aa.Header(header_sci_obj={"verif": 1})} if v.get("header") else {}
        if ctor == "slim" and v.get("dt") != "obj":
            m = np.asarray(mask).astype(bool)
            flat = np.asarray(vals, dtype=np.asarray(vals).dtype).reshape(h, w)[~m]
            if v.get("dt") in ("list", "listf"):
                flat = flat.tolist()
            return self._reg(aa.Array2D(values=self._reg(flat), mask=mask, store_native=store_native, **kwh))
        if ctor == "no_mask_apply" and not store_native:
            return self._reg(aa.Array2D.no_mask(values=vals, pixel_scales=mask.pixel_scales,
                                                origin=mask.origin, **kwh).apply_mask(mask=mask))
        if ctor in ("obj_slim", "obj_native") and v.get("dt") != "obj":
            # round 5 (R5-C): an Array2D built from an Array2D that lives on an equal but distinct mask — slim
            # stored, or natively stored — instead of from a plain array
            first = aa.Array2D(values=vals, mask=self._reg(self._mask2d(aa, case)),
                               store_native=(ctor == "obj_native"))
            self._reg(first)
            return self._reg(aa.Array2D(values=first, mask=mask, store_native=store_native, **kwh))
        return self._reg(aa.Array2D(values=vals, mask=mask, store_native=store_native, **kwh))

    def _unmasked_pair(self, aa, case, h, w, sc, og):
        """unmasked data and noise map: Array2D.no_mask, or Array2D(values, mask=Mask2D.all_false(...))"""
        out = []
        for key in ("data", "noise"):
            vals = self._vals(case, key, h, w)
            ctor = self._var(case).get("ctor")
            if ctor in ("slim", "no_mask_apply"):
                m = aa.Mask2D.all_false(shape_native=(h, w), pixel_scales=self._scales_arg(case, sc), origin=og)
                out.append(aa.Array2D(values=vals, mask=self._reg(m)))
            elif ctor == "obj_native":     # round 5: a natively stored unmasked structure
                m = aa.Mask2D.all_false(shape_native=(h, w), pixel_scales=self._scales_arg(case, sc), origin=og)
                out.append(aa.Array2D(values=vals, mask=self._reg(m), store_native=True))
            elif ctor == "obj_slim" and self._var(case).get("dt") in ("f8", "i8", "f4"):
                # round 5: the slim 1-D values with an explicit shape_native
                flat = self._reg(np.ascontiguousarray(np.asarray(vals)).reshape(-1))
                out.append(aa.Array2D.no_mask(values=flat, shape_native=self._shp(case, (h, w)),
                                              pixel_scales=self._scales_arg(case, sc), origin=og))
            else:
                out.append(aa.Array2D.no_mask(values=vals, pixel_scales=self._scales_arg(case, sc), origin=og))
        self._reg(*out)
        return out

    def _psf(self, aa, case, kh, kw, sc):
        dt = self._var(case).get("dt", "f8")
        how = (case.get("opts") or {}).get("psf", "ones")
        if how == "none":
            return None
        if how == "asym":     # not normalised, asymmetric under every flip
            base = np.arange(1, kh * kw + 1).reshape(kh, kw)
            vals = base.astype(np.int64) if dt in ("i8", "list") else base.astype(float) / 4.0
        elif dt in ("i8", "list"):
            vals = np.ones((kh, kw), dtype=np.int64) if dt == "i8" else [[1] * kw for _ in range(kh)]
        else:
            vals = np.ones((kh, kw))
        return self._reg(aa.Kernel2D.no_mask(values=self._reg(vals), pixel_scales=self._scales_arg(case, sc)))

    IMAGING_OPTION_VALUES = {   # non-default, legal values per constructor option (JSON spellings)
        "psf": ["none", "asym"],
        "noise_covariance_matrix": [True],
        "over_sampling": ["obj", "sub2"],
        "pad_for_convolver": [True],
        "use_normalized_psf": [False, None],
        "check_noise_map": [False],
    }

    def _imaging_kwargs(self, aa, case, n_cov, noise_flat):
        """keyword arguments of Imaging(...) for the case's option set (round 5, R5-F)"""
        o = case.get("opts") or {}
        kw = {}
        if o.get("noise_covariance_matrix"):
            kw["noise_covariance_matrix"] = self._reg(np.diag(np.asarray(noise_flat[:n_cov], dtype=float) ** 2))
        if o.get("over_sampling") == "obj":
            kw["over_sampling"] = aa.OverSamplingDataset()
        elif o.get("over_sampling") == "sub2":
            kw["over_sampling"] = aa.OverSamplingDataset(uniform=aa.OverSamplingUniform(sub_size=2),
                                                         pixelization=aa.OverSamplingUniform(sub_size=1))
        if "use_normalized_psf" in o:
            kw["use_normalized_psf"] = o["use_normalized_psf"]
        if "check_noise_map" in o:
            kw["check_noise_map"] = o["check_noise_map"]
        return kw

    def run_impl(self, case):
        aa = load_autoarray()
        from autoarray.structures.arrays import array_2d_util

        kind = case["kind"]
        if kind == "util_resize":
            src = self._vals(case, "src", case["h"], case["w"], need_ndarray=True)
            kw = {}
            if case["origin"] is not None:
                kw["origin"] = tuple(case["origin"])
            elif not self._var(case).get("omit_defaults", True):
                kw["origin"] = (-1, -1)  # the explicit value equal to the default
            pad = Fraction(case["pad"])
            padv = int(pad) if pad.denominator == 1 and self._var(case).get("pad") == "int" else float(pad)
            if not (pad == 0 and self._var(case).get("omit_defaults")):
                kw["pad_value"] = padv
            out = self._reg(array_2d_util.resized_array_2d_from(
                array_2d=src, resized_shape=self._shp(case, case["shape"]), **kw))
            if tuple(out.shape) != tuple(case["shape"]):
                return {"err": "wrong_shape", "msg": str(out.shape)}
            return qlist(out.ravel())
        if kind == "util_extract":
            src = self._vals(case, "src", case["h"], case["w"], need_ndarray=True)
            y0, y1, x0, x1 = case["win"]
            if self._var(case).get("shp") == "npint":
                y0, y1, x0, x1 = (np.int64(v) for v in (y0, y1, x0, x1))
            out = self._reg(array_2d_util.extracted_array_2d_from(array_2d=src, y0=y0, y1=y1, x0=x0, x1=x1))
            return {"shape": [int(out.shape[0]), int(out.shape[1])], "values": qlist(out.ravel())}
        if kind == "mask_chain":
            mask = self._mask2d(aa, case)
            obs = {"init": self._mask_obs(mask), "steps": []}
            for s in case["steps"]:
                mask, o = self._mask_step(aa, case, mask, s)
                obs["steps"].append(o)
            return obs
        if kind == "array_chain":
            mask = self._mask2d(aa, case)
            h, w = case["mask"]["h"], case["mask"]["w"]
            arr = self._make_array(aa, case, mask, "native", h, w, store_native=case["store_native"])
            obs = {"init": self._arr_obs(aa, arr), "steps": []}
            for s in case["steps"]:
                arr = self._array_step(case, arr, s)
                obs["steps"].append(self._arr_obs(aa, arr))
            return obs
        if kind == "mask_trim":
            sc, og = self._geom(case)
            ih, iw = case["image_shape"]
            if "padded_shape" in case:
                hp, wp = case["padded_shape"]
            else:
                hp, wp = ih + case["kernel"][0] - 1, iw + case["kernel"][1] - 1
            pm = aa.Mask2D.all_false(shape_native=(hp, wp), pixel_scales=self._scales_arg(case, sc), origin=og)
            pa = aa.Array2D.no_mask(values=self._vals(case, "padded", hp, wp),
                                    pixel_scales=self._scales_arg(case, sc), origin=og)
            out = pm.trimmed_array_from(padded_array=pa, image_shape=self._shp(case, (ih, iw)))
            self._reg(pm, pa, out, out.mask)
            return {"shape": [int(v) for v in out.shape_native],
                    "native": qlist(np.asarray(out.native.array).ravel()),
                    "scales": qlist(out.mask.pixel_scales), "origin": qlist(out.mask.origin),
                    "all_unmasked": bool(not np.asarray(out.mask).any())}
        if kind == "apply_mask":
            sc, og = self._geom(case)
            mask = self._mask2d(aa, case)
            h, w = case["mask"]["h"], case["mask"]["w"]
            kh, kw = case["kernel"]
            psf = self._psf(aa, case, kh, kw, sc)
            opts = case.get("opts") or {}
            nflat = [float(Fraction(v)) for v in case["noise"]]
            if self._var(case).get("ctor") == "direct" or opts.get("pad_for_convolver"):
                # the same functionality without apply_mask: Imaging(...) of already-masked arrays with
                # pad_for_convolver=True performs the automatic padding itself
                data = self._reg(aa.Array2D(values=self._vals(case, "data", h, w), mask=mask))
                noise = self._reg(aa.Array2D(values=self._vals(case, "noise", h, w), mask=mask))
                unm = [v for v, b in zip(nflat, case["mask"]["bits"]) if b == "0"]
                ds = aa.Imaging(data=data, noise_map=noise, psf=psf, pad_for_convolver=True,
                                **self._imaging_kwargs(aa, case, len(unm), unm))
            else:
                data, noise = self._unmasked_pair(aa, case, h, w, sc, og)
                ds = aa.Imaging(data=data, noise_map=noise, psf=psf,
                                **self._imaging_kwargs(aa, case, h * w, nflat)).apply_mask(mask=mask)
            obs = self._ds_obs(aa, ds, h, w)
            if "ds_trim" in opts:
                # round 5 (R5-F): the dataset-level trim after an automatic padding (grids were read above, so
                # cached quantities of the padded dataset exist): padding then trimming is the identity
                obs["ds_trim"] = None
                if obs["padded"]:
                    obs["ds_trim"] = self._ds_obs(aa, ds.trimmed_after_convolution_from(kernel_shape=(kh, kw)), h, w)
            return obs
        if kind == "apply_mask_chain":
            sc, og = self._geom(case)
            h, w = case["h"], case["w"]
            data, noise = self._unmasked_pair(aa, case, h, w, sc, og)
            kh, kw = case["kernel"]
            psf = self._psf(aa, case, kh, kw, sc)
            ds = aa.Imaging(data=data, noise_map=noise, psf=psf,
                            **self._imaging_kwargs(aa, case, h * w, [float(Fraction(v)) for v in case["noise"]]))
            steps = []
            for mj in case["masks"]:
                mask = self._mask2d_of(aa, case, _bits(mj))
                ds = ds.apply_mask(mask=mask)
                steps.append(self._ds_obs(aa, ds, h, w))
            return steps
        if kind == "zoom":
            mask = self._mask2d(aa, case)
            h, w = case["mask"]["h"], case["mask"]["w"]
            arr = self._make_array(aa, case, mask, "native", h, w, store_native=bool(case.get("store_native", False)))
            return self._zoom_obs(case, mask, arr)
        if kind == "large":
            return self._run_large(aa, case)
        if kind == "history":
            return self._run_history(aa, case)
        if kind == "own":
            return self._run_own(aa, case)
        raise ValueError(kind)

    # ------------------------------------------------------------------ round 5 (R5-B): ownership histories
    @staticmethod
    def _scribble(objs, how, salt):
        """overwrite, in place, every buffer in `objs` (numpy arrays, the arrays inside autoarray structures and
        their masks, python lists): the caller owns what it passed in and what it was handed back"""
        seen = set()

        def bufs(o, depth=0):
            if o is None or id(o) in seen:
                return
            seen.add(id(o))
            if isinstance(o, np.ndarray):
                yield o
            elif isinstance(o, list):
                yield o
            elif depth < 2:
                try:
                    a = getattr(o, "_array", None)
                    m = getattr(o, "mask", None)
                except Exception:
                    return
                if isinstance(a, np.ndarray):
                    yield from bufs(a, depth + 1)
                if m is not None and m is not o:
                    yield from bufs(m, depth + 1)

        def scribble_list(lst):
            for i, v in enumerate(lst):
                if isinstance(v, list):
                    scribble_list(v)
                elif isinstance(v, (bool, np.bool_)):
                    lst[i] = not v
                else:
                    try:
                        lst[i] = v + 7 + salt
                    except Exception:
                        pass

        n = 0
        for o in objs:
            for b in bufs(o):
                if isinstance(b, list):
                    scribble_list(b)
                    n += 1
                    continue
                if not b.flags.writeable or b.size == 0:
                    continue
                try:
                    if b.dtype == bool:
                        b[...] = ~b
                    elif np.issubdtype(b.dtype, np.floating):
                        if how == "nan":
                            b[...] = np.nan
                        elif how == "add":
                            b += 1.0 + salt
                        else:
                            b *= -3.0
                            b -= 0.5
                    elif np.issubdtype(b.dtype, np.integer):
                        b += 7 + salt
                    n += 1
                except (ValueError, TypeError):
                    pass
        return n

    def _run_own(self, aa, case):
        """observe -> scribble over every array the API accepted or returned -> rebuild the same world from fresh
        equal inputs -> observe again (`rounds` times).  Every round is the ordinary case `sub`."""
        rounds = []
        scribbled = 0
        for r in range(int(case.get("rounds", 3))):
            self._own = []
            try:
                rounds.append(self.run_impl(case["sub"]))
            finally:
                log, self._own = self._own, None
            scribbled += self._scribble(log, case.get("scribble", "nan"), r)
        return {"rounds": rounds, "scribbled": scribbled > 0}

    # -- single steps shared by the ordinary kinds and the histories --------------------------------
    def _mask_step(self, aa, case, mask, s):
        if s["mask_pad"] == 0 and self._var(case).get("omit_defaults"):
            mask = mask.resized_from(new_shape=self._shp(case, s["shape"]))
        else:
            mask = mask.resized_from(new_shape=self._shp(case, s["shape"]),
                                     pad_value=self._padv(case, s["mask_pad"]))
        o = self._mask_obs(mask)
        gobj = self._reg(aa.Grid2D.from_mask(mask=mask))
        g = np.asarray(gobj.array).reshape(-1, 2)
        o["grid"] = [qlist(p) for p in g]
        return mask, o

    def _array_step(self, case, arr, s):
        omit = self._var(case).get("omit_defaults")
        kwp = {} if (s.get("mask_pad", 0) == 0 and omit) else \
            {"mask_pad_value": self._padv(case, s.get("mask_pad", 0))}
        if s["k"] == "resize":
            return arr.resized_from(new_shape=self._shp(case, s["shape"]), **kwp)
        if s["k"] == "pad":
            return arr.padded_before_convolution_from(kernel_shape=self._shp(case, s["kernel"]), **kwp)
        return arr.trimmed_after_convolution_from(kernel_shape=self._shp(case, s["kernel"]))

    def _zoom_obs(self, case, mask, arr):
        robj = self._reg(mask.zoom_region)
        region = [int(v) for v in robj]
        if case["buffer"] == 1 and self._var(case).get("omit_defaults"):
            z = arr.zoomed_around_mask()
        elif self._var(case).get("shp") == "npint":
            z = arr.zoomed_around_mask(buffer=np.int64(case["buffer"]))
        else:
            z = arr.zoomed_around_mask(buffer=case["buffer"])
        zn = z.native
        self._reg(z, z.mask, zn, arr, mask)
        return {"region": region, "shape": [int(v) for v in z.shape_native],
                "native": qlist(np.asarray(zn.array).ravel()),
                "scales": qlist(z.mask.pixel_scales)}

    # ------------------------------------------------------------------ large cases (implementation + verdict)
    @staticmethod
    def _lgeom(case):
        sc = tuple(float(Fraction(v)) for v in case.get("scales", ["1", "1"]))
        og = tuple(float(Fraction(v)) for v in case.get("origin", ["0", "0"]))
        return sc, og

    @staticmethod
    def _lsnap_mask(aa, mask):
        return {"mask": np.asarray(mask).astype(bool),
                "scales": tuple(float(v) for v in mask.pixel_scales), "origin": tuple(float(v) for v in mask.origin),
                "grid": np.asarray(aa.Grid2D.from_mask(mask=mask).array, dtype=float).reshape(-1, 2)}

    def _lsnap(self, aa, arr):
        return {**self._lsnap_mask(aa, arr.mask),
                "native": np.asarray(arr.native.array, dtype=float),
                "slim": np.asarray(arr.slim.array, dtype=float).ravel(),
                "store_native": bool(arr.store_native)}

    @staticmethod
    def _ldigest(a):
        a = np.ascontiguousarray(a)
        import hashlib
        return {"shape": [int(v) for v in a.shape], "sha1": hashlib.sha1(a.tobytes()).hexdigest()[:12]}

    def _run_large(self, aa, case):
        from autoarray.structures.arrays import array_2d_util

        op = case["op"]
        geom = self._lgeom(case)
        sc, og = geom
        quarter = bool(case.get("quarter"))
        bad, dig = None, {}
        if op == "util_rt":
            h, w = case["h"], case["w"]
            h2, w2 = case["shape"]
            pad = float(Fraction(case["pad"]))
            src = _lvals(h, w, quarter)
            out = np.asarray(array_2d_util.resized_array_2d_from(array_2d=src, resized_shape=(h2, w2), pad_value=pad))
            dig = self._ldigest(out)
            bad = _lj_raw_resize(src, out, (h2, w2), pad)
            if not bad and h2 >= h and w2 >= w:
                back = np.asarray(array_2d_util.resized_array_2d_from(array_2d=out, resized_shape=(h, w),
                                                                      pad_value=pad))
                bad = _lj_raw_resize(out, back, (h, w), pad, what="resized back")
                if not bad and not np.array_equal(back, src):
                    bad = (f"enlarging {h}x{w}->{h2}x{w2} then shrinking back is not the identity"
                           + _first_diff(back, src))
        elif op == "util_extract":
            h, w = case["h"], case["w"]
            y0, y1, x0, x1 = case["win"]
            src = _lvals(h, w, quarter)
            out = np.asarray(array_2d_util.extracted_array_2d_from(array_2d=src, y0=y0, y1=y1, x0=x0, x1=x1))
            dig = self._ldigest(out)
            if tuple(out.shape) != (y1 - y0, x1 - x0):
                bad = f"extracted shape {tuple(out.shape)} != window {(y1 - y0, x1 - x0)}"
            else:
                exp = _np_window(src, y1 - y0, x1 - x0, y0, x0, 0.0)
                if not np.array_equal(out, exp):
                    bad = ("extracted window is not array[y0:y1, x0:x1] with zeros outside the frame"
                           + _first_diff(out, exp))
        elif op in ("array_chain", "mask_chain"):
            h, w = case["h"], case["w"]
            m = _lmask(case["maskspec"], h, w)
            mask = aa.Mask2D(mask=m, pixel_scales=sc, origin=og)
            with_values = op == "array_chain"
            if with_values:
                arr = aa.Array2D(values=_lvals(h, w, quarter), mask=mask,
                                 store_native=bool(case.get("store_native", False)))
                init = self._lsnap(aa, arr)
                # the constructor pairs values and mask: state it, so that `init` is tied to the INPUT
                exp0 = _lvals(h, w, quarter)
                exp0[m] = 0.0
                if not (np.array_equal(init["mask"], m) and np.array_equal(init["native"], exp0)):
                    bad = "Array2D(values, mask) does not hold the input values under the input mask"
            else:
                arr = None
                init = self._lsnap_mask(aa, mask)
            steps = []
            if not bad:
                for s in case["steps"]:
                    if with_values:
                        kwp = {"mask_pad_value": int(s.get("mask_pad", 0))} if s["k"] != "trim" else {}
                        if s["k"] == "resize":
                            arr = arr.resized_from(new_shape=tuple(s["shape"]), **kwp)
                        elif s["k"] == "pad":
                            arr = arr.padded_before_convolution_from(kernel_shape=tuple(s["kernel"]), **kwp)
                        else:
                            arr = arr.trimmed_after_convolution_from(kernel_shape=tuple(s["kernel"]))
                        steps.append(self._lsnap(aa, arr))
                    else:
                        mask = mask.resized_from(new_shape=tuple(s["shape"]), pad_value=int(s.get("mask_pad", 0)))
                        steps.append(self._lsnap_mask(aa, mask))
                bad = _lj_chain(case, geom, init, steps, with_values)
                dig = {"steps": [self._ldigest(s["native"] if with_values else s["mask"]) for s in steps],
                       "unmasked": [int((~s["mask"]).sum()) for s in steps]}
        elif op == "mask_trim":
            ih, iw = case["image_shape"]
            hp, wp = ih + case["kernel"][0] - 1, iw + case["kernel"][1] - 1
            pm = aa.Mask2D.all_false(shape_native=(hp, wp), pixel_scales=sc, origin=og)
            vals = _lvals(hp, wp, quarter)
            pa = aa.Array2D.no_mask(values=vals, pixel_scales=sc, origin=og)
            out = pm.trimmed_array_from(padded_array=pa, image_shape=(ih, iw))
            nat = np.asarray(out.native.array, dtype=float)
            dig = self._ldigest(nat)
            if tuple(nat.shape) != (ih, iw):
                bad = f"trimmed shape {tuple(nat.shape)} != image shape {(ih, iw)}"
            elif not np.array_equal(nat, _np_window(vals, ih, iw, (hp - ih) // 2, (wp - iw) // 2, 0.0)):
                bad = "trimmed array is not the centred crop of the padded array"
            elif tuple(float(v) for v in out.mask.pixel_scales) != sc or tuple(float(v) for v in out.mask.origin) != og:
                bad = "trimmed array lost the pixel scales / origin of the mask"
        elif op == "zoom":
            h, w = case["h"], case["w"]
            m = _lmask(case["maskspec"], h, w)
            vals = _lvals(h, w, quarter)
            mask = aa.Mask2D(mask=m, pixel_scales=sc, origin=og)
            arr = aa.Array2D(values=vals, mask=mask)
            region = [int(v) for v in mask.zoom_region]
            z = np.asarray(arr.zoomed_around_mask(buffer=case["buffer"]).native.array, dtype=float)
            dig = {"region": region, **self._ldigest(z)}
            bad = _lj_zoom(m, vals, case["buffer"], region, z)
        elif op == "apply_mask":
            h, w = case["h"], case["w"]
            m = _lmask(case["maskspec"], h, w)
            data = _lvals(h, w, quarter)
            noise = np.abs(_lvals(h, w, quarter, salt=5)) + 1.0
            kh, kw = case["kernel"]
            d = aa.Array2D.no_mask(values=data, pixel_scales=sc, origin=og)
            n = aa.Array2D.no_mask(values=noise, pixel_scales=sc, origin=og)
            psf = aa.Kernel2D.no_mask(values=np.ones((kh, kw)), pixel_scales=sc)
            mask = aa.Mask2D(mask=m, pixel_scales=sc, origin=og)
            ds = aa.Imaging(data=d, noise_map=n, psf=psf).apply_mask(mask=mask)
            o = {"padded": tuple(ds.data.shape_native) != (h, w), "data": self._lsnap(aa, ds.data),
                 "noise": self._lsnap(aa, ds.noise_map),
                 "grid_uniform": np.asarray(ds.grids.uniform.array, dtype=float).reshape(-1, 2),
                 "ds_mask": np.asarray(ds.mask).astype(bool)}
            dig = {"padded": o["padded"], **self._ldigest(o["data"]["native"])}
            bad = _lj_apply_mask(m, data, noise, geom, o)
        else:
            raise ValueError(op)
        return {"large": True, "verdict": {"holds": bad is None, "detail": bad or ""}, "digest": dig}

    # ------------------------------------------------------------------ histories (implementation)
    @staticmethod
    def _decoy(aa, mask, arr, ds=None):
        """read every public derived quantity (property / cached property) of the objects involved and a few
        sibling methods; results are discarded, exceptions of individual reads ignored"""
        import inspect

        def sweep(obj, depth):
            n = 0
            for name in dir(type(obj)):
                if name.startswith("_") or any(s in name for s in ("hdu", "header", "fits", "output", "w_tilde",
                                                                   "convolver")):
                    continue
                try:
                    a = inspect.getattr_static(type(obj), name)
                except AttributeError:
                    continue
                if isinstance(a, (classmethod, staticmethod)) or inspect.isfunction(a) or not hasattr(a, "__get__"):
                    continue
                try:
                    v = getattr(obj, name)
                    n += 1
                except Exception:
                    continue
                if depth == 0 and name.startswith("derive_"):
                    n += sweep(v, 1)
            return n

        n = sweep(mask, 0)
        if arr is not None:
            n += sweep(arr, 1)
            for f in (lambda: arr.extent_of_zoomed_array(buffer=1), lambda: arr.zoomed_around_mask(buffer=3),
                      lambda: arr.resized_from(new_shape=(3, 2)),
                      lambda: arr.padded_before_convolution_from(kernel_shape=(3, 3)),
                      lambda: mask.resized_from(new_shape=(2, 3), pad_value=1),
                      lambda: aa.Grid2D.from_mask(mask=mask)):
                try:
                    f()
                except Exception:
                    pass
        if ds is not None:
            for f in (lambda: ds.grids.uniform, lambda: ds.grids.blurring, lambda: ds.signal_to_noise_map,
                      lambda: ds.mask.is_all_false, lambda: ds.shape_native):
                try:
                    f()
                except Exception:
                    pass
        return n

    def _run_history(self, aa, case):
        import copy as _copy
        from autoarray.structures.arrays import array_2d_util
        from autoarray.dataset.over_sampling import OverSamplingDataset

        kh, kw = case.get("kernel", [3, 3])
        shared = {}
        worlds = []
        for i, W in enumerate(case["worlds"]):
            if i == 1 and case.get("share_mask"):
                mask = worlds[0]["mask"]
            else:
                mask = self._mask2d(aa, {"mask": W["mask"], "scales": W["scales"], "origin": W["origin"],
                                         "variant": case.get("variant")})
            worlds.append({"mask": mask, "arr": None, "ds0": None, "readonly": bool(W.get("readonly"))})

        def fvals(W, q_list, h, w):
            a = np.array([float(Fraction(v)) for v in q_list]).reshape(h, w)
            if W["readonly"]:
                a.setflags(write=False)
            return a

        def need_arr(W, st):
            if W["arr"] is None:
                W["arr"] = aa.Array2D(values=fvals(W, st["native"], st["h"], st["w"]), mask=W["mask"],
                                      store_native=st["store_native"])
            return W["arr"]

        def need_ds(W, st):
            if W["ds0"] is None:
                sc = tuple(float(Fraction(v)) for v in st["scales"])
                og = tuple(float(Fraction(v)) for v in st["origin"])
                if "psf" not in shared:   # ONE kernel and ONE over-sampling configuration for every world
                    shared["psf"] = aa.Kernel2D.no_mask(values=np.ones((kh, kw)), pixel_scales=sc)
                    shared["os"] = OverSamplingDataset()
                d = aa.Array2D.no_mask(values=fvals(W, st["native"], st["h"], st["w"]), pixel_scales=sc, origin=og)
                n = aa.Array2D.no_mask(values=fvals(W, st["noise"], st["h"], st["w"]), pixel_scales=sc, origin=og)
                W["ds0"] = aa.Imaging(data=d, noise_map=n, psf=shared["psf"], over_sampling=shared["os"])
            return W["ds0"]

        def observe(W, st, op, sub):
            k = op["op"]
            if k == "zoom":
                return self._zoom_obs(sub, W["mask"], need_arr(W, st))
            if k in ("resize", "pad", "trim"):
                arr = need_arr(W, st)
                return {"init": self._arr_obs(aa, arr),
                        "steps": [self._arr_obs(aa, self._array_step(sub, arr, sub["steps"][0]))]}
            if k == "mask_resize":
                return {"init": self._mask_obs(W["mask"]),
                        "steps": [self._mask_step(aa, sub, W["mask"], sub["steps"][0])[1]]}
            if k == "apply_mask":
                ds = need_ds(W, st).apply_mask(mask=W["mask"])
                return self._ds_obs(aa, ds, st["h"], st["w"])
            if k == "util_resize":
                return self.run_impl(sub)
            raise ValueError(k)

        obs = []
        try:
            self._run_history_ops(aa, case, worlds, observe, need_arr, need_ds, obs)
        finally:   # configuration histories: always back to the pinned value
            if self._cfg_native or any(o["op"] == "config" for o in case["ops"]):
                self._set_cfg(False)
        return {"steps": obs}

    def _set_cfg(self, value):
        from autoconf import conf
        conf.instance["general"]["structures"]["native_binned_only"] = bool(value)
        self._cfg_native = bool(value)

    def _run_history_ops(self, aa, case, worlds, observe, need_arr, need_ds, obs):
        import copy as _copy
        from autoarray.structures.arrays import array_2d_util

        for op, wi, st, sub in _hist_walk(case):
            W = worlds[wi]
            k = op["op"]
            h, w = st["h"], st["w"]
            if sub is not None:
                try:
                    obs.append(observe(W, st, op, sub))
                except Exception as e:  # recorded as this step's observation
                    obs.append({"err": type(e).__name__, "msg": str(e)[:200]})
                continue
            if k == "config":
                self._set_cfg(op["value"])
            elif k == "rebuild":   # the caller drops its objects and builds equal ones from scratch
                mk = W["mask"]
                W["mask"] = aa.Mask2D(mask=np.array(mk).copy(), pixel_scales=mk.pixel_scales, origin=mk.origin)
                W["arr"] = None
                W["ds0"] = None
            elif k == "edit_mask":
                v = bool(op["value"])
                via = op.get("via", "item")
                if "rect" in op:
                    y0, y1, x0, x1 = op["rect"]
                    W["mask"][y0:y1, x0:x1] = v
                elif via == "boolkey":
                    key = np.zeros((h, w), dtype=bool)
                    for y, x in op["cells"]:
                        key[y, x] = True
                    W["mask"][key] = v
                else:
                    for y, x in op["cells"]:
                        W["mask"][y, x] = v
                for W2 in worlds:   # arrays paired with the edited mask object are rebuilt before their next use
                    if W2["mask"] is W["mask"]:
                        W2["arr"] = None
            elif k == "edit_values":
                arr = need_arr(W, st)
                for (y, x), v in zip(op["cells"], op["values"]):
                    if st["arr_native"]:
                        arr[y, x] = float(Fraction(v))
                    else:
                        arr[sum(1 for b in st["bits"][:y * w + x] if not b)] = float(Fraction(v))
                W["ds0"] = None
            elif k == "edit_data":
                ds0 = need_ds(W, st)
                for (y, x), v in zip(op["cells"], op["values"]):
                    ds0.data[y * w + x] = float(Fraction(v))
                W["arr"] = None
            elif k == "decoy":
                arr = None
                try:
                    arr = need_arr(W, st)
                except Exception:
                    pass
                self._decoy(aa, W["mask"], arr, W["ds0"])
            elif k == "derive":
                how = op["how"]
                if op.get("what", "mask") == "mask":
                    mk = W["mask"]
                    W["mask"] = {
                        "copy": lambda: _copy.copy(mk), "deepcopy": lambda: _copy.deepcopy(mk),
                        "slice": lambda: mk[:, :], "with_new_array": lambda: mk.with_new_array(np.array(mk).copy()),
                        "ctor": lambda: aa.Mask2D(mask=mk, pixel_scales=mk.pixel_scales, origin=mk.origin),
                    }[how]()
                    W["arr"] = None
                else:
                    arr = need_arr(W, st)
                    W["arr"] = {
                        "copy": lambda: _copy.copy(arr), "deepcopy": lambda: _copy.deepcopy(arr),
                        "add0": lambda: arr + 0.0, "mul1": lambda: arr * 1.0, "negneg": lambda: -(-arr),
                        "with_new_array": lambda: arr.with_new_array(np.array(arr.array).copy()),
                    }[how]()
            elif k == "fault":
                what = op["what"]
                try:
                    if what == "zoom":
                        need_arr(W, st).zoomed_around_mask(buffer=op.get("buffer", 1))
                    elif what == "zoom_bad_buffer":
                        need_arr(W, st).zoomed_around_mask(buffer="x")
                    elif what == "resize_short_shape":
                        need_arr(W, st).resized_from(new_shape=(h + 2,))
                    elif what == "resize_negative":
                        need_arr(W, st).resized_from(new_shape=(-1, w))
                    elif what == "resize_float":
                        need_arr(W, st).resized_from(new_shape=(h + 0.5, w))
                    elif what == "pad_short_kernel":
                        need_arr(W, st).padded_before_convolution_from(kernel_shape=(3,))
                    elif what == "mask_resize_short":
                        W["mask"].resized_from(new_shape=(h + 1,))
                    elif what == "ctor_wrong_length":
                        aa.Array2D(values=np.ones(sum(1 for b in st["bits"] if not b) + 1), mask=W["mask"])
                    elif what == "util_1d":
                        array_2d_util.resized_array_2d_from(array_2d=np.ones(4), resized_shape=(h, w))
                    elif what == "apply_mask_wrong_shape":
                        sc = tuple(float(Fraction(v)) for v in st["scales"])
                        need_ds(W, st).apply_mask(mask=aa.Mask2D.all_false(shape_native=(h + 1, w), pixel_scales=sc))
                    else:
                        raise ValueError(what)
                except ValueError as e:
                    if str(e) == what:
                        raise
                except Exception:
                    pass
            else:
                raise ValueError(k)

    # ------------------------------------------------------------------ model
    def _hist_subs(self, case):
        return [(op, sub) for op, _wi, _st, sub in _hist_walk(case) if sub is not None]

    def model_requests(self, case, impl_obs):
        kind = case["kind"]
        if kind == "large":
            return []   # judged by the vectorised oracle alone
        if kind == "own":
            first = impl_obs["rounds"][0] if isinstance(impl_obs, dict) and impl_obs.get("rounds") else impl_obs
            return self.model_requests(case["sub"], first)
        if kind == "history":
            steps = impl_obs.get("steps", []) if isinstance(impl_obs, dict) else []
            subs = self._hist_subs(case)
            reqs, spans = [], []
            if len(steps) == len(subs):
                for (op, sub), o in zip(subs, steps):
                    rs = self.model_requests(sub, o)
                    spans.append(len(rs))
                    reqs.extend(rs)
            case["_spans"] = spans
            return reqs
        if kind == "util_resize":
            r = {"op": "c14.resized_util", "src": case["src"], "h": case["h"], "w": case["w"],
                 "shape": case["shape"], "pad": case["pad"]}
            if case["origin"] is not None:
                r["origin"] = case["origin"]
            return [r]
        if kind == "util_extract":
            y0, y1, x0, x1 = case["win"]
            return [{"op": "c14.extracted_util", "src": case["src"], "h": case["h"], "w": case["w"],
                     "y0": y0, "y1": y1, "x0": x0, "x1": x1}]
        geom = {"scales": case.get("scales"), "origin": case.get("origin")}
        if kind == "mask_chain":
            steps = [{"shape": s["shape"], "pad": str(s["mask_pad"])} for s in case["steps"]]
            reqs = [{"op": "c14.mask_chain", "mask": case["mask"], **geom, "steps": steps}]
            # coordinates of the unmasked pixels of every intermediate mask, from the model's own masks:
            # a second pass is not possible in one batch, so ask for the grid of the *implementation's*
            # mask (equal to the model's whenever the first comparison passes)
            if isinstance(impl_obs, dict) and "steps" in impl_obs:
                for o in impl_obs["steps"]:
                    reqs.append({"op": "c14.grid", "mask": o["mask"], **geom})
            return reqs
        if kind == "array_chain":
            steps = []
            for s in case["steps"]:
                s2 = dict(s)
                if "mask_pad" in s2:
                    s2["mask_pad"] = str(s2["mask_pad"])
                steps.append(s2)
            return [{"op": "c14.array_chain", "mask": case["mask"], **geom, "native": case["native"],
                     "store_native": case["store_native"], "steps": steps}]
        if kind == "mask_trim":
            ih, iw = case["image_shape"]
            if "padded_shape" in case:
                hp, wp = case["padded_shape"]
            else:
                hp, wp = ih + case["kernel"][0] - 1, iw + case["kernel"][1] - 1
            return [{"op": "c14.trimmed_array_from", "padded": case["padded"], "padded_shape": [hp, wp],
                     "image_shape": [ih, iw]}]
        opts = case.get("opts") or {}
        # round 5 (R5-F): without a psf nothing is ever padded — the model's 1x1 kernel never leaves the frame
        kernel = [1, 1] if opts.get("psf") == "none" else case.get("kernel")
        if kind == "apply_mask":
            reqs = [{"op": "c14.apply_mask", "mask": case["mask"], **geom, "data": case["data"],
                     "noise": case["noise"], "kernel": kernel}]
            if "ds_trim" in opts:   # the trimmed dataset = the masked, never padded one
                reqs.append({**reqs[0], "kernel": [1, 1]})
            return reqs
        if kind == "apply_mask_chain":
            return [{"op": "c14.apply_mask_chain", "h": case["h"], "w": case["w"], "masks": case["masks"],
                     **geom, "data": case["data"], "noise": case["noise"], "kernel": kernel}]
        if kind == "zoom":
            return [{"op": "c14.zoom", "mask": case["mask"], **geom, "native": case["native"],
                     "buffer": case["buffer"]}]
        raise ValueError(kind)

    def model_obs(self, case, responses):
        if case["kind"] == "own":
            return self.model_obs(case["sub"], responses)
        if case["kind"] == "history":
            out, a = [], 0
            for (op, sub), n in zip(self._hist_subs(case), case.get("_spans", [])):
                out.append(self.model_obs(sub, responses[a:a + n]))
                a += n
            return {"steps": out}
        for r in responses:
            if "err" in r:
                return {"err": r["err"]}
        kind = case["kind"]
        if kind == "mask_chain":
            steps = [dict(s) for s in responses[0]["ok"]]
            for s, g in zip(steps, responses[1:]):
                s["grid"] = g["ok"]
            return {"steps": steps}
        if kind == "array_chain":
            return {"steps": responses[0]["ok"]}
        if kind == "mask_trim":
            o = dict(responses[0]["ok"])
            o["scales"], o["origin"], o["all_unmasked"] = case["scales"], case["origin"], True
            return o
        def ds_model(o):
            return {"padded": o["padded"], "data": o["data"], "noise": o["noise"],
                    "grid_uniform": o["data"]["grid"],
                    "ds_mask": {k: o["data"][k] for k in ("mask", "scales", "origin")}}

        if kind == "apply_mask":
            o = ds_model(responses[0]["ok"])
            if "ds_trim" in (case.get("opts") or {}):
                o["ds_trim"] = ds_model(responses[1]["ok"]) if o["padded"] else None
            return self._cfg_patch(case, o)
        if kind == "apply_mask_chain":
            return [ds_model(o) for o in responses[0]["ok"]]
        return responses[0]["ok"]

    @staticmethod
    def _cfg_patch(case, o):
        """round 5 (R5-D): under general.structures.native_binned_only every Array2D is natively stored"""
        if case.get("cfg_native"):
            for key in ("data", "noise"):
                o[key] = {**o[key], "store_native": True}
        return o

    def compare(self, case, impl_obs, model_obs, cmp):
        if isinstance(impl_obs, dict) and "err" in impl_obs and len(impl_obs) <= 2:
            return cmp.diff({"err": impl_obs["err"]}, model_obs)
        if case["kind"] == "own":
            for i, o in enumerate(impl_obs["rounds"]):
                d = self.compare(case["sub"], o, model_obs, cmp)
                if d:
                    return (f"ownership history, round {i + 1} of {len(impl_obs['rounds'])} (every array of the "
                            f"earlier rounds was overwritten by its owner; the inputs are fresh and equal): {d}")
            return None
        if case["kind"] == "history":
            subs = self._hist_subs(case)
            if not (len(subs) == len(impl_obs["steps"]) == len(model_obs["steps"])):
                return f"$.steps: {len(impl_obs['steps'])} observations, {len(model_obs['steps'])} model values"
            for i, ((op, sub), o, m) in enumerate(zip(subs, impl_obs["steps"], model_obs["steps"])):
                d = self.compare(sub, o, m, cmp)
                if d:
                    return f"history read #{i + 1} ({op['op']}, world {op.get('w', 0)}) vs a fresh object: {d}"
            return None
        if case["kind"] in ("mask_chain", "array_chain"):
            impl_obs = {"steps": impl_obs["steps"]}
        return self._cmp(impl_obs, model_obs, cmp, "$", self._mag(case))

    @staticmethod
    def _mag(case):
        """round 5 (decades): magnitude of the case's coordinates, or None for the ordinary 1e-9-relative rule"""
        m = case.get("mag")
        return Fraction(m) if m else None

    def _cmp(self, a, b, cmp, path, mag=None):
        """exact everywhere except under keys named grid* (pixel-centre coordinates: 1e-9 relative; for a world
        scaled by 2^k: 1e-9 x the world's magnitude, absolute)."""
        if isinstance(a, dict) and isinstance(b, dict):
            if set(a) != set(b):
                return f"{path}: keys impl={sorted(a)} model={sorted(b)}"
            for k in sorted(a):
                if k.startswith("grid"):
                    old = (cmp.rtol, cmp.atol)
                    cmp.rtol, cmp.atol = (TOL, old[1]) if mag is None else (Fraction(0), TOL * mag)
                    try:
                        d = cmp.diff(a[k], b[k], f"{path}.{k}")
                    finally:
                        cmp.rtol, cmp.atol = old
                else:
                    d = self._cmp(a[k], b[k], cmp, f"{path}.{k}", mag)
                if d:
                    return d
            return None
        if isinstance(a, list) and isinstance(b, list) and a and isinstance(a[0], dict):
            if len(a) != len(b):
                return f"{path}: length impl={len(a)} model={len(b)}"
            for i, (x, y) in enumerate(zip(a, b)):
                d = self._cmp(x, y, cmp, f"{path}[{i}]", mag)
                if d:
                    return d
            return None
        return cmp.diff(a, b, path)

    # ------------------------------------------------------------------ oracle (independent of the model)
    def oracle(self, case, obs):
        if isinstance(obs, dict) and "err" in obs:
            return False, f"implementation raised {obs}"
        return getattr(self, "_oracle_" + case["kind"])(case, obs)

    def _oracle_large(self, case, obs):
        # the vectorised statement of the property (`_lj_*`) was evaluated on the raw outputs in `_run_large`
        v = obs["verdict"]
        return bool(v["holds"]), f"[large {case['op']}, sizes around {case.get('hint')}] {v['detail']}"

    def _oracle_own(self, case, obs):
        """every round of an ownership history is judged as the ordinary case it repeats"""
        for i, o in enumerate(obs["rounds"]):
            ok, d = self.oracle(case["sub"], o)
            if not ok:
                return False, (f"round {i + 1} of {len(obs['rounds'])} of the same call on fresh, equal inputs (the "
                               f"caller overwrote the arrays of the earlier rounds in place): {d}")
        return True, ""

    def _oracle_history(self, case, obs):
        """every observing step is judged as the ordinary case a FRESH object in the current state would be"""
        subs = self._hist_subs(case)
        if len(obs["steps"]) != len(subs):
            return False, f"history produced {len(obs['steps'])} observations, expected {len(subs)}"
        for i, ((op, sub), o) in enumerate(zip(subs, obs["steps"])):
            ok, d = self.oracle(sub, o)
            if ok and sub["kind"] in ("array_chain", "mask_chain"):
                # the object read from must BE the current state (the step check is relative to it)
                if o["init"]["mask"] != sub["mask"]:
                    ok, d = False, "the mask of the object does not show the in-place edits"
                elif sub["kind"] == "array_chain":
                    bits = sub["mask"]["bits"]
                    exp = [Fraction(0) if b == "1" else Fraction(v) for b, v in zip(bits, sub["native"])]
                    if [Fraction(v) for v in o["init"]["native"]] != exp:
                        ok, d = False, "the array does not hold the current values under the current mask"
            if not ok:
                return False, (f"history read #{i + 1} of {len(subs)} ({op['op']}, world {op.get('w', 0)}) differs "
                               f"from a freshly built object in the same state: {d}")
        return True, ""

    def _oracle_util_resize(self, case, obs):
        h, w = case["h"], case["w"]
        h2, w2 = case["shape"]
        src = _grid2(case["src"], h, w)
        got = _grid2(obs, h2, w2)
        pad = Fraction(case["pad"])
        if case["origin"] is None:
            tys, txs = _admissible(h, h2), _admissible(w, w2)
            what = "centred crop / centred embedding"
        else:
            oy, ox = case["origin"]
            tys = sorted({oy - h2 // 2, oy - (h2 - 1) // 2})
            txs = sorted({ox - w2 // 2, ox - (w2 - 1) // 2})
            what = "window centred on the given origin pixel"
        for ty in tys:
            for tx in txs:
                if got == _window(src, h, w, h2, w2, ty, tx, pad):
                    return True, ""
        return False, f"resized {h}x{w}->{h2}x{w2} is not the {what} (padded with {pad})"

    def _oracle_util_extract(self, case, obs):
        h, w = case["h"], case["w"]
        y0, y1, x0, x1 = case["win"]
        if obs["shape"] != [y1 - y0, x1 - x0]:
            return False, f"extracted shape {obs['shape']} != window {[y1 - y0, x1 - x0]}"
        src = _grid2(case["src"], h, w)
        got = _grid2(obs["values"], y1 - y0, x1 - x0)
        if got != _window(src, h, w, y1 - y0, x1 - x0, y0, x0, Fraction(0)):
            return False, "extracted window is not array[y0:y1, x0:x1] with zeros outside the frame"
        return True, ""

    # -- one resize/pad/trim step, for masks (values=None) and arrays --------------------------------
    def _check_step(self, case, step, prev, cur, with_values):
        geom = ([Fraction(v) for v in case["scales"]], [Fraction(v) for v in case["origin"]])
        mag = self._mag(case)
        h, w = prev["mask"]["h"], prev["mask"]["w"]
        h2, w2 = cur["mask"]["h"], cur["mask"]["w"]
        k = step["k"]
        if k == "resize":
            want = tuple(step["shape"])
        elif k == "pad":
            want = (h + step["kernel"][0] - 1, w + step["kernel"][1] - 1)
        else:
            want = (h - (step["kernel"][0] - 1), w - (step["kernel"][1] - 1))
        if (h2, w2) != want:
            return f"{k}: shape {(h2, w2)} != {want}"
        for key in ("scales", "origin"):
            if [Fraction(v) for v in cur[key]] != geom[0 if key == "scales" else 1]:
                return f"{k}: {key} changed to {cur[key]} (input {case[key]})"
        pm, cm = _bits(prev["mask"]), _bits(cur["mask"])
        mask_pad = bool(int(step.get("mask_pad", 0)))
        found = None
        for ty in _admissible(h, h2):
            for tx in _admissible(w, w2):
                if cm != _window(pm, h, w, h2, w2, ty, tx, mask_pad):
                    continue
                if with_values:
                    pv = _grid2(prev["native"], h, w)
                    cv = _grid2(cur["native"], h2, w2)
                    exp = _window(pv, h, w, h2, w2, ty, tx, Fraction(0))
                    exp = [[Fraction(0) if cm[r][c] else exp[r][c] for c in range(w2)] for r in range(h2)]
                    if cv != exp:
                        continue
                found = (ty, tx)
                break
            if found:
                break
        if not found:
            return (f"{k} {h}x{w}->{h2}x{w2}: mask{' and values are' if with_values else ' is'} not the "
                    f"centred crop / centred embedding (mask pad {int(mask_pad)}, value pad 0) of the input")
        ty, tx = found
        unm = [(r, c) for r in range(h2) for c in range(w2) if not cm[r][c]]
        if with_values:
            cv = _grid2(cur["native"], h2, w2)
            if [Fraction(v) for v in cur["slim"]] != [cv[r][c] for r, c in unm]:
                return f"{k}: .slim is not the row-major list of unmasked native values"
            if cur["store_native"] != case["store_native"]:
                return f"{k}: store_native flag changed"
        # coordinate attachment when the parity of an axis is preserved
        if len(cur["grid"]) != len(unm):
            return f"{k}: grid has {len(cur['grid'])} points for {len(unm)} unmasked pixels"
        (sy, sx), (oy, ox) = geom
        for (r, c), p in zip(unm, cur["grid"]):
            y, x = r + ty, c + tx
            if not (0 <= y < h and 0 <= x < w):
                continue
            if (h - h2) % 2 == 0 and not _close(p[0], _coord_y(h, oy, sy, y), mag):
                return (f"{k} {h}x{w}->{h2}x{w2}: pixel {(y, x)}->{(r, c)} moved in y: "
                        f"{float(Fraction(p[0]))} != {float(_coord_y(h, oy, sy, y))}")
            if (w - w2) % 2 == 0 and not _close(p[1], _coord_x(w, ox, sx, x), mag):
                return (f"{k} {h}x{w}->{h2}x{w2}: pixel {(y, x)}->{(r, c)} moved in x: "
                        f"{float(Fraction(p[1]))} != {float(_coord_x(w, ox, sx, x))}")
        return None

    def _oracle_chain(self, case, obs, with_values):
        prev = obs["init"]
        for step, cur in zip(case["steps"], obs["steps"]):
            step = dict(step)
            step.setdefault("k", "resize")
            bad = self._check_step(case, step, prev, cur, with_values)
            if bad:
                return False, bad
            prev = cur
        if case.get("roundtrip"):
            a, b = obs["init"], obs["steps"][-1]
            for key in a:
                if key.startswith("grid"):
                    continue
                if a[key] != b.get(key):
                    what = "pad then trim" if case["steps"][0]["k"] == "pad" else "enlarge then shrink"
                    return False, f"{what} is not the identity: {key} differs"
            if "grid" in a and "grid" in b:
                if len(a["grid"]) != len(b["grid"]) or not all(
                        _close(p[0], r[0], self._mag(case)) and _close(p[1], r[1], self._mag(case))
                        for p, r in zip(a["grid"], b["grid"])):
                    return False, "round trip moved the pixel coordinates"
        return True, ""

    def _oracle_mask_chain(self, case, obs):
        return self._oracle_chain(case, obs, False)

    def _oracle_array_chain(self, case, obs):
        return self._oracle_chain(case, obs, True)

    def _oracle_mask_trim(self, case, obs):
        ih, iw = case["image_shape"]
        if "padded_shape" in case:
            hp, wp = case["padded_shape"]
            if (hp - ih) % 2 or (wp - iw) % 2:
                return True, ""  # odd pad size: no odd kernel produces it; the statement is silent
        else:
            hp, wp = ih + case["kernel"][0] - 1, iw + case["kernel"][1] - 1
        if obs["shape"] != [ih, iw]:
            return False, f"trimmed shape {obs['shape']} != image shape {[ih, iw]}"
        pv = _grid2(case["padded"], hp, wp)
        exp = _window(pv, hp, wp, ih, iw, (hp - ih) // 2, (wp - iw) // 2, Fraction(0))
        if _grid2(obs["native"], ih, iw) != exp:
            return False, "trimmed array is not the centred crop of the padded array"
        if [Fraction(v) for v in obs["scales"]] != [Fraction(v) for v in case["scales"]] or \
                [Fraction(v) for v in obs["origin"]] != [Fraction(v) for v in case["origin"]]:
            return False, "trimmed array lost the pixel scales / origin of the mask"
        return True, ""

    def _oracle_apply_mask(self, case, obs):
        mj = case["mask"]
        h, w = mj["h"], mj["w"]
        m = _bits(mj)
        unm = [(y, x) for y in range(h) for x in range(w) if not m[y][x]]
        data = _grid2(case["data"], h, w)
        noise = _grid2(case["noise"], h, w)
        sy, sx = [Fraction(v) for v in case["scales"]]
        oy, ox = [Fraction(v) for v in case["origin"]]
        if [Fraction(v) for v in obs["data"]["slim"]] != [data[y][x] for y, x in unm]:
            return False, "data values of the unmasked pixels changed by apply_mask" + (
                " (padded)" if obs["padded"] else "")
        if [Fraction(v) for v in obs["noise"]["slim"]] != [noise[y][x] for y, x in unm]:
            return False, "noise values of the unmasked pixels changed by apply_mask" + (
                " (padded)" if obs["padded"] else "")
        for gkey, g in (("grids.uniform", obs["grid_uniform"]), ("Grid2D.from_mask(data.mask)", obs["data"]["grid"]),
                        ("Grid2D.from_mask(noise_map.mask)", obs["noise"]["grid"])):
            if len(g) != len(unm):
                return False, f"{gkey} has {len(g)} points for {len(unm)} unmasked pixels"
            for (y, x), p in zip(unm, g):
                if not (_close(p[0], _coord_y(h, oy, sy, y), self._mag(case))
                        and _close(p[1], _coord_x(w, ox, sx, x), self._mag(case))):
                    return False, (f"{gkey}: coordinate of pixel {(y, x)} moved "
                                   f"({[float(Fraction(v)) for v in p]} != "
                                   f"{[float(_coord_y(h, oy, sy, y)), float(_coord_x(w, ox, sx, x))]})"
                                   + (" after automatic padding" if obs["padded"] else ""))
        for o in (obs["data"], obs["noise"], obs["ds_mask"]):
            if o["mask"]["bits"].count("0") != len(unm):
                return False, "number of unmasked pixels changed"
        if obs["ds_mask"]["mask"] != obs["data"]["mask"] or obs["noise"]["mask"] != obs["data"]["mask"]:
            return False, "dataset mask, data mask and noise-map mask differ"
        # the native arrays hold each value at the (possibly shifted) unmasked pixel, in the same order
        for o, src in ((obs["data"], data), (obs["noise"], noise)):
            mh, mw = o["mask"]["h"], o["mask"]["w"]
            cm = _bits(o["mask"])
            nat = _grid2(o["native"], mh, mw)
            got = [nat[r][c] for r in range(mh) for c in range(mw) if not cm[r][c]]
            if got != [src[y][x] for y, x in unm]:
                return False, "native array does not hold the values at the unmasked pixels in order"
        if obs.get("ds_trim") is not None:
            # round 5: Imaging.trimmed_after_convolution_from after the automatic padding is the identity
            t = obs["ds_trim"]
            if t["padded"] or [t["data"]["mask"]["h"], t["data"]["mask"]["w"]] != [h, w]:
                return False, "padding for the kernel then trimming the dataset for the same kernel changed its shape"
            if t["data"]["mask"] != mj or t["noise"]["mask"] != mj:
                return False, "padding then trimming the dataset does not restore the mask"
            ok, d = self._oracle_apply_mask({**case, "opts": {}}, {k: v for k, v in t.items() if k != "ds_trim"})
            if not ok:
                return False, "after padding then trimming the dataset (same kernel): " + d
        return True, ""

    def _oracle_apply_mask_chain(self, case, obs):
        """after every apply_mask the triples of that mask's unmasked pixels are those of the ORIGINAL
        unmasked dataset (however many masks were applied before)."""
        if len(obs) != len(case["masks"]):
            return False, "missing steps"
        for i, (mj, o) in enumerate(zip(case["masks"], obs)):
            ok, detail = self._oracle_apply_mask({**case, "mask": mj}, o)
            if not ok:
                return False, f"apply_mask #{i + 1} of {len(case['masks'])} (on a dataset already masked {i} time(s)): {detail}"
        return True, ""

    def _oracle_zoom(self, case, obs):
        mj = case["mask"]
        h, w = mj["h"], mj["w"]
        m = _bits(mj)
        vals = _grid2(case["native"], h, w)
        b = case["buffer"]
        y0, y1, x0, x1 = obs["region"]
        # the window is anchored at (y0 - buffer, x0 - buffer) and has the shape of the returned array
        zh, zw = obs["shape"]
        wy0, wx0 = y0 - b, x0 - b
        wy1, wx1 = wy0 + zh, wx0 + zw
        if len(obs["native"]) != zh * zw:
            return False, f"zoomed array has {len(obs['native'])} values for shape {obs['shape']}"
        z = _grid2(obs["native"], zh, zw)
        for y in range(h):
            for x in range(w):
                if m[y][x]:
                    continue
                if not (wy0 <= y < wy1 and wx0 <= x < wx1):
                    return False, f"unmasked pixel {(y, x)} is outside the zoom window {[wy0, wy1, wx0, wx1]}"
                if z[y - wy0][x - wx0] != vals[y][x]:
                    return False, f"unmasked pixel {(y, x)} does not carry its value in the zoomed array"
        return True, ""

    # ------------------------------------------------------------------ misc
    def nontrivial(self, case, obs):
        kind = case["kind"]
        if kind in ("large", "own"):
            return True
        if kind == "history":
            return len(case["worlds"]) > 1 or any(o["op"] not in HIST_OBSERVING for o in case["ops"])
        if kind == "util_resize":
            return [case["h"], case["w"]] != case["shape"]
        if kind in ("mask_chain", "array_chain"):
            return any(s.get("k") != "pad" or s["kernel"] != [1, 1] for s in case["steps"])
        if kind in ("zoom", "apply_mask"):
            return "0" in case["mask"]["bits"] and "1" in case["mask"]["bits"]
        if kind == "apply_mask_chain":
            return len({m["bits"] for m in case["masks"]}) > 1
        return True

    def sample_view(self, case):
        return {k: v for k, v in case.items() if not k.startswith("_")}

    def _shrink_large(self, case):
        def par(n, like):   # about half of n, at least 1, same parity as `like`
            return _same_parity_below(max(1, n // 2), like)

        if case.get("scales") not in (None, ["1", "1"]):
            yield {**case, "scales": ["1", "1"]}
        if case.get("origin") not in (None, ["0", "0"]):
            yield {**case, "origin": ["0", "0"]}
        op = case["op"]
        if op == "util_rt":
            h, w = case["h"], case["w"]
            h2, w2 = case["shape"]
            for a, b in ((par(h2, h2), w2), (h2, par(w2, w2)), (h2 - 2, w2), (h2, w2 - 2)):
                if a >= 1 and b >= 1 and (a, b) != (h2, w2):
                    yield {**case, "shape": [a, b], "h": min(h, _same_parity_below(a, h)),
                           "w": min(w, _same_parity_below(b, w))}
            for a, b in ((par(h, h), w), (h, par(w, w))):
                if (a, b) != (h, w):
                    yield {**case, "h": a, "w": b}
        if op in ("array_chain", "mask_chain") and case["steps"][0]["k"] == "resize" and \
                case["maskspec"]["t"] in ("rects", "none", "all"):
            s0 = case["steps"][0]
            h2, w2 = s0["shape"]
            for a, b in ((par(h2, h2), w2), (h2, par(w2, w2))):
                if (a, b) != (h2, w2) and a >= case["h"] and b >= case["w"]:
                    yield {**case, "steps": [{**s0, "shape": [a, b]}] + case["steps"][1:]}

    def _shrink_history(self, case):
        base = {k: v for k, v in case.items() if not k.startswith("_")}
        ops = base["ops"]
        cands = []
        if len(ops) > 2:   # a reuse history has at least two steps (something happened before the read)
            for i in range(len(ops)):
                cands.append({**base, "ops": ops[:i] + ops[i + 1:]})
        if len(base["worlds"]) > 1 and not any(o.get("w", 0) == 1 for o in ops) and not base.get("share_mask"):
            cands.append({**base, "worlds": base["worlds"][:1]})
        for i, W in enumerate(base["worlds"]):
            for key, triv in (("origin", ["0", "0"]), ("scales", ["1", "1"])):
                if W[key] != triv and not base.get("share_mask") and not str(base.get("tag", "")).startswith("hist_twin"):
                    ws = list(base["worlds"])
                    ws[i] = {**W, key: triv}
                    cands.append({**base, "worlds": ws})
        for c in cands:
            try:
                if any(sub is not None for _o, _w, _s, sub in _hist_walk(c)):
                    yield c
            except (HistInvalid, KeyError, IndexError):
                continue

    def shrink(self, case):
        kind = case["kind"]
        if kind == "large":
            yield from self._shrink_large(case)
            return
        if kind == "history":
            yield from self._shrink_history(case)
            return
        if kind == "own":
            # (the number of rounds is never shrunk: a process-wide memo warmed by earlier candidates would make a
            #  shorter history fail here and pass in the cold process of a replay)
            for sub in self.shrink(case["sub"]):
                yield {**case, "sub": sub}
            return
        if kind in ("zoom", "apply_mask"):
            mj = case["mask"]
            bits = mj["bits"]
            for i, c in enumerate(bits):
                if c == "0" and bits.count("0") > 1:
                    yield {**case, "mask": {**mj, "bits": bits[:i] + "1" + bits[i + 1:]}}
        if kind == "apply_mask_chain":
            if len(case["masks"]) > 2:
                yield {**case, "masks": case["masks"][1:]}
                yield {**case, "masks": case["masks"][:-1]}
            if case["kernel"] != [1, 1]:
                yield {**case, "kernel": [1, 1]}
            for i, mj in enumerate(case["masks"]):
                bits = mj["bits"]
                for k, c in enumerate(bits):
                    if c == "0" and bits.count("0") > 1:
                        ms = list(case["masks"])
                        ms[i] = {**mj, "bits": bits[:k] + "1" + bits[k + 1:]}
                        yield {**case, "masks": ms}
        if kind in ("array_chain", "mask_chain", "zoom", "apply_mask", "mask_trim", "apply_mask_chain"):
            if case.get("origin") != ["0", "0"]:
                yield {**case, "origin": ["0", "0"]}
            if case.get("scales") != ["1", "1"]:
                yield {**case, "scales": ["1", "1"]}
        if kind in ("array_chain", "mask_chain") and len(case["steps"]) > 1 and not case.get("roundtrip"):
            yield {**case, "steps": case["steps"][:-1]}

    def theorems_for(self, case):
        if case["kind"] == "own":
            return self.theorems_for(case["sub"])
        if case["kind"] == "history":
            names = []
            for _op, sub in self._hist_subs(case):
                for n in self.theorems_for(sub):
                    if n not in names:
                        names.append(n)
            return names or ["C14.*"]
        if case["kind"] == "large":
            return self.theorems_for({"kind": {"util_rt": "util_resize", "util_extract": "util_extract"}.get(
                case["op"], case["op"])})
        return {
            "util_resize": ["C14.resized_eq_centred_window", "C14.resized_getElem", "C14.centred_margins",
                            "C14.crop_is_centred", "C14.embed_is_centred"],
            "util_extract": ["C14.extracted_eq_window"],
            "mask_chain": ["C14.mask_resized_getElem", "C14.mask_shrink_enlarge_identity",
                           "C14.coordinate_kept_y", "C14.coordinate_kept_x", "C14.pixel_centre_closed_form",
                           "C14.resize_keeps_value_and_coordinate"],
            "array_chain": ["C14.array_resized_native", "C14.trim_pad_identity", "C14.trimmed_is_centred_crop",
                            "C14.array_shrink_enlarge_identity", "C14.padding_keeps_triples",
                            "C14.resize_keeps_value_and_coordinate"],
            "mask_trim": ["C14.trimmed_array_from_padded"],
            "apply_mask": ["C14.apply_mask_keeps_triples", "C14.auto_padding_iff",
                           "C14.padding_keeps_triples"],
            "apply_mask_chain": ["C14.successive_apply_mask_eq_last", "C14.apply_mask_keeps_triples"],
            "zoom": ["C14.zoom_contains_unmasked", "C14.extracted_eq_window"],
        }.get(case["kind"], ["C14.*"])


CHECK = C14()
