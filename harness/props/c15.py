"""C15 — preloaded and cached intermediate results never change inversion outputs.

What a case is
--------------
  world     a small real imaging dataset (7x7..9x9 frame, structured mask, 3x3 PSF and — unless
            C15_UNUSUAL_PSF=0 — non-square / signed PSFs, see design_notes/C15.md) and 1-3 linear objects
            (rectangular mappers with Constant regularization, linear func lists with / without
            regularization, with / without an operated-mapping-matrix override)
  settings  use_w_tilde, use_positive_only_solver;  Preloads.use_w_tilde (None / True / False)
  slots     the subset of Preloads slots that is filled, and where the values come from
            ("same": a fresh inversion of the same formalism, "other": the other formalism)
  history   k successive inversions sharing the one Preloads object, each a list of reads

Observation = for every step the value of every read (bit patterns of the doubles) and the list of
preload arrays whose bytes changed; plus the same reads on inversions built WITHOUT preloads (both
formalisms), which are what the property compares against.

Exact vs tolerant (DESIGN §2.4): when every filled slot was produced by the same operations the
inversion would perform itself (every slot except the two alternative routes
data_linear_func_matrix_dict / mapper_operated_mapping_matrix_dict, and except "other"-formalism
values) all outputs must be BIT-IDENTICAL to the preload-free run.  Otherwise 1e-9 relative to the
largest entry, and quantities behind the solver only for the positive-negative solver on
well-conditioned systems (the positive-only solver's sensitivity is C05's business).

Round 4 added two further kinds of case (design_notes/C15.md, "Round 4 hardening"):
  kind "reuse"   ONE Preloads object, ONE SettingsInversion and (objs_mode "same") ONE dataset + list of linear
                 objects used for two worlds A and B (= A with one ingredient changed: regularization coefficient,
                 data, noise, func-list matrix, PSF, mask; big or ~4e-6 relative) in turn.  Between the phases the
                 slots whose value changed are refreshed by assignment / by the public setters / by writing into
                 the caller-owned arrays; the real objects are edited through Array2D.__setitem__, re-assignment
                 of `.regularization`, numpy item assignment; optional decoy reads, a failed operation in between,
                 read-only preloaded arrays, copied Preloads / settings.  Every phase is compared with the model's
                 prediction for a FRESH machine in that phase's world and, by the oracle, with the preload-free
                 inversion of freshly built objects.
  kind "large"   only when the anchored source gained an integer constant (common.size_hints): worlds whose
                 unmasked pixels / sub-pixels / frame / parameters / kernel / number of objects straddle the
                 constant.  No model comparison; the oracle states the normal equations directly with numpy
                 (true convolution of the mapping matrices, A^T N^-1 d, A^T N^-1 A, backward error of the
                 solution, A s, s^T H s, log det) on both formalisms where affordable, plus preload
                 bit-transparency at that size.

Round 5/6 (design_notes/C15.md, "Round 5/6 hardening"; generator sections 12-18, `_r5_cases`):
  decade_* / near_* / far_* / extreme_*   ordinary cases on worlds whose ingredients are multiplied by 2^k (k up to
                 +-45, +-400 for the data, +-200 / +-100 for noise / PSF), nearly uniform / equal / diagonal / zero
                 ingredients (spread 2^-30), origins and pixel scales far from 0 / 1, a w_tilde of a noise map that
                 differs by 1 + 2^-30; exact comparisons as everywhere, tolerant ones relative to the decade (`rel`)
  own_*          ownership histories: three rounds of the SAME world built from fresh equal inputs with a fresh
                 Preloads; after each round the caller edits in place every array it was handed or had handed over
  layout_* / built_* / slot_layout_*   equal values as Fortran-ordered / transposed-view / strided / negative-stride /
                 read-only / float32 arrays, datasets built from another dataset's members, masks built from masks,
                 natively stored structures; the reference is the plain twin world
  conf_*         configuration histories: general.inversion.* flipped BETWEEN the inversions (item assignment or a
                 pushed directory) on reused and on fresh objects; explicit arguments as controls; the model gets the
                 diagonal value the docstrings promise, the oracle the same values passed explicitly
  options_pairwise   every constructor option of SettingsInversion / Preloads (inspect.signature) crossed pairwise with
                 each other, the solver / entry-point options, Preloads.use_w_tilde and the slots (covering array)
  reassign_slots slots of one Preloads object emptied / filled / re-assigned between the inversions of one world
  mid_* / direct_decade*   the direct numpy statement beyond 2^16 mapping-matrix elements (thorough: frames beyond
                 2^16 / 2^17 pixels, 2^15 sub-pixels), at other decades and with a nearly uniform noise map
"""
from __future__ import annotations

import copy as _copy
import functools
import hashlib
import itertools
import json
import time
import os
from fractions import Fraction

import numpy as np

import gen
from common import PropertyCheck, Skip, load_autoarray

CORE = ["w_tilde", "curvature_matrix", "regularization_matrix",
        "log_det_regularization_matrix_term", "operated_mapping_matrix"]
EXT = ["data_vector_mapper", "curvature_matrix_mapper_diag",
       "linear_func_operated_mapping_matrix_dict", "data_linear_func_matrix_dict",
       "mapper_operated_mapping_matrix_dict"]
ALL_SLOTS = CORE + EXT
ARRAY_SLOTS = [s for s in ALL_SLOTS if s != "log_det_regularization_matrix_term"]
# slots whose preloaded value is obtained by a different sequence of float operations than the
# computation it replaces
ALT_ROUTE = {"data_linear_func_matrix_dict", "mapper_operated_mapping_matrix_dict"}
# arrays the model never computes on: travel as a 2-word digest
OPAQUE = {"w_tilde", "operated_mapping_matrix", "linear_func_operated_mapping_matrix_dict",
          "data_linear_func_matrix_dict", "mapper_operated_mapping_matrix_dict"}

# the methods of Preloads that fill the slots an imaging inversion consults
SETTERS = ["set_w_tilde_imaging", "set_operated_mapping_matrix_with_preloads",
           "set_linear_func_inversion_dicts", "set_curvature_matrix",
           "set_regularization_matrix_and_term"]

ACCESSES = ["operated_mapping_matrix", "data_vector", "curvature_matrix", "regularization_matrix",
            "curvature_reg_matrix", "reconstruction", "mapped_reconstructed_data",
            "regularization_term", "log_det_curvature_reg_matrix_term",
            "log_det_regularization_matrix_term"]
BEHIND_SOLVER = {"reconstruction", "mapped_reconstructed_data", "regularization_term"}
BEHIND_CHOLESKY = {"log_det_curvature_reg_matrix_term"}



def _unusual_psf_default():
    """non-square / signed PSFs broke the w-tilde formalism on the tree as first read (defects D2, D3);
    both repairs (C04's patches, /repo commits 8d3de88 and f33c4bb) have landed, so they are generated by
    default.  C15_UNUSUAL_PSF=0 restricts the generators to square non-negative PSFs again."""
    return os.environ.get("C15_UNUSUAL_PSF", "1") == "1"


UNUSUAL_PSF = _unusual_psf_default()

# the code state the Lean model mirrors (Model.Preload.Policy.repaired: fixes D151 + D152 applied)
POLICY = {"copy_curvature": True, "copy_dvm": True, "copy_diag": True, "guard_dvm": True}

NAN_BITS = 0x7FF8000000000000


# --------------------------------------------------------------------------------------------------
# numbers <-> bit patterns
# --------------------------------------------------------------------------------------------------
def bits_of(a):
    arr = np.ascontiguousarray(np.array(a, dtype=np.float64)).ravel()
    return arr.view(np.uint64).tolist()


def floats_of(bits):
    return np.array(bits, dtype=np.uint64).view(np.float64)


def digest(*arrays):
    """2-word stand-in for an array the model only passes around (finite doubles in [1,2))."""
    h = hashlib.sha1()
    for a in arrays:
        arr = np.ascontiguousarray(np.asarray(a))
        h.update(str(arr.dtype).encode())
        h.update(str(arr.shape).encode())
        h.update(arr.tobytes())
    d = h.digest()
    out = []
    for i in (0, 8):
        v = int.from_bytes(d[i:i + 8], "little") & ((1 << 52) - 1)
        out.append(0x3FF0000000000000 | v)
    return out


def fbits(x):
    return bits_of([float(x)])[0]


# --------------------------------------------------------------------------------------------------
# worlds
# --------------------------------------------------------------------------------------------------
@functools.lru_cache(maxsize=1 << 16)
def _frac_str(v):
    return float(Fraction(v))


def _frac(v):
    # the same strings recur tens of thousands of times per run: parse each once
    if isinstance(v, str):
        return _frac_str(v)
    return float(Fraction(v))


class World:
    """the real objects of one case, freshly built (nothing is shared between cases)"""

    def __init__(self, aa, w):
        self.aa = aa
        self.spec = w
        H, W = w["h"], w["w"]
        m = np.array([c == "1" for c in w["mask"]], dtype=bool).reshape(H, W)
        ps = w.get("pixel_scales", 1.0)
        if isinstance(ps, (list, tuple)):
            ps = tuple(_frac(v) for v in ps)
        elif isinstance(ps, str):
            ps = _frac(ps)
        okw = {}
        if w.get("origin") is not None:
            okw["origin"] = tuple(_frac(v) for v in w["origin"])
        via = w.get("ds_via")
        self.inputs = []  # the numpy arrays this caller built and handed over
        self.mask = aa.Mask2D(mask=m, pixel_scales=ps, **okw)
        if via == "mask_of_mask":
            # a structure built from another structure, with the explicit (equal) origin
            self.mask = aa.Mask2D(mask=self.mask, pixel_scales=ps, origin=okw.get("origin", (0.0, 0.0)))
        kern = self._arr([[_frac(v) for v in row] for row in w["psf"]])
        psf = aa.Kernel2D.no_mask(values=kern, pixel_scales=ps)
        dvals = self._arr(np.array([_frac(v) for v in w["data"]]).reshape(H, W).tolist())
        nvals = self._arr(np.array([_frac(v) for v in w["noise"]]).reshape(H, W).tolist())
        if via == "native":
            # natively stored structures on an all-unmasked mask instead of the slim default
            full = aa.Mask2D.all_false(shape_native=(H, W), pixel_scales=ps, **okw)
            data = aa.Array2D(values=dvals, mask=full, store_native=True)
            noise = aa.Array2D(values=nvals, mask=full, store_native=True)
        else:
            data = aa.Array2D.no_mask(values=dvals, pixel_scales=ps, **okw)
            noise = aa.Array2D.no_mask(values=nvals, pixel_scales=ps, **okw)
        self.ds = aa.Imaging(data=data, noise_map=noise, psf=psf,
                             use_normalized_psf=w.get("normalize_psf", True)).apply_mask(mask=self.mask)
        if via == "parts":
            # a dataset built from the (masked) members of another dataset; its PSF is normalized already
            self.ds = aa.Imaging(data=self.ds.data, noise_map=self.ds.noise_map, psf=self.ds.psf,
                                 use_normalized_psf=False)
        self.n = int(self.mask.pixels_in_mask)
        self.objs = [self._obj(o) for o in w["objs"]]

    def _arr(self, nested):
        """array-valued input in the world's dtype / container / memory layout: float64 ndarray (default), int64
        ndarray or nested Python int lists for integer-valued worlds, Fortran-ordered / transposed-view /
        strided / read-only / float32 arrays (the results must be the same real numbers)"""
        w = self.spec
        if w.get("int_inputs"):
            ints = np.array(nested, dtype=np.float64)
            assert np.all(ints == np.round(ints))
            ints = ints.astype(np.int64)
            if w.get("container") == "list":
                return ints.tolist()
            out = layout_of(ints, w.get("layout"))
            self.inputs.append(out)
            return out
        a = np.array(nested, dtype=np.float64)
        if w.get("container") == "list":
            return a.tolist()
        out = layout_of(a, w.get("layout"))
        self.inputs.append(out)
        return out

    def _obj(self, o):
        aa = self.aa
        reg = None
        if o.get("reg") is not None:
            reg = aa.reg.Constant(coefficient=_frac(o["reg"]))
        if o["kind"] == "mapper":
            ovs = aa.OverSamplerUniform(mask=self.mask, sub_size=o.get("sub", 1))
            grid = ovs.over_sampled_grid
            mesh = aa.mesh.Rectangular(shape=tuple(o["shape"]))
            mg = mesh.mapper_grids_from(mask=self.mask, border_relocator=None,
                                        source_plane_data_grid=grid)
            return aa.Mapper(mapper_grids=mg, over_sampler=ovs, regularization=reg)
        grid = aa.Grid2D.from_mask(mask=self.mask)
        mm = np.array([[_frac(v) for v in row] for row in o["mm"]])[: self.n]
        if self.spec.get("int_inputs"):
            mm = mm.astype(np.int64)
        self.inputs.append(mm)
        ov = None
        if o.get("override"):
            # what PyAutoGalaxy's linear light profiles supply: the already-operated matrix
            ov = self.ds.convolver.convolve_mapping_matrix(mapping_matrix=mm)
            self.inputs.append(ov)
        return aa.m.MockLinearObjFuncList(parameters=mm.shape[1], grid=grid, mapping_matrix=mm,
                                          regularization=reg, operated_mapping_matrix_override=ov)

    def settings(self, use_w_tilde, case):
        return settings_of(self.aa, use_w_tilde, case)

    def dataset_for(self, case):
        """the dataset object handed to the factory: the Imaging itself or the generic DatasetInterface"""
        if case.get("entry") == "interface":
            ds = self.ds
            return self.aa.DatasetInterface(data=ds.data, noise_map=ds.noise_map, grids=ds.grids,
                                            convolver=ds.convolver, w_tilde=ds.w_tilde)
        return self.ds


def settings_of(aa, use_w_tilde, case):
    """SettingsInversion of a case: `pos` None = config default (positive-only), `diag_value` None = config
    default of no_regularization_add_to_curvature_diag_value (1e-3), else the explicit value (0, 1e-3, 1e-2)"""
    kw = {}
    if case.get("diag_value") is not None:
        kw["no_regularization_add_to_curvature_diag_value"] = _frac(case["diag_value"])
    if case.get("p_initial") is not None:
        kw["positive_only_uses_p_initial"] = case["p_initial"]
    # any further constructor option of SettingsInversion (introspected, R5-F); values are JSON-able
    kw.update(case.get("settings_kw") or {})
    return aa.SettingsInversion(use_w_tilde=use_w_tilde, use_positive_only_solver=case["pos"], **kw)


def explicit_settings_of(aa, use_w_tilde, case, eff):
    """the control of a configuration history: the values in force passed as explicit arguments"""
    kw = dict(case.get("settings_kw") or {})
    return aa.SettingsInversion(use_w_tilde=use_w_tilde, use_positive_only_solver=eff["pos"],
                                positive_only_uses_p_initial=eff["p_initial"],
                                no_regularization_add_to_curvature_diag_value=eff["diag"], **kw)


def pos_eff(case):
    return True if case["pos"] is None else bool(case["pos"])


NEAR = 1.0 + 2.0 ** -30  # relative 9.3e-10: a different number, inside every np.isclose / allclose default


def is_foreign(case):
    return case.get("wt_kind") in ("foreign", "foreign_near")


def foreign_factor(case):
    """factor on the noise map a foreign w_tilde was computed for: 2 ("foreign") or 1 + 2^-30 ("foreign_near":
    at a world scale of 2^-40 the absolute difference is ~1e-21)"""
    return {"foreign": 2.0, "foreign_near": NEAR}.get(case.get("wt_kind"), 1.0)


def make_inversion(aa, wd, case, st, **kw):
    """the public entry points to the same factory: aa.Inversion (= inversion_from) or
    inversion_imaging_from, on the Imaging dataset or a DatasetInterface"""
    ds = wd.dataset_for(case)
    if case.get("entry") == "imaging_from":
        from autoarray.inversion.inversion.factory import inversion_imaging_from

        return inversion_imaging_from(dataset=ds, linear_obj_list=wd.objs, settings=st, **kw)
    return aa.Inversion(dataset=ds, linear_obj_list=wd.objs, settings=st, **kw)


def world_cfg(w):
    """the control-flow facts of Model.Preload.Cfg, from the world spec alone"""
    objs = w["objs"]
    dims = []
    for o in objs:
        dims.append(o["shape"][0] * o["shape"][1] if o["kind"] == "mapper" else len(o["mm"][0]))
    no_reg = []
    pos = 0
    for o, d in zip(objs, dims):
        if o.get("reg") is None:
            no_reg += list(range(pos, pos + d))
        pos += d
    return {
        "all_func_lists": all(o["kind"] == "func" for o in objs),
        "has_func_list": any(o["kind"] == "func" for o in objs),
        "n_mappers": sum(o["kind"] == "mapper" for o in objs),
        "n_objs": len(objs),
        "has_reg": any(o.get("reg") is not None for o in objs),
        "all_reg": all(o.get("reg") is not None for o in objs),
        "func_override": any(o["kind"] == "func" and o.get("override") for o in objs),
        "no_reg_idx": no_reg,
        "dim": sum(dims),
        "_dims": dims,
    }


def factory_choice(wc, settings_w, pre_use_w):
    """independent restatement of what the property calls 'the factory's choice'"""
    if not settings_w or wc["all_func_lists"]:
        return False
    return settings_w if pre_use_w is None else pre_use_w


def ranges(wc, w, kind):
    out, pos = [], 0
    for o, d in zip(w["objs"], wc["_dims"]):
        if o["kind"] == kind:
            out.append((pos, pos + d))
        pos += d
    return out


# --------------------------------------------------------------------------------------------------
# reading an inversion
# --------------------------------------------------------------------------------------------------
def read(inv, name):
    """one read, copied out at once; opaque arrays as digests"""
    v = getattr(inv, name)
    arr = np.array(v, dtype=np.float64, copy=True)
    if name == "operated_mapping_matrix":
        return digest(arr)
    return bits_of(arr)


def read_all(inv, names):
    return [read(inv, n) for n in names]


def wt_arrays(wt):
    return [np.asarray(wt.curvature_preload), np.asarray(wt.indexes), np.asarray(wt.lengths),
            np.asarray([float(wt.noise_map_value)])]


def slot_arrays(name, val):
    """the numpy buffers a slot value owns (for fingerprints / digests)"""
    if val is None:
        return []
    if name == "w_tilde":
        return wt_arrays(val)
    if isinstance(val, dict):
        return [np.asarray(v) for v in val.values()]
    return [np.asarray(val)]


def slot_cell(name, val):
    """heap cell of an array slot for the model"""
    if name in OPAQUE:
        return digest(*slot_arrays(name, val))
    return bits_of(val)


def fingerprint(name, val):
    return [hashlib.sha1(np.ascontiguousarray(a).tobytes()).hexdigest() for a in slot_arrays(name, val)]


class Tables:
    """finite samples of Model.Preload.Ext, keyed exactly as the driver expects"""

    def __init__(self):
        self.t = {}

    def const(self, k, v):
        self.t[k] = v

    def add(self, k, *row):
        rows = self.t.setdefault(k, [])
        if list(row) not in rows:
            rows.append(list(row))


def writes_of(mat, dim, rr, cc):
    out = []
    for (a, b) in rr:
        for (c, d) in cc:
            for i in range(a, b):
                for j in range(c, d):
                    out.append([i * dim + j, fbits(mat[i, j])])
    return out


# --------------------------------------------------------------------------------------------------
# round 4: reuse histories (one Preloads / settings / dataset / linear objects across two worlds)
# --------------------------------------------------------------------------------------------------
TINY = Fraction(1, 1 << 18)  # relative 3.8e-6: inside np.allclose's default rtol, far outside 1e-9
TINY_ABS = Fraction(1, 1 << 33)  # 1.2e-10 absolute, for values that are exactly zero

NON_ALT_SLOTS = [s for s in ALL_SLOTS if s not in ALT_ROUTE]

# the public setter of preloads.py that (re)fills a slot
SETTER_OF = {
    "operated_mapping_matrix": "set_operated_mapping_matrix_with_preloads",
    "linear_func_operated_mapping_matrix_dict": "set_linear_func_inversion_dicts",
    "data_linear_func_matrix_dict": "set_linear_func_inversion_dicts",
    "curvature_matrix": "set_curvature_matrix",
    "data_vector_mapper": "set_curvature_matrix",
    "curvature_matrix_mapper_diag": "set_curvature_matrix",
    "mapper_operated_mapping_matrix_dict": "set_curvature_matrix",
    "regularization_matrix": "set_regularization_matrix_and_term",
    "log_det_regularization_matrix_term": "set_regularization_matrix_and_term",
}

# every other public derived quantity of the objects involved (read BEFORE the observed reads; all are pure)
DECOYS_INV = [
    "total_params", "regularization_list", "all_linear_obj_have_regularization", "mapper_edge_pixel_list",
    "total_regularizations", "no_regularization_index_list", "mask", "mapping_matrix",
    "operated_mapping_matrix_list", "regularization_matrix_reduced", "curvature_reg_matrix_reduced",
    "reconstruction_reduced", "reconstruction_dict", "mapped_reconstructed_data_dict",
    "mapped_reconstructed_image_dict", "mapped_reconstructed_image", "data_subtracted_dict",
    "reconstruction_noise_map", "reconstruction_noise_map_dict", "regularization_weights_mapper_dict",
    "_data_vector_mapper", "_curvature_matrix_mapper_diag", "linear_func_operated_mapping_matrix_dict",
    "data_linear_func_matrix_dict", "mapper_operated_mapping_matrix_dict", "mapper_zero_pixel_list",
    "curvature_reg_matrix", "log_det_curvature_reg_matrix_term", "regularization_term",
]
DECOYS_OTHER = ["pre.info", "pre.check_threshold", "ds.w_tilde", "ds.convolver", "ds.grids",
                "other_formalism"]


def apply_edit(w, e):
    """world B of a reuse history: world A with ONE ingredient changed (pure function on the JSON spec)"""
    w2 = json.loads(json.dumps(w))
    k = e["kind"]
    if k == "none":  # ownership / configuration / re-assignment histories: the same world throughout
        return w2
    if k == "reg":
        w2["objs"][e["obj"]]["reg"] = e["value"]
    elif k in ("data", "noise"):
        for idx, val in e["set"]:
            w2[k][idx] = val
    elif k == "func":
        for r, c, val in e["set"]:
            w2["objs"][e["obj"]]["mm"][r][c] = val
    elif k == "psf":
        for r, c, val in e["set"]:
            w2["psf"][r][c] = val
    elif k == "mask":
        m = list(w2["mask"])
        m[e["idx"]] = "1"
        w2["mask"] = "".join(m)
    else:
        raise ValueError(k)
    return w2


def same_value(a, b):
    """bitwise equality of two slot values (arrays, lists / dicts of arrays, floats, WTildeImaging, None)"""
    if a is None or b is None:
        return a is None and b is None
    if hasattr(a, "curvature_preload") or hasattr(b, "curvature_preload"):
        if not (hasattr(a, "curvature_preload") and hasattr(b, "curvature_preload")):
            return False
        return same_value(wt_arrays(a), wt_arrays(b))
    if isinstance(a, dict):
        a = list(a.values())
    if isinstance(b, dict):
        b = list(b.values())
    if isinstance(a, (list, tuple)) or isinstance(b, (list, tuple)):
        if not (isinstance(a, (list, tuple)) and isinstance(b, (list, tuple))) or len(a) != len(b):
            return False
        return all(same_value(x, y) for x, y in zip(a, b))
    if isinstance(a, float) or isinstance(b, float):
        return fbits(a) == fbits(b)
    x, y = np.asarray(a), np.asarray(b)
    return x.shape == y.shape and x.dtype == y.dtype and x.tobytes() == y.tobytes()


def owned_copy(name, v, readonly=False, lay=None):
    """a caller-owned copy of a slot value in the form Preloads takes it (optionally in another memory layout)"""
    if v is None:
        return None
    if name == "w_tilde" or isinstance(v, float):
        return v
    if isinstance(v, dict):
        v = list(v.values())
    if isinstance(v, list):
        out = {i: layout_of(np.array(a, copy=True), lay) for i, a in enumerate(v)}
        if readonly:
            for a in out.values():
                a.flags.writeable = False
        return out
    out = layout_of(np.array(v, copy=True), lay)
    if readonly:
        out.flags.writeable = False
    return out


# --------------------------------------------------------------------------------------------------
# round 5/6: decades, layouts, ownership, configuration, options (design_notes/C15.md "Round 5/6 hardening")
# --------------------------------------------------------------------------------------------------
LAYOUTS = ["fortran", "tview", "strided", "negstride", "readonly", "float32"]
SLOT_LAYOUTS = ["fortran", "tview", "strided", "negstride", "readonly"]
# numpy hands arrays to BLAS / LAPACK as they lie in memory: a preloaded matrix in another memory order is summed in
# another order (s^T H s, A^T A, the solver), so reads downstream of a re-laid-out slot agree to rounding, not bit for
# bit — 1e-9 as for the alternative routes.  (Bytes of the preloads and repeatability stay exact.)
SOFT_LAYOUTS = {"fortran", "tview", "strided", "negstride"}
# keys of a world spec that change HOW equal values are handed over, never the values: the preload-free
# reference of such a world is computed from its plain twin (C-contiguous float64 arrays, plain constructors)
VARIANT_KEYS = ("layout", "ds_via")
# (masking a dataset a second time is NOT among them: Imaging.apply_mask normalizes the PSF again, which moves its
#  last bits, so a twice-masked dataset is a slightly different dataset)
DS_VIAS = ["parts", "mask_of_mask", "native"]


def layout_of(a, how):
    """an equal-valued array in another memory layout / dtype (R5-C): Fortran order, a transposed view of a
    C buffer, a strided slice of a larger buffer, negative strides, read-only, float32 (only exact values)"""
    if how is None:
        return a
    a = np.asarray(a)
    if how == "fortran":
        return np.asfortranarray(a)
    if how == "tview":
        return np.ascontiguousarray(a.T).T
    if how == "strided":
        big = np.full(tuple(2 * s + 1 for s in a.shape), 7.25, dtype=a.dtype)
        sl = tuple(slice(1, None, 2) for _ in a.shape)
        big[sl] = a
        return big[sl]
    if how == "negstride":
        rev = (slice(None, None, -1),) * a.ndim
        return np.ascontiguousarray(a[rev])[rev]
    if how == "readonly":
        b = np.array(a, copy=True)
        b.flags.writeable = False
        return b
    if how == "float32":
        if a.dtype != np.float64:
            return a
        b = a.astype(np.float32)
        return b if np.array_equal(b.astype(np.float64), a) else a
    raise ValueError(how)


def plain_world(w):
    if not any(w.get(k) for k in VARIANT_KEYS):
        return w
    return {k: v for k, v in w.items() if k not in VARIANT_KEYS}


def _pow2(k):
    return Fraction(2) ** int(k)


def scale_world(w, data=0, noise=0, psf=0, func=0, reg=0):
    """the world with whole ingredients multiplied by exact powers of two (R5-A / R5-E): every value stays an
    exact rational string, hence an exact double as long as it is inside the normal range"""
    w2 = json.loads(json.dumps(w))

    def sc(v, k):
        return str(Fraction(v) * _pow2(k))

    if data:
        w2["data"] = [sc(v, data) for v in w2["data"]]
    if noise:
        w2["noise"] = [sc(v, noise) for v in w2["noise"]]
    if psf:
        w2["psf"] = [[sc(v, psf) for v in r] for r in w2["psf"]]
        w2["normalize_psf"] = False
    for o in w2["objs"]:
        if func and o["kind"] == "func":
            o["mm"] = [[sc(v, func) for v in r] for r in o["mm"]]
        if reg and o.get("reg") is not None:
            o["reg"] = sc(o["reg"], reg)
    if data or noise or psf or func or reg:
        w2["int_inputs"] = False
    return w2


_PINNED = {}


def pinned_inversion_config():
    """the `inversion` section of the pinned harness configuration, read from the YAML file itself (never
    through the code under test)"""
    if not _PINNED:
        import yaml
        from common import VERIF

        with open(VERIF / "harness" / "config" / "general.yaml") as f:
            _PINNED.update(yaml.safe_load(f)["inversion"])
    return dict(_PINNED)


CONF_KEYS = {"diag": "no_regularization_add_to_curvature_diag_value", "pos": "use_positive_only_solver",
             "p_initial": "positive_only_uses_p_initial", "check": "check_reconstruction",
             "border": "use_border_relocator"}


def conf_values(conf):
    """{config key: python value} of a phase's configuration descriptor ({"diag": "1/64", "pos": False, ...})"""
    out = {}
    for k, v in (conf or {}).items():
        out[CONF_KEYS[k]] = _frac(v) if k == "diag" else v
    return out


class conf_in_force:
    """context manager: the values of general.inversion.* in force while a phase runs — set either by item
    assignment on the live configuration or by pushing a configuration directory in front — and restored
    afterwards, also on exceptions (R5-D)"""

    def __init__(self, conf, how="item"):
        self.vals = conf_values(conf)
        self.how = how or "item"

    def __enter__(self):
        if not self.vals:
            return self
        from autoconf import conf

        inst = conf.instance
        self.inst = inst
        self.before = {k: inst["general"]["inversion"][k] for k in self.vals if k in inst["general"]["inversion"]}
        if self.how == "push":
            import tempfile
            import yaml

            self.saved_configs = list(inst.configs)
            self.tmp = tempfile.mkdtemp(prefix="c15conf_")
            with open(os.path.join(self.tmp, "general.yaml"), "w") as f:
                yaml.safe_dump({"inversion": dict(self.vals)}, f)
            inst.push(new_path=self.tmp)
        else:
            sec = inst["general"]["inversion"]
            self.saved = {k: sec[k] for k in self.vals if k in sec}
            self.added = [k for k in self.vals if k not in sec]
            for k, v in self.vals.items():
                sec[k] = v
        return self

    def __exit__(self, *exc_info):
        if not self.vals:
            return False
        if self.how == "push":
            import shutil

            self.inst.configs = self.saved_configs
            shutil.rmtree(self.tmp, ignore_errors=True)
        else:
            sec = self.inst["general"]["inversion"]
            for k, v in self.saved.items():
                sec[k] = v
            for k in self.added:
                try:
                    del sec[k]
                except Exception:
                    pass
        now = self.inst["general"]["inversion"]
        for k, v in self.before.items():
            if now[k] != v:  # the harness must leave the pinned configuration exactly as it found it
                raise RuntimeError(f"harness: configuration value {k} not restored ({now[k]!r} != {v!r})")
        return False


def effective_settings(case, conf=None):
    """what the docstrings of SettingsInversion promise: an explicit argument wins, None follows the configuration
    in force at call time"""
    pinned = pinned_inversion_config()
    cv = conf_values(conf)

    def pick(arg, key):
        if arg is not None:
            return arg
        return cv.get(key, pinned[key])

    diag = case.get("diag_value")
    return {"diag": float(pick(None if diag is None else _frac(diag), CONF_KEYS["diag"])),
            "pos": bool(pick(case.get("pos"), CONF_KEYS["pos"])),
            "p_initial": bool(pick(case.get("p_initial"), CONF_KEYS["p_initial"]))}


def raw_array(v):
    """the numpy buffer behind an autoarray structure / ndarray (None for anything else)"""
    if hasattr(v, "_array") and isinstance(getattr(v, "_array"), np.ndarray):
        return v._array
    if isinstance(v, np.ndarray):
        return v
    return None


def arrays_behind(obj, depth=2, _seen=None):
    """every numpy buffer reachable from a returned / accepted object: the object itself, the values of a dict /
    list, and (to `depth`) the ndarray-valued attributes already present in its __dict__ (cached properties
    included; nothing is computed)"""
    _seen = _seen if _seen is not None else set()
    out = []
    if obj is None or id(obj) in _seen or isinstance(obj, (str, bytes, int, float, bool)):
        return out
    _seen.add(id(obj))
    a = raw_array(obj)
    if a is not None:
        out.append(a)
    if isinstance(obj, dict):
        for v in list(obj.values()):
            out += arrays_behind(v, depth, _seen)
        return out
    if isinstance(obj, (list, tuple)):
        for v in obj[:64]:
            out += arrays_behind(v, depth, _seen)
        return out
    if depth > 0 and hasattr(obj, "__dict__"):
        for v in list(vars(obj).values()):
            if raw_array(v) is not None or (depth > 1 and hasattr(v, "__dict__")) or isinstance(v, (dict, list)):
                out += arrays_behind(v, depth - 1, _seen)
    return out


def scribble(arrays, how):
    """the caller edits, in place, arrays it was handed or had handed over (R5-B); returns how many it could"""
    done, seen = 0, set()
    for a in arrays:
        if a is None or id(a) in seen or a.size == 0:
            continue
        seen.add(id(a))
        try:
            if a.dtype == bool:
                a[...] = ~a
            elif np.issubdtype(a.dtype, np.floating):
                if how == "nan":
                    a[...] = np.nan
                else:
                    a += 1.0
            elif np.issubdtype(a.dtype, np.integer):
                a += 1
            else:
                continue
            done += 1
        except (ValueError, TypeError):
            pass  # read-only buffers cannot be edited by the caller either
    return done


def pairwise_rows(rng, factors, tries=24, cap=80):
    """rows (dicts factor -> level) that together contain every pair of levels of every two factors at least once
    (greedy covering array; `factors` = {name: [levels]}, first level = default)"""
    names = sorted(factors)
    uncovered = set()
    for i, a in enumerate(names):
        for b in names[i + 1:]:
            for x in range(len(factors[a])):
                for y in range(len(factors[b])):
                    uncovered.add((a, x, b, y))
    def unc(a, x, b, y):
        return ((a, x, b, y) if a < b else (b, y, a, x)) in uncovered

    rows = []
    while uncovered and len(rows) < cap:
        best, best_gain = None, -1
        seed_pair = rng.choice(sorted(uncovered))
        for _ in range(max(1, tries // 4)):
            # AETG-style: start from an uncovered pair, then give every other factor (random order) the level that
            # covers most still-uncovered pairs with the factors assigned so far
            row = {seed_pair[0]: seed_pair[1], seed_pair[2]: seed_pair[3]}
            rest = [n for n in names if n not in row]
            rng.shuffle(rest)
            gain = 1
            for n in rest:
                scores = [sum(1 for m, x in row.items() if unc(n, lv, m, x)) for lv in range(len(factors[n]))]
                top = max(scores)
                row[n] = rng.choice([lv for lv, sc in enumerate(scores) if sc == top])
                gain += top
            if gain > best_gain:
                best, best_gain = row, gain
        for i, a in enumerate(names):
            for b in names[i + 1:]:
                uncovered.discard((a, best[a], b, best[b]))
        rows.append({n: factors[n][best[n]] for n in names})
    return rows


# --------------------------------------------------------------------------------------------------
# round 4: large worlds (sizes on both sides of a new integer constant), judged without the model
# --------------------------------------------------------------------------------------------------
def ref_blur(M, ys, xs, H, W, K):
    """TRUE convolution of every column of M (values at the unmasked pixels (ys, xs), zero elsewhere) with the
    kernel K, gathered at the unmasked pixels:  out[p] = sum_ij full[p + half - (i, j)] * K[i, j]  (numpy only)"""
    kh, kw = K.shape
    hy, hx = kh // 2, kw // 2
    n, P = M.shape
    out = np.zeros((n, P))
    step = max(1, int(4.0e7 // max(1, (H + 2 * hy) * (W + 2 * hx))))
    for c0 in range(0, P, step):
        Mc = M[:, c0:c0 + step]
        cube = np.zeros((H + 2 * hy, W + 2 * hx, Mc.shape[1]))
        cube[ys + hy, xs + hx, :] = Mc
        acc = np.zeros((n, Mc.shape[1]))
        for i in range(kh):
            for j in range(kw):
                if K[i, j] != 0.0:
                    acc += K[i, j] * cube[ys + 2 * hy - i, xs + 2 * hx - j, :]
        out[:, c0:c0 + step] = acc
    return out


class LargeWorld:
    """real objects of a large case, from a compact spec (mask block, seeds) — built with numpy"""

    def __init__(self, aa, spec):
        self.aa = aa
        self.spec = spec
        H, W = spec["h"], spec["w"]
        y0, x0, bh, bw = spec["block"]
        n = spec["n"]
        yy, xx = np.meshgrid(np.arange(y0, y0 + bh), np.arange(x0, x0 + bw), indexing="ij")
        yy, xx = yy.ravel(), xx.ravel()
        keep = ((yy * 7 + xx * 3) % 11) != 0 if spec.get("holes") else np.ones(len(yy), bool)
        yy, xx = yy[keep][:n], xx[keep][:n]
        assert len(yy) == n, "mask block too small for the requested number of unmasked pixels"
        m = np.ones((H, W), dtype=bool)
        m[yy, xx] = False
        self.m = m
        self.ys, self.xs = np.nonzero(~m)  # row-major = slim order
        self.n = n
        ps = tuple(spec.get("pixel_scales", (1.0, 0.5)))
        rng = np.random.default_rng(spec["seed"])
        self.data_native = rng.integers(-24, 41, size=(H, W)) / 8.0
        self.noise_native = rng.integers(2, 13, size=(H, W)) / 4.0
        k = spec["psf"]
        lo = -6 if k.get("signed") else 0
        K = rng.integers(lo, 9, size=(k["kh"], k["kw"])) / 8.0
        K[k["kh"] // 2, k["kw"] // 2] = 1.0 + float(rng.integers(0, 5)) / 8.0
        if K.sum() == 0:
            K[k["kh"] // 2, k["kw"] // 2] += 1.0
        self.normalize = not k.get("signed")
        if spec.get("near_uniform_noise"):
            # R5-A: a noise map that is NOT uniform but passes every allclose / isclose default (spread 2^-30 .. 2^-26)
            r3 = np.random.default_rng(spec["seed"] + 77)
            self.noise_native = 2.5 * (1.0 + r3.integers(0, 16, size=(H, W)) * 2.0 ** -30)
        if spec.get("scale_k"):
            # R5-A / R5-E: the whole world at another decade (exact: powers of two)
            self.data_native = np.ldexp(self.data_native, int(spec.get("scale_k_data", spec["scale_k"])))
            self.noise_native = np.ldexp(self.noise_native, int(spec["scale_k"]))
        self.K_raw = K
        self.K = K / K.sum() if self.normalize else K
        self.mask = aa.Mask2D(mask=m, pixel_scales=ps)
        self.ds = aa.Imaging(
            data=aa.Array2D.no_mask(values=self.data_native, pixel_scales=ps),
            noise_map=aa.Array2D.no_mask(values=self.noise_native, pixel_scales=ps),
            psf=aa.Kernel2D.no_mask(values=K, pixel_scales=ps),
            use_normalized_psf=self.normalize).apply_mask(mask=self.mask)
        self.d = self.data_native[self.ys, self.xs]
        self.sig = self.noise_native[self.ys, self.xs]
        self.objs, self.mms, self.overrides, self.dims, self.regs = [], [], [], [], []
        for o in spec["objs"]:
            reg = None if o.get("reg") is None else aa.reg.Constant(coefficient=_frac(o["reg"]))
            if o["kind"] == "mapper":
                ovs = aa.OverSamplerUniform(mask=self.mask, sub_size=o.get("sub", 1))
                grid = ovs.over_sampled_grid
                mesh = aa.mesh.Rectangular(shape=tuple(o["shape"]))
                mg = mesh.mapper_grids_from(mask=self.mask, border_relocator=None, source_plane_data_grid=grid)
                obj = aa.Mapper(mapper_grids=mg, over_sampler=ovs, regularization=reg)
                self.mms.append(None)  # taken from the mapper (C06's business) when the reference is built
                self.overrides.append(None)
                self.dims.append(o["shape"][0] * o["shape"][1])
            else:
                r2 = np.random.default_rng(o["seed"])
                p = o["p"]
                mm = r2.integers(-8 if o.get("signed") else 0, 13, size=(n, p)) / 8.0
                for c in range(p):
                    mm[(c * 3 + 1) % n, c] = (16 + c % 7) / 8.0
                ov = ref_blur(mm, self.ys, self.xs, H, W, self.K) if o.get("override") else None
                obj = aa.m.MockLinearObjFuncList(parameters=p, grid=aa.Grid2D.from_mask(mask=self.mask),
                                                 mapping_matrix=mm, regularization=reg,
                                                 operated_mapping_matrix_override=ov)
                self.mms.append(mm)
                self.overrides.append(ov)
                self.dims.append(p)
            self.regs.append(reg is not None)
            self.objs.append(obj)
        self.P = sum(self.dims)
        self.no_reg_idx = []
        pos = 0
        for d_, r in zip(self.dims, self.regs):
            if not r:
                self.no_reg_idx += list(range(pos, pos + d_))
            pos += d_

    def reference(self, diag_value):
        """the normal equations stated directly: A = true convolution of the mapping matrices,
        D = A^T (d / sigma^2), F = A^T diag(sigma^-2) A (+ the diagonal term at unregularized parameters)"""
        H, W = self.spec["h"], self.spec["w"]
        blocks = []
        for obj, mm, ov in zip(self.objs, self.mms, self.overrides):
            if ov is not None:
                blocks.append(ov)
                continue
            M = np.array(obj.mapping_matrix, dtype=np.float64) if mm is None else mm
            blocks.append(ref_blur(M, self.ys, self.xs, H, W, self.K))
        A = np.hstack(blocks)
        Aw = A / self.sig[:, None]
        F = Aw.T @ Aw
        for i in self.no_reg_idx:
            F[i, i] += diag_value
        D = A.T @ (self.d / self.sig ** 2)
        return A, D, F


# --------------------------------------------------------------------------------------------------
class C15(PropertyCheck):
    pid = "C15"
    title = "preload transparency"
    nontrivial_rule = (
        "a case is non-trivial when at least one preload slot is filled that the running formalism "
        "consults, the history has >= 2 inversions and the preload-free reference inversion succeeds; "
        "distinct = distinct (world, settings, slot subset, source, history); a reuse history counts when at "
        "least two phases ran; a large case when the numpy statement of the normal equations and the preload "
        "steps were both evaluated"
    )
    exhaustive_note = {
        "quick": "the configuration space {all 32 subsets of the five slots named in the statement (w_tilde, "
                 "curvature_matrix, regularization_matrix, log_det_regularization_matrix_term, "
                 "operated_mapping_matrix)} x {settings.use_w_tilde off, on} x {the 15 object mixes of MIXES, "
                 "including mappers without regularization} is enumerated completely on every run (960 cases, "
                 "histories of 3 inversions); the dataset of each mix (mask, PSF, data, noise, matrices, dtype / "
                 "container of the inputs) and the solver / diagonal-value / entry-point options of each "
                 "(mix, formalism) group are drawn from the seed",
        "thorough": "as quick with histories of 6 inversions, plus all 1024 subsets of the ten consulted slots "
                    "for the mapper+func, func+mapper and mapper+mapper mixes in both formalisms, and every "
                    "single setter of preloads.py for every mix",
    }
    trusted_extra = [
        "modelled, not verified (Ext parameters of Model.Preload): every numerical kernel of the inversion "
        "(PSF convolution of mapping matrices, both normal-equation formalisms, solvers, regularization "
        "matrices, numpy hstack/dot/delete, scipy block_diag/splu, numpy.linalg) — sampled from reference "
        "runs of the real code on every case",
        "Python aliasing / copy semantics: modelled by the heap of Model.Preload and OBSERVED per case by "
        "byte fingerprints of every preload array after every inversion; not provable from the source",
        "cached_property is modelled as recomputation (sound for callers that copy what they read)",
    ]
    assumptions = [
        "preloads are computed from the identical dataset, linear objects and settings",
        "IEEE addition in the Lean driver (Float) equals numpy's (same hardware doubles)",
        "non-square and signed PSFs are generated by default (C04 repairs D2/D3 are in the tree); "
        "C15_UNUSUAL_PSF=0 restricts the generators to square non-negative PSFs",
    ]
    search_budget_s = {"quick": 40, "thorough": 300}
    # every Python function / method whose control flow, aliasing or in-place writes Model/Preload.lean
    # mirrors, plus the setters and helpers the generators drive (fingerprinted by the runner)
    modelled_functions = [
        "autoarray/preloads.py:Preloads.__init__",
        "autoarray/preloads.py:Preloads.set_w_tilde_imaging",
        "autoarray/preloads.py:Preloads.set_relocated_grid",
        "autoarray/preloads.py:Preloads.set_operated_mapping_matrix_with_preloads",
        "autoarray/preloads.py:Preloads.set_linear_func_inversion_dicts",
        "autoarray/preloads.py:Preloads.set_curvature_matrix",
        "autoarray/preloads.py:Preloads.set_regularization_matrix_and_term",
        "autoarray/inversion/inversion/factory.py:inversion_from",
        "autoarray/inversion/inversion/factory.py:inversion_imaging_from",
        "autoarray/dataset/abstract/w_tilde.py:AbstractWTilde.__init__",
        "autoarray/dataset/abstract/w_tilde.py:AbstractWTilde.check_noise_map",
        "autoarray/dataset/imaging/w_tilde.py:WTildeImaging.__init__",
        "autoarray/dataset/imaging/dataset.py:Imaging.w_tilde",
        "autoarray/inversion/inversion/abstract.py:AbstractInversion.__init__",
        "autoarray/inversion/inversion/abstract.py:AbstractInversion.has",
        "autoarray/inversion/inversion/abstract.py:AbstractInversion.total",
        "autoarray/inversion/inversion/abstract.py:AbstractInversion.param_range_list_from",
        "autoarray/inversion/inversion/abstract.py:AbstractInversion.regularization_list",
        "autoarray/inversion/inversion/abstract.py:AbstractInversion.all_linear_obj_have_regularization",
        "autoarray/inversion/inversion/abstract.py:AbstractInversion.no_regularization_index_list",
        "autoarray/inversion/inversion/abstract.py:AbstractInversion.operated_mapping_matrix",
        "autoarray/inversion/inversion/abstract.py:AbstractInversion.regularization_matrix",
        "autoarray/inversion/inversion/abstract.py:AbstractInversion.regularization_matrix_reduced",
        "autoarray/inversion/inversion/abstract.py:AbstractInversion.curvature_reg_matrix",
        "autoarray/inversion/inversion/abstract.py:AbstractInversion.curvature_reg_matrix_reduced",
        "autoarray/inversion/inversion/abstract.py:AbstractInversion.reconstruction",
        "autoarray/inversion/inversion/abstract.py:AbstractInversion.reconstruction_reduced",
        "autoarray/inversion/inversion/abstract.py:AbstractInversion.mapped_reconstructed_data",
        "autoarray/inversion/inversion/abstract.py:AbstractInversion.regularization_term",
        "autoarray/inversion/inversion/abstract.py:AbstractInversion.log_det_curvature_reg_matrix_term",
        "autoarray/inversion/inversion/abstract.py:AbstractInversion.log_det_regularization_matrix_term",
        "autoarray/inversion/inversion/imaging/abstract.py:AbstractInversionImaging.__init__",
        "autoarray/inversion/inversion/imaging/abstract.py:AbstractInversionImaging.operated_mapping_matrix_list",
        "autoarray/inversion/inversion/imaging/abstract.py:AbstractInversionImaging._updated_cls_key_dict_from",
        "autoarray/inversion/inversion/imaging/abstract.py:AbstractInversionImaging.linear_func_operated_mapping_matrix_dict",
        "autoarray/inversion/inversion/imaging/abstract.py:AbstractInversionImaging.data_linear_func_matrix_dict",
        "autoarray/inversion/inversion/imaging/abstract.py:AbstractInversionImaging.mapper_operated_mapping_matrix_dict",
        "autoarray/inversion/inversion/imaging/mapping.py:InversionImagingMapping.__init__",
        "autoarray/inversion/inversion/imaging/mapping.py:InversionImagingMapping._data_vector_mapper",
        "autoarray/inversion/inversion/imaging/mapping.py:InversionImagingMapping.data_vector",
        "autoarray/inversion/inversion/imaging/mapping.py:InversionImagingMapping._curvature_matrix_mapper_diag",
        "autoarray/inversion/inversion/imaging/mapping.py:InversionImagingMapping.curvature_matrix",
        "autoarray/inversion/inversion/imaging/mapping.py:InversionImagingMapping.mapped_reconstructed_data_dict",
        "autoarray/inversion/inversion/imaging/w_tilde.py:InversionImagingWTilde.__init__",
        "autoarray/inversion/inversion/imaging/w_tilde.py:InversionImagingWTilde.w_tilde_data",
        "autoarray/inversion/inversion/imaging/w_tilde.py:InversionImagingWTilde._data_vector_mapper",
        "autoarray/inversion/inversion/imaging/w_tilde.py:InversionImagingWTilde.data_vector",
        "autoarray/inversion/inversion/imaging/w_tilde.py:InversionImagingWTilde._data_vector_x1_mapper",
        "autoarray/inversion/inversion/imaging/w_tilde.py:InversionImagingWTilde._data_vector_multi_mapper",
        "autoarray/inversion/inversion/imaging/w_tilde.py:InversionImagingWTilde._data_vector_func_list_and_mapper",
        "autoarray/inversion/inversion/imaging/w_tilde.py:InversionImagingWTilde.curvature_matrix",
        "autoarray/inversion/inversion/imaging/w_tilde.py:InversionImagingWTilde._curvature_matrix_mapper_diag",
        "autoarray/inversion/inversion/imaging/w_tilde.py:InversionImagingWTilde._curvature_matrix_off_diag_from",
        "autoarray/inversion/inversion/imaging/w_tilde.py:InversionImagingWTilde._curvature_matrix_x1_mapper",
        "autoarray/inversion/inversion/imaging/w_tilde.py:InversionImagingWTilde._curvature_matrix_multi_mapper",
        "autoarray/inversion/inversion/imaging/w_tilde.py:InversionImagingWTilde._curvature_matrix_func_list_and_mapper",
        "autoarray/inversion/inversion/imaging/w_tilde.py:InversionImagingWTilde.mapped_reconstructed_data_dict",
        "autoarray/inversion/inversion/inversion_util.py:curvature_matrix_with_added_to_diag_from",
        "autoarray/inversion/inversion/inversion_util.py:curvature_matrix_mirrored_from",
        "autoarray/inversion/inversion/inversion_util.py:curvature_matrix_via_mapping_matrix_from",
        "autoarray/inversion/inversion/inversion_util.py:reconstruction_positive_negative_from",
        "autoarray/inversion/inversion/inversion_util.py:reconstruction_positive_only_from",
        "autoarray/inversion/inversion/settings.py:SettingsInversion.__init__",
        "autoarray/inversion/pixelization/mesh/abstract.py:AbstractMesh.relocated_grid_from",
        "autoarray/inversion/pixelization/mesh/rectangular.py:Rectangular.mapper_grids_from",
    ]

    def __init__(self):
        self._ref_cache = {}

    # ------------------------------------------------------------------ generation
    MIXES = [
        ["m"], ["m", "f"], ["f", "m"], ["m", "m"], ["m", "f", "m"], ["f"], ["f", "f"], ["m", "fr"],
        ["m", "fo"], ["m", "m", "f"], ["m", "f", "fo"],
        # mappers WITHOUT regularization ("mn"): the diagonal term no_regularization_add_to_curvature_diag_value
        # then applies to mapper entries, in both formalisms, with or without func lists
        ["mn"], ["m", "mn"], ["mn", "m"], ["mn", "f"],
    ]

    @staticmethod
    def _opts(rng, world):
        """settings / entry-point options of a group of cases (explicit-vs-default, set-but-falsy values,
        alternative entry points to the same factory)"""
        unreg_mapper = any(o["kind"] == "mapper" and o.get("reg") is None for o in world["objs"])
        unreg_funcs = sum(1 for o in world["objs"] if o["kind"] == "func" and o.get("reg") is None)
        # 0.0 only where the unregularized blocks are non-singular without the diagonal term
        diag = [None, None, "1/1000", "1/100"] + ([] if unreg_mapper or unreg_funcs > 1 else ["0"])
        return {"diag_value": rng.choice(diag), "pos": rng.choice([None, False, True]),
                "p_initial": rng.choice([None, None, False, True]),
                "entry": rng.choice([None, None, "imaging_from", "interface"])}

    def _world(self, rng, mix, unusual=False, tiny=None):
        H, W = rng.choice([(7, 7), (7, 8), (8, 7), (8, 9), (9, 8), (9, 9), (8, 8), (7, 9)])
        if unusual:
            kh, kw = rng.choice([(3, 5), (5, 3), (1, 3), (3, 1), (3, 3)])
        else:
            kh, kw = 3, 3
        my, mx = kh // 2 + (1 if kh == 1 else 0), kw // 2 + (1 if kw == 1 else 0)
        my, mx = max(my, 1), max(mx, 1)
        for _ in range(50):
            m, kind = gen.random_mask(rng, H, W, margin=max(my, mx),
                                      kind=rng.choice(["block", "blocks", "annulus", "cross", "diagonal",
                                                       "bernoulli", "all"]))
            n = sum(1 for r in m for b in r if not b)
            if 5 <= n <= 24:
                break
        else:
            m = gen.mask_block(H, W, 2, H - 2, 2, W - 2)
            kind = "block"
        if tiny is not None:
            # degenerate sizes: exactly `tiny` (1 or 2) unmasked pixels
            m = gen.full(H, W)
            y0, x0 = rng.randint(max(my, mx), H - 1 - max(my, mx)), rng.randint(max(my, mx), W - 2 - max(my, mx))
            for t in range(tiny):
                m[y0][x0 + t] = False
            kind = f"tiny{tiny}"
        n = sum(1 for r in m for b in r if not b)
        signed = unusual and rng.random() < 0.6
        # a share of the worlds has integer-valued inputs handed over as int64 arrays / nested int lists
        ints = rng.random() < 0.22
        den = 1 if ints else 8
        psf = [[Fraction(rng.randint(-6 if signed else 0, 8), den) if not ints else
                Fraction(rng.randint(-2 if signed else 0, 4)) for _ in range(kw)] for _ in range(kh)]
        psf[kh // 2][kw // 2] = Fraction(rng.randint(4, 8), den)
        if sum(sum(r) for r in psf) == 0:
            psf[kh // 2][kw // 2] += 1
        if ints:
            data = [Fraction(rng.randint(-4, 9)) for _ in range(H * W)]
            noise = [Fraction(rng.randint(1, 4)) for _ in range(H * W)]
        else:
            data = [Fraction(rng.randint(-24, 40), 8) for _ in range(H * W)]
            noise = [Fraction(rng.randint(2, 12), 4) for _ in range(H * W)]
        objs = []
        for code in mix:
            if code[0] == "m":
                objs.append({"kind": "mapper", "shape": list(rng.choice([(3, 3), (3, 4), (4, 3)])),
                             "sub": rng.choice([1, 2]),
                             "reg": None if code == "mn" else str(Fraction(rng.choice([1, 2, 4, 6]), 2))})
            else:
                p = rng.choice([1, 2, 3]) if n >= 3 else 1
                signed_mm = rng.random() < 0.5
                if ints:
                    mm = [[str(rng.randint(-2 if signed_mm else 0, 3)) for _ in range(p)] for _ in range(n)]
                else:
                    mm = [[str(Fraction(rng.randint(-8 if signed_mm else 0, 12), 8)) for _ in range(p)]
                          for _ in range(n)]
                # keep the columns independent enough: a dominant distinct row per column
                for c in range(p):
                    mm[(c * 3 + 1) % n][c] = str(5 + c) if ints else str(Fraction(16 + c, 8))
                objs.append({"kind": "func", "mm": mm,
                             "reg": str(Fraction(rng.choice([1, 2, 3]), 2)) if code == "fr" else None,
                             "override": code == "fo" or (code == "f" and rng.random() < 0.25)})
        return {"h": H, "w": W, "mask": "".join("1" if b else "0" for r in m for b in r),
                "mask_kind": kind, "psf": [[str(v) for v in r] for r in psf],
                "normalize_psf": not signed, "int_inputs": ints,
                "container": rng.choice([None, None, "list"]),
                "data": [str(v) for v in data], "noise": [str(v) for v in noise], "objs": objs}

    @staticmethod
    def _history(rng, k, style):
        if style == "canonical":
            return [list(ACCESSES) for _ in range(k)]
        hist = []
        for _ in range(k):
            if style == "permuted":
                a = list(ACCESSES)
                rng.shuffle(a)
            else:  # "partial": a random multiset of reads, always touching the in-place path
                a = [rng.choice(ACCESSES) for _ in range(rng.randint(2, 8))]
                a.insert(rng.randrange(len(a) + 1), rng.choice(["curvature_reg_matrix", "reconstruction"]))
                a.append("curvature_matrix")
            hist.append(a)
        return hist

    @staticmethod
    def _invoked_tier():
        """the tier ./check was started with (the runner asks for thorough-tier generation inside a quick
        run when a modelled function's fingerprint changed, and in its failing-input search)"""
        import sys

        if "--tier" in sys.argv:
            i = sys.argv.index("--tier")
            if i + 1 < len(sys.argv):
                return sys.argv[i + 1]
        for a in sys.argv:
            if a.startswith("--tier="):
                return a.split("=", 1)[1]
        return os.environ.get("VERIF_TIER", "quick")

    def generate(self, tier, rng):
        # every case costs ~40 ms of real inversions, so a thorough-size list (~8500 cases) inside a quick
        # run would take minutes: when escalated, generate an intermediate list (~2x quick) instead
        escalated = tier == "thorough" and self._invoked_tier() == "quick"
        if escalated:
            tier = "escalated"
        k = {"quick": 3, "escalated": 3}.get(tier, 6)
        mixes = list(self.MIXES)

        def unusual_for(i, section):
            # non-square / signed PSFs on every other mix, alternating between the sections, so that
            # every mix meets both kinds of PSF in every run
            return UNUSUAL_PSF and (i + section) % 2 == 1

        def tagged(tag, unusual):
            return tag + ("_unusual_psf" if unusual else "")

        # 1. exhaustive: all subsets of the five core slots x both formalisms x every mix
        for i, mix in enumerate(mixes):
            unusual = unusual_for(i, 1)
            world = self._world(rng, mix, unusual)
            for settings_w in (False, True):
                opts = self._opts(rng, world)
                for r in range(len(CORE) + 1):
                    for sub in itertools.combinations(CORE, r):
                        yield {"tag": tagged("core_subsets", unusual),
                               "world": world, "settings_w": settings_w, **opts,
                               "pre_use_w": None, "slots": list(sub), "source": "same",
                               "wt_kind": "fresh",
                               "history": self._history(rng, k, "canonical" if r % 2 == 0 else "permuted")}
        # 2. the other consulted slots: singles, all-ext, all ten, random subsets of the ten
        n_rand = {"quick": 8, "escalated": 12}.get(tier, 40)
        for i, mix in enumerate(mixes):
            unusual = unusual_for(i, 2)
            wc_all_func = all(c[0] != "m" for c in mix)
            world = self._world(rng, mix, unusual)
            subsets = [[s] for s in EXT] + [list(EXT), list(ALL_SLOTS)]
            if tier == "thorough" and mix in (["m", "f"], ["f", "m"], ["m", "m"]):
                subsets = [list(c) for r in range(len(ALL_SLOTS) + 1)
                           for c in itertools.combinations(ALL_SLOTS, r)]
            else:
                for _ in range(n_rand):
                    subsets.append([s for s in ALL_SLOTS if rng.random() < 0.45])
            for settings_w in (False, True):
                if wc_all_func and settings_w:
                    continue
                opts = self._opts(rng, world)
                for sub in subsets:
                    yield {"tag": tagged("ext_subsets", unusual),
                           "world": world, "settings_w": settings_w, **opts,
                           "pre_use_w": None, "slots": sub, "source": "same",
                           "wt_kind": rng.choice(["fresh", "dataset"]),
                           "history": self._history(rng, k, rng.choice(["canonical", "permuted", "partial"]))}
        # 3. formalism selection: Preloads.use_w_tilde against settings.use_w_tilde, with slots
        for i, mix in enumerate(mixes):
            unusual = unusual_for(i, 3)
            world = self._world(rng, mix, unusual)
            for settings_w in (False, True):
                opts = {**self._opts(rng, world), "pos": False}
                for pre_use_w in (True, False):
                    for _ in range({"quick": 2, "escalated": 3}.get(tier, 6)):
                        sub = [s for s in ALL_SLOTS if rng.random() < 0.35]
                        yield {"tag": tagged("factory_choice", unusual),
                               "world": world, "settings_w": settings_w, **opts,
                               "pre_use_w": pre_use_w, "slots": sub, "source": "same",
                               "wt_kind": "fresh", "history": self._history(rng, k, "canonical")}
        # 4. values computed by the OTHER formalism from the identical inputs (tolerant comparison)
        for i, mix in enumerate(mixes):
            if all(c[0] != "m" for c in mix):
                continue
            unusual = unusual_for(i, 4)
            world = self._world(rng, mix, unusual)
            for settings_w in (False, True):
                opts = {**self._opts(rng, world), "pos": rng.choice([False, False, None])}
                for sub in (["curvature_matrix"], ["curvature_matrix", "regularization_matrix"],
                            ["curvature_matrix", "operated_mapping_matrix", "w_tilde"]):
                    yield {"tag": tagged("other_formalism_source", unusual),
                           "world": world, "settings_w": settings_w, **opts,
                           "pre_use_w": None, "slots": sub, "source": "other", "wt_kind": "fresh",
                           "history": self._history(rng, k, "canonical")}
        # 5. a w_tilde computed for another noise map is refused (check_noise_map)
        for mix in (["m"], ["m", "f"]):
            world = self._world(rng, mix)
            yield {"tag": "foreign_w_tilde", "world": world, "settings_w": True, "pos": False,
                   "pre_use_w": None, "slots": ["w_tilde"], "source": "same", "wt_kind": "foreign",
                   "history": self._history(rng, 2, "canonical")}
        # 6. the Preloads object is filled by its own setters (preloads.py set_*) from two equal fits
        setter_sets = [list(SETTERS)] + [[m] for m in SETTERS]
        for i, mix in enumerate(mixes):
            unusual = unusual_for(i, 6)
            world = self._world(rng, mix, unusual)
            for settings_w in (False, True):
                if all(c[0] != "m" for c in mix) and settings_w:
                    continue
                opts = self._opts(rng, world)
                sets = setter_sets if tier in ("thorough", "escalated") else [setter_sets[0]] + [
                    [m for m in SETTERS if rng.random() < 0.5] for _ in range(2)]
                for st in sets:
                    yield {"tag": tagged("via_setters", unusual), "via": "setters", "setters": st,
                           "world": world, "settings_w": settings_w, **opts,
                           "pre_use_w": None, "slots": [], "source": "same", "wt_kind": "fresh",
                           "history": self._history(rng, k, rng.choice(["canonical", "permuted"]))}
        # 7. Preloads.relocated_grid consulted when the mapper is built (oracle only)
        for i, mix in enumerate(mixes):
            if mix[0] != "m":
                continue
            world = self._world(rng, mix, unusual_for(i, 7))
            n_sub = sum(1 for c in world["mask"] if c == "0") * world["objs"][0]["sub"] ** 2
            distort = [[rng.randrange(n_sub), str(Fraction(rng.randint(12, 40), 8))]
                       for _ in range(rng.randint(1, 4))]
            for settings_w in (False, True):
                yield {"tag": "relocated_grid", "kind": "relocated_grid", "distort": distort,
                       "world": world, "settings_w": settings_w, "pos": rng.random() < 0.5,
                       "pre_use_w": None, "slots": ["relocated_grid"], "source": "same",
                       "wt_kind": "fresh", "history": self._history(rng, k, "canonical")}
        # 8. degenerate sizes: one / two unmasked pixels; histories of one inversion, an inversion with
        #    no read at all, a single read
        for tiny in (1, 2):
            for mix in (["m"], ["m", "f"], ["f"], ["mn"]):
                world = self._world(rng, mix, False, tiny=tiny)
                for settings_w in (False, True):
                    if mix == ["f"] and settings_w:
                        continue
                    opts = self._opts(rng, world)
                    for sub, hist in ((list(CORE), [list(ACCESSES)]),
                                      (["curvature_matrix"], [[], ["curvature_reg_matrix"], []]),
                                      (list(ALL_SLOTS), self._history(rng, k, "permuted"))):
                        yield {"tag": f"degenerate_{tiny}px", "world": world, "settings_w": settings_w, **opts,
                               "pre_use_w": None, "slots": sub, "source": "same", "wt_kind": "fresh",
                               "history": hist}
        # 9. seeded random everything
        n = {"quick": 50, "escalated": 100}.get(tier, 500)
        for _ in range(n):
            mix = rng.choice(mixes)
            unusual = UNUSUAL_PSF and rng.random() < 0.5
            world = self._world(rng, mix, unusual)
            yield {"tag": tagged("random", unusual), "world": world,
                   "settings_w": rng.random() < 0.6, **self._opts(rng, world),
                   "pre_use_w": rng.choice([None, None, True, False]),
                   "slots": [s for s in ALL_SLOTS if rng.random() < 0.4], "source": "same",
                   "wt_kind": rng.choice(["fresh", "dataset"]),
                   "history": self._history(rng, rng.randint(1, k), rng.choice(["canonical", "permuted", "partial"]))}
        # 10. reuse histories: one Preloads / settings (/ dataset / linear objects) across two worlds
        yield from self._reuse_cases(tier, rng, unusual_for, tagged)
        # 11. the direct numpy statement of the normal equations (the oracle of the large stream) at ordinary
        #     sizes in every run, one world per size dimension: keeps that oracle exercised on the unchanged tree
        #     and is independent of any state the library shares between 'fresh' objects
        for rep_ in range({"quick": 1, "escalated": 1}.get(tier, 4)):
            for dim, size in (("pixels", rng.randint(100, 180)), ("sub", rng.randint(200, 400)),
                              ("frame", rng.choice([1200, 1500, 1716, 2030])), ("params", rng.randint(40, 90)),
                              ("kernel", rng.choice([15, 21, 35, 45])), ("objs", rng.randint(4, 8))):
                c = self._large_case(dim, size, size, rng)
                if c is not None:
                    yield {**{k: v for k, v in c.items() if k != "_cost"}, "tag": f"direct_{dim}"}
        # 12.-18. round 5/6: decades, extremes, ownership, layouts, configuration, options, re-assignment, mid sizes
        yield from self._r5_cases(tier, rng)

    # ================================================================== round 4: reuse histories
    @staticmethod
    def _tiny(v):
        v = Fraction(v)
        return str(v * (1 + TINY)) if v != 0 else str(TINY_ABS)

    def _edit(self, rng, w, kind, tiny):
        """one change of world A (descriptor with the exact new values), or None when `kind` does not apply"""
        H, W = w["h"], w["w"]
        unm = [i for i, c in enumerate(w["mask"]) if c == "0"]
        if kind == "reg":
            cand = [j for j, o in enumerate(w["objs"]) if o.get("reg") is not None]
            if not cand:
                return None
            j = rng.choice(cand)
            v = Fraction(w["objs"][j]["reg"])
            return {"kind": "reg", "obj": j, "value": self._tiny(v) if tiny else str(v * rng.choice([4, 3]))}
        if kind in ("data", "noise"):
            idxs = rng.sample(unm, min(len(unm), rng.randint(1, 3)))
            out = []
            for i in idxs:
                v = Fraction(w[kind][i])
                if tiny:
                    out.append([i, self._tiny(v)])
                else:
                    out.append([i, str(v + Fraction(3, 2)) if kind == "data" else str(v * 2)])
            return {"kind": kind, "set": out}
        if kind == "func":
            cand = [j for j, o in enumerate(w["objs"]) if o["kind"] == "func"]
            if not cand:
                return None
            j = rng.choice(cand)
            mm = w["objs"][j]["mm"]
            n = len(unm)
            r, c = rng.randrange(min(n, len(mm))), rng.randrange(len(mm[0]))
            v = Fraction(mm[r][c])
            return {"kind": "func", "obj": j, "set": [[r, c, self._tiny(v) if tiny else str(v + Fraction(5, 8))]]}
        if kind == "psf":
            kh, kw = len(w["psf"]), len(w["psf"][0])
            r, c = rng.randrange(kh), rng.randrange(kw)
            v = Fraction(w["psf"][r][c])
            return {"kind": "psf", "set": [[r, c, self._tiny(v) if tiny else str(v + Fraction(3, 8))]]}
        if kind == "mask":
            if len(unm) < 6:
                return None
            return {"kind": "mask", "idx": rng.choice(unm)}
        raise ValueError(kind)

    EDIT_KINDS = ["reg", "noise", "data", "func", "psf", "mask"]
    PHASE_ORDERS = [["a", "b", "a"], ["a", "b"], ["b", "a", "b"], ["a", "b", "b", "a"], ["b", "a"]]

    @staticmethod
    def _mix_supports(mix, kind, w):
        if w and all(c[0] != "m" for c in mix):
            return False
        if kind == "reg":
            return any(c in ("m", "fr") for c in mix)
        if kind == "func":
            return any(c[0] == "f" and c != "fo" for c in mix)
        return True

    def _reuse_cases(self, tier, rng, unusual_for, tagged):
        """10. one Preloads object / one SettingsInversion / (optionally) one dataset and one list of linear
        objects, used for two different worlds A and B in turn.  Every phase's reads are compared with a FRESH
        computation for that phase's world.

        Per repetition every (kind of change, formalism) once — a pair of worlds (A, B = A with one ingredient
        changed) on a mix that supports it — and four histories on each pair:
          0  Preloads-centred: every slot filled, B's slots refreshed partially (assign / public setter / in place)
          1  objects-centred: an EMPTY Preloads, the same dataset + linear objects edited in place where the
             change allows it (nothing short-circuits the computation that reads them), A, B, A
          2  fault then reuse: the five slots of the statement, an operation that raises between the phases
          3  seeded random everything
        plus the in-place path (a single regularized mapper: `F += H` into the cached curvature matrix) with
        every kind of failed operation in both formalisms."""
        reps = {"quick": 2, "escalated": 3}.get(tier, 10)
        k_inv = 2
        tiny_off = rng.randrange(2)
        pair = 0

        def histories(world, edit, tiny, settings_w, unusual, plan):
            opts = {**self._opts(rng, world), "pos": rng.choice([False, False, None])}
            can_same = edit["kind"] in ("reg", "data") or (
                edit["kind"] == "func" and not world["objs"][edit["obj"]].get("override"))
            refreshes = ["assign", "setter", "inplace", "assign"]
            rng.shuffle(refreshes)
            faults = ["bad_reg_shape", "raising_obj"] + (["foreign_w_tilde"] if settings_w else [])
            for j, fault in plan:
                entry = opts["entry"]
                if j == 0:
                    slots, mode, order_x = list(NON_ALT_SLOTS), "rebuild", rng.choice(self.PHASE_ORDERS)
                elif j == 1:
                    slots, mode, order_x = [], ("same" if can_same else "rebuild"), rng.choice(
                        [["a", "b", "a"], ["b", "a", "b"]])
                    entry = None
                elif j == 2:
                    slots, mode, order_x = list(CORE), ("same" if can_same and rng.random() < 0.5 else "rebuild"), \
                        rng.choice(self.PHASE_ORDERS)
                else:
                    slots = [s for s in ALL_SLOTS if rng.random() < 0.5]
                    mode, order_x = ("same" if can_same and rng.random() < 0.5 else "rebuild"), \
                        rng.choice(self.PHASE_ORDERS)
                refresh = refreshes[j]
                phases = []
                for p_i, x in enumerate(order_x):
                    style = "canonical" if j == 1 else rng.choice(["canonical", "permuted", "partial"])
                    ph = {"w": x, "history": self._history(rng, rng.randint(1, k_inv), style)}
                    if rng.random() < 0.3:
                        ph["decoy"] = rng.sample(DECOYS_INV, rng.randint(3, 10)) + \
                            rng.sample(DECOYS_OTHER, rng.randint(0, 3))
                    if p_i >= 1 and (j == 2 and p_i == 1 or j == 3 and rng.random() < 0.25):
                        ph["fault"] = fault if (j == 2 and fault in faults) else rng.choice(faults)
                    phases.append(ph)
                yield {"tag": tagged("reuse_" + edit["kind"] + ("_tiny" if tiny else ""), unusual),
                       "kind": "reuse", "world": world, "edit": edit, "settings_w": settings_w,
                       **{**opts, "entry": entry},
                       "pre_use_w": None, "slots": slots, "source": "same", "wt_kind": "fresh",
                       "refresh": refresh, "objs_mode": mode,
                       "readonly": refresh == "assign" and rng.random() < 0.5,
                       "derive": j != 1 and rng.random() < 0.25,
                       "phases": phases, "history": [a for ph in phases for a in ph["history"]]}

        def make_pair(mix, kind, tiny, unusual):
            world = self._world(rng, mix, unusual)
            world["int_inputs"] = False  # edits are not integer-valued
            if kind == "func":  # the edited func list computes its own operated matrix
                for o, code in zip(world["objs"], mix):
                    if code in ("f", "fr"):
                        o["override"] = False
            for knd in [kind] + self.EDIT_KINDS:
                edit = self._edit(rng, world, knd, tiny)
                if edit is not None and not (knd == "func" and world["objs"][edit["obj"]].get("override")):
                    return world, edit
            raise AssertionError("no applicable change")

        fault_rot = ["bad_reg_shape", "raising_obj", "foreign_w_tilde"]
        for rep in range(reps):
            for kind in self.EDIT_KINDS:
                for settings_w in (False, True):
                    cands = [m for m in self.MIXES if self._mix_supports(m, kind, settings_w)]
                    mix = ["m"] if (["m"] in cands and rng.random() < 0.3) else rng.choice(cands)
                    tiny = (pair // 2 + pair + rep + tiny_off) % 2 == 0
                    unusual = UNUSUAL_PSF and rng.random() < 0.5
                    world, edit = make_pair(mix, kind, tiny, unusual)
                    yield from histories(world, edit, tiny, settings_w, unusual,
                                         [(0, None), (1, None), (2, fault_rot[(pair + rep) % 3]), (3, None)])
                    pair += 1
            # the in-place path: one regularized mapper, every failed operation, both formalisms
            for settings_w in (False, True):
                kind = self.EDIT_KINDS[(rep + tiny_off + int(settings_w)) % len(self.EDIT_KINDS)]
                world, edit = make_pair(["m"], kind, rep % 2 == 0, False)
                yield from histories(world, edit, rep % 2 == 0, settings_w, False,
                                     [(2, f) for f in fault_rot if settings_w or f != "foreign_w_tilde"])

    # ================================================================== round 5/6 streams
    # candidate non-default values of the constructor options of SettingsInversion that an imaging inversion may
    # be given (by name; options that appear later get values from their default's type, see _option_levels)
    SETTINGS_LEVELS = {
        "use_border_relocator": [True, False],
        "force_edge_pixels_to_zeros": [False],
        "force_edge_image_pixels_to_zeros": [True],
        "image_pixels_source_zero": [[0], []],
        "use_w_tilde_numpy": [True],
        "use_source_loop": [True],
        "use_linear_operators": [True],
        "image_mesh_min_mesh_pixels_per_pixel": [0, 3],
        "image_mesh_min_mesh_number": [0, 1],
        "image_mesh_adapt_background_percent_threshold": [0.0, 0.5],
        "image_mesh_adapt_background_percent_check": [0.0],
        "tolerance": [0.0, 0.001],
        "maxiter": [0, 1],
    }
    # options the other generator axes own
    SETTINGS_OWNED = {"self", "use_w_tilde", "use_positive_only_solver", "positive_only_uses_p_initial",
                      "no_regularization_add_to_curvature_diag_value"}
    # constructor arguments of Preloads that no imaging inversion of autoarray consults
    PRELOADS_UNUSED_LEVELS = [[], ["x"]]

    def _option_levels(self):
        """{option: [default marker, non-default values ...]} from the live constructor signatures (R5-F)"""
        import inspect

        aa = load_autoarray()
        fac = {}
        for name, p in inspect.signature(aa.SettingsInversion.__init__).parameters.items():
            if name in self.SETTINGS_OWNED or p.kind in (p.VAR_POSITIONAL, p.VAR_KEYWORD):
                continue
            if name in self.SETTINGS_LEVELS:
                lv = self.SETTINGS_LEVELS[name]
            elif isinstance(p.default, bool):
                lv = [not p.default]
            elif isinstance(p.default, int) and not isinstance(p.default, bool):
                lv = [0] if p.default != 0 else [1]
            elif isinstance(p.default, float):
                lv = [0.0] if p.default != 0.0 else [1.0]
            else:
                continue  # an option of unknown domain: nothing legal is known to put there
            fac["set:" + name] = ["<default>"] + list(lv)
        known = set(ALL_SLOTS) | {"self", "use_w_tilde", "relocated_grid"}
        for name, p in inspect.signature(aa.Preloads.__init__).parameters.items():
            if name in known or p.kind in (p.VAR_POSITIONAL, p.VAR_KEYWORD):
                continue
            if name in ("image_plane_mesh_grid_pg_list", "mapper_list", "traced_mesh_grids_list_of_planes",
                        "image_plane_mesh_grid_list"):
                fac["pre:" + name] = ["<default>"] + self.PRELOADS_UNUSED_LEVELS
        return fac

    def _r5_cases(self, tier, rng):
        """12-18: decades / nearly-degenerate ingredients (R5-A), extreme magnitudes and mid sizes (R5-E), ownership
        histories (R5-B), container / layout variants (R5-C), configuration histories (R5-D), pairwise crossed
        constructor options and slot re-assignment histories (R5-F).  design_notes/C15.md "Round 5/6 hardening"."""
        thorough = tier == "thorough"
        with_mapper = [m for m in self.MIXES if any(c[0] == "m" for c in m)]
        unreg = [m for m in self.MIXES if any(c in ("f", "fo", "mn") for c in m) and any(c[0] == "m" for c in m)]
        # Two regularized mappers have the null direction (1, -1) in F + H that only the ABSOLUTE 1e-8 on the diagonal
        # of the library's constant regularization lifts (cond ~ 1e10 at the unit decade); an unregularized block is
        # lifted by the absolute default 1e-3.  Where F or H is scaled up those constants drown and the system is
        # singular — a fact of the library's constants, not of preloading — so the scaled streams take at most one
        # regularized mapper and an explicit diagonal value at the decade of F.
        stable = [m for m in self.MIXES if sum(1 for c in m if c == "m") <= 1]
        stable_m = [m for m in stable if any(c[0] == "m" for c in m)]
        # The constant regularization matrix is c^2 L + 1e-8 with L a graph Laplacian: above c ~ 2^12 the 1e-8 is
        # rounded away, H is exactly singular and the library refuses to take its log-determinant.  So a
        # regularization coefficient follows the decade of F only up to 2^10, and where F is scaled up by more than
        # 2^50 (H would drown in it) the world has no regularized object at all.
        REG_CAP = 10
        unreg_only = [["f"], ["f", "f"], ["mn"], ["mn", "f"]]

        def mixes_for(f_up, need_mapper=False):
            pool = unreg_only if f_up > 50 else stable
            pool = [m for m in pool if not need_mapper or any(c[0] == "m" for c in m)]
            return pool

        def plain(mix, unusual=False):
            w = self._world(rng, mix, unusual)
            w["int_inputs"], w["container"] = False, None
            return w

        def case(tag, world, settings_w, slots, **kw):
            c = {"tag": tag, "world": world, "settings_w": settings_w, "diag_value": None, "pos": False,
                 "p_initial": None, "entry": None, "pre_use_w": None, "slots": list(slots), "source": "same",
                 "wt_kind": "fresh", "history": self._history(rng, 2, "canonical")}
            c.update(kw)
            return c

        def forms(mix):
            return (False,) if all(c[0] != "m" for c in mix) else (False, True)

        def some_slots():
            return [s for s in ALL_SLOTS if rng.random() < 0.5]

        def diag_for(k2):  # explicit diagonal value at the world's decade: 2^-10 * 2^k2
            return str(Fraction(1, 1024) * _pow2(k2))

        # the library's own check_reconstruction is an ABSOLUTE np.allclose test on the solution (documented): at
        # the tiny decades it refuses every inversion, and near 1e-8 the two formalisms can fall on different sides
        # of it.  It is a configuration value, so the decade streams run with it switched off.
        NOCHECK = {"check": False}

        def coherent(w, k):
            """data, noise x 2^k, regularization coefficient x 2^-k (capped, see REG_CAP)"""
            return scale_world(w, data=k, noise=k, reg=min(-k, REG_CAP)) if k else w

        def f_up(ing, k):  # log2 of the factor on F
            return {"noise": -2 * k, "world": -2 * k, "psf": 2 * k}.get(ing, 0)

        def family(w, ing, k):
            """(world, explicit diagonal value) with ONE ingredient at another decade; the regularization coefficient
            and the diagonal value follow the decade of F, so that the system stays as well posed as at the unit
            decade (otherwise the library's absolute 1e-8 / 1e-3 are all that lifts the null directions)"""
            if ing == "data":
                return scale_world(w, data=k), None
            if ing == "noise":
                return scale_world(w, noise=k, reg=min(-k, REG_CAP)), diag_for(-2 * k)
            if ing == "psf":
                return scale_world(w, psf=k, reg=min(k, REG_CAP)), diag_for(2 * k)
            if ing == "func":
                return scale_world(w, func=k), diag_for(max(0, 2 * k))
            if ing == "reg":
                return scale_world(w, reg=k), None
            if ing == "world":
                return coherent(w, k), diag_for(-2 * k)
            raise ValueError(ing)

        # ---- 12a. the whole world at another decade: data, noise x 2^k; regularization coefficient x 2^-k; the
        #           diagonal value x 2^-2k (so that F, H, D scale exactly and every comparison means the same)
        ks = [-45, -30, -12, 12, 30, 45] + ([-40, -20, -6, 6, 20, 40, -45, 45] if thorough else [])
        for k in ks:
            mix = rng.choice(mixes_for(-2 * k))
            w0 = plain(mix, UNUSUAL_PSF and rng.random() < 0.5)
            for j, sw in enumerate(forms(mix)):
                for slots in ((list(CORE), some_slots()) if thorough else ((list(CORE), some_slots())[j % 2],)):
                    yield case("decade_world", coherent(w0, k), sw, slots, conf=NOCHECK,
                               diag_value=diag_for(-2 * k) if k < 0 else rng.choice([None, diag_for(-2 * k)]),
                               pos=rng.choice([False, False, True, None]), rel=True, decade=k,
                               history=self._history(rng, 2, rng.choice(["canonical", "permuted"])))
        # ---- 12b. ONE ingredient at another decade
        ones = [("data", 40), ("data", -40), ("noise", 20), ("noise", -20), ("psf", 20), ("psf", -20),
                ("func", 20), ("func", -20), ("reg", REG_CAP), ("reg", -20)]
        for rep in range(3 if thorough else 1):
            for i, (ing, k) in enumerate(ones):
                cands = [m for m in mixes_for(f_up(ing, k)) if (ing != "func" or any(c in ("f", "fr") for c in m))
                         and (ing != "reg" or any(c in ("m", "fr") for c in m))]
                mix = rng.choice(cands)
                w0 = plain(mix)
                if ing == "func":
                    for o in w0["objs"]:
                        o["override"] = False
                w, dv = family(w0, ing, k)
                fs = forms(mix)
                yield case("decade_" + ing, w, fs[(i + rep) % len(fs)], list(CORE) if rep == 0 else some_slots(),
                           pos=rng.choice([False, False, None]), rel=True, decade=k, conf=NOCHECK, diag_value=dv)
        # ---- 12c. nearly uniform / nearly equal / nearly diagonal / nearly zero ingredients (relative spread
        #           2^-30 .. 2^-26), at several decades
        def near(v, j):
            return str(Fraction(v) * (1 + Fraction(j, 1 << 30)))

        kinds = ["uniform_noise", "equal_data", "delta_psf", "zero_data", "zero_reg", "equal_noise_data"]
        for rep in range(3 if thorough else 1):
            for i, kind in enumerate(kinds):
                k = [-40, 0, 30][(i + rep + rng.randrange(3)) % 3]
                if kind == "zero_reg" and k < 0:
                    k = 0  # needs a regularized mapper, which the tiny decades cannot carry
                mix = rng.choice(mixes_for(-2 * k, need_mapper=True) if kind != "zero_reg"
                                 else [m for m in stable_m if "m" in m])
                w = plain(mix)
                n_pix = w["h"] * w["w"]
                if kind in ("uniform_noise", "equal_noise_data"):
                    w["noise"] = [near("5/2", rng.randrange(16)) for _ in range(n_pix)]
                if kind in ("equal_data", "equal_noise_data"):
                    w["data"] = [near("7/4", rng.randrange(16)) for _ in range(n_pix)]
                if kind == "delta_psf":
                    kh, kw_ = len(w["psf"]), len(w["psf"][0])
                    w["psf"] = [[str(Fraction(rng.randrange(8), 1 << 30)) for _ in range(kw_)] for _ in range(kh)]
                    w["psf"][kh // 2][kw_ // 2] = "1"
                    w["normalize_psf"] = True
                if kind == "zero_data":
                    w["data"] = [str(Fraction(rng.randrange(-3, 8), 1 << 40)) if rng.random() < 0.7 else "0"
                                 for _ in range(n_pix)]
                if kind == "zero_reg":
                    for o in w["objs"]:
                        if o.get("reg") is not None:
                            o["reg"] = str(Fraction(rng.choice([1, 3]), 1 << 20))
                w = coherent(w, k)
                fs = forms(mix)
                yield case("near_" + kind, w, fs[(i + rep) % len(fs)], list(CORE) if rng.random() < 0.5 else some_slots(),
                           pos=rng.choice([False, False, None]), rel=True, decade=k, conf=NOCHECK,
                           diag_value=diag_for(-2 * k) if k < 0 else rng.choice([None, diag_for(-2 * k)]))
        # ---- 12d. a w_tilde of a noise map that differs by 1 + 2^-30 (and by 2) at a tiny and at the unit decade: refused
        for k, kind in ((-40, "foreign_near"), (0, "foreign_near"), (-40, "foreign")) + (
                ((30, "foreign_near"), (-20, "foreign_near")) if thorough else ()):
            mix = rng.choice([["m"], ["m", "f"], ["mn", "m"]] if -2 * k <= 50 else [["mn"], ["mn", "f"]])
            w = coherent(plain(mix), k)
            yield case("decade_" + kind, w, True, ["w_tilde"] + [s for s in CORE[1:] if rng.random() < 0.3],
                       wt_kind=kind, rel=True, decade=k, conf=NOCHECK, diag_value=diag_for(-2 * k))
        # ---- 12e. origins far from zero, pixel scales far from one (anisotropic)
        for i, (org, ps) in enumerate([(["262145/2", "-262145/4"], None), (None, ["1/1048576", "3/2097152"]),
                                       (["-131073/2", "524289/8"], ["1024", "1536"]),
                                       (["2097153/2", "2097153/2"], ["3/2097152", "1/1048576"])]):
            mix = rng.choice(with_mapper)
            w = plain(mix, UNUSUAL_PSF and i % 2 == 1)
            if org:
                w["origin"] = org
            if ps:
                w["pixel_scales"] = ps
            fs = forms(mix)
            yield case("far_origin_scale", w, fs[i % len(fs)], list(CORE) if i % 2 else some_slots(),
                       pos=rng.choice([False, None]))
        # ---- 12f. R5-E: magnitudes towards the float64 limits for the quantities that get squared or multiplied
        ext = [("data", 400, False), ("data", -400, False), ("noise", 200, False), ("noise", -200, False),
               ("psf", 100, False), ("psf", -100, None), ("world", 200, None), ("world", -200, False)]
        for rep in range(2 if thorough else 1):
            for i, (ing, k, pos) in enumerate(ext):
                mix = rng.choice(mixes_for(f_up(ing, k)))
                w0 = plain(mix)
                w, dv = family(w0, ing, k)
                fs = forms(mix)
                yield case("extreme_" + ing, w, fs[(i + rep) % len(fs)], list(CORE) if rep == 0 else some_slots(),
                           pos=pos, rel=True, decade=k, conf=NOCHECK, diag_value=dv)
        # ---- 13. R5-B ownership histories: observe -> the caller edits in place every array it was handed or had
        #          handed over -> the same world from fresh equal inputs -> observe; three rounds
        n_own = 24 if thorough else 6
        for i in range(n_own):
            mix = rng.choice(self.MIXES)
            fs = forms(mix)
            sw = fs[i % len(fs)]
            w = self._world(rng, mix, UNUSUAL_PSF and rng.random() < 0.4)
            w["container"] = None  # arrays, so that there is something the caller can edit
            how = ["nan", "add"][i % 2]
            slots = [[], list(CORE), list(NON_ALT_SLOTS), some_slots()][i % 4]
            phases = [{"w": "a", "history": self._history(rng, rng.randint(1, 2), rng.choice(["canonical", "partial"])),
                       "scribble": how} for _ in range(3)]
            yield {"tag": "own_" + how, "kind": "reuse", "own": True, "world": w, "edit": {"kind": "none"},
                   "settings_w": sw, **{**self._opts(rng, w), "pos": rng.choice([False, False, None])},
                   "pre_use_w": None, "slots": slots, "source": "same", "wt_kind": "fresh", "refresh": "assign",
                   "objs_mode": "rebuild", "readonly": False, "derive": False, "phases": phases,
                   "history": [a for ph in phases for a in ph["history"]]}
        # ---- 14. R5-C: equal values in another memory layout / dtype / through other constructors
        for rep in range(4 if thorough else 2):
            mix = rng.choice(with_mapper) if rep % 2 == 0 else rng.choice(self.MIXES)
            w0 = plain(mix, UNUSUAL_PSF and rep % 2 == 1)
            fs = forms(mix)
            j = rep
            def mine(idx):  # quick: the two base worlds share the variants between them
                return thorough or idx % 2 == rep % 2

            for idx, lay in enumerate(LAYOUTS):
                if mine(idx):
                    yield case("layout_" + lay, {**w0, "layout": lay}, fs[j % len(fs)],
                               list(CORE) if j % 2 else some_slots(), **self._opts(rng, w0))
                    j += 1
            for idx, via in enumerate(DS_VIAS):
                if mine(idx + 1):
                    yield case("built_" + via,
                               {**w0, "ds_via": via, "layout": rng.choice([None, None, "fortran", "strided"])},
                               fs[j % len(fs)], list(CORE) if j % 2 else some_slots(), **self._opts(rng, w0))
                    j += 1
            for idx, lay in enumerate(SLOT_LAYOUTS):
                if mine(idx):
                    yield case("slot_layout_" + lay, w0, fs[j % len(fs)],
                               list(NON_ALT_SLOTS) if j % 2 else [s for s in NON_ALT_SLOTS if rng.random() < 0.6],
                               slot_layout=lay, history=self._history(rng, 2, rng.choice(["permuted", "partial"])),
                               **{**self._opts(rng, w0), "pos": False})
                    j += 1
        # ---- 15. R5-D configuration histories: every value of general.inversion the anchored code reads is flipped
        #          BETWEEN the inversions, on reused and on fresh objects; explicit arguments are the controls
        def a_conf(w):
            unreg_mapper = any(o["kind"] == "mapper" and o.get("reg") is None for o in w["objs"])
            unreg_funcs = sum(1 for o in w["objs"] if o["kind"] == "func" and o.get("reg") is None)
            diags = ["1/64", "1/4", "1/1000", "1/128"] + ([] if unreg_mapper or unreg_funcs > 1 else ["0"])
            return {"diag": rng.choice(diags), "pos": rng.random() < 0.5, "p_initial": rng.random() < 0.5,
                    "check": rng.random() < 0.5}

        n_conf = 24 if thorough else 6
        for i in range(n_conf):
            mix = rng.choice(unreg)
            w = plain(mix, UNUSUAL_PSF and rng.random() < 0.3)
            sw = bool(i % 2)
            explicit = (i // 2) % 2 == 1   # control: explicit arguments, the configuration must not matter
            fresh = (i // 4) % 2 == 1
            c1, c2 = a_conf(w), a_conf(w)
            if c1["diag"] == c2["diag"]:
                c2["diag"] = "1/32"
            c2["pos"] = not c1["pos"]
            how = "push" if i % 3 == 2 else "item"
            order = rng.choice([[c1, c2, c1], [None, c1, None], [c2, None, c2], [c2, c1, c2]]) if not thorough else \
                rng.choice([[None, c1, c2, c1], [c1, c2, None], [c2, c1, c2], [c1, None, c2, None]])
            phases = []
            for cf in order:
                ph = {"w": "a", "history": self._history(rng, 1, "canonical")}
                if cf is not None:
                    ph["conf"], ph["conf_how"] = cf, how
                phases.append(ph)
            args = {"diag_value": "1/100", "pos": rng.random() < 0.5, "p_initial": False} if explicit else \
                {"diag_value": None, "pos": None, "p_initial": None}
            yield {"tag": "conf_" + ("explicit" if explicit else "follow") + ("_fresh" if fresh else "_reused"),
                   "kind": "reuse", "control": True, "fresh_objs": fresh, "world": w, "edit": {"kind": "none"},
                   "settings_w": sw, **args, "entry": rng.choice([None, None, "imaging_from"]),
                   "pre_use_w": None, "slots": [[], list(CORE), some_slots()][i % 3], "source": "same",
                   "wt_kind": "fresh", "refresh": "assign", "objs_mode": "rebuild", "readonly": False, "derive": False,
                   "phases": phases, "history": [a for ph in phases for a in ph["history"]]}
        # ---- 16. R5-F: every constructor option of SettingsInversion / Preloads (introspected) crossed pairwise with
        #          each other, the solver / diagonal / entry-point options, Preloads.use_w_tilde and every slot
        fac = dict(self._option_levels())
        fac.update({"pos": [None, False, True], "p_initial": [None, False, True],
                    "diag_value": [None, "1/1000", "1/100"], "entry": [None, "imaging_from", "interface"],
                    "slot_layout": [None, "fortran", "strided"]})
        # The formalism that actually runs is ONE factor (which of settings.use_w_tilde / Preloads.use_w_tilde brings
        # it about is drawn per row), so that every option value meets both formalisms — and, in the quick tier, meets
        # every (formalism, slot set): an option that matters only with a certain slot in a certain formalism is a
        # PAIR of this table.
        if thorough:
            fac["form"] = ["w", "m"]
            for s in ALL_SLOTS:
                fac["slot:" + s] = [False, True]
        else:
            # (every reference costs ~80 ms and every row has its own settings: the quick tier crosses the options
            # with three slot SETS instead of ten single slots, which needs about half the rows)
            fac["form_slots"] = [f + ":" + ss for f in "wm" for ss in ("non_alt", "all", "random")]
        # (a mapper AND a linear func list AND something unregularized: the mixes that reach the most code)
        opt_mixes = [m for m in unreg if any(c[0] == "f" for c in m)]
        for rep in range(4 if thorough else 1):
            mix = rng.choice(opt_mixes)
            w = plain(mix, UNUSUAL_PSF and rng.random() < 0.5)
            for row in pairwise_rows(rng, fac, tries=16 if not thorough else 24, cap=70):
                if "form_slots" in row:
                    row["form"], ss = row["form_slots"].split(":")
                    chosen = {"core": list(CORE), "non_alt": list(NON_ALT_SLOTS), "all": list(ALL_SLOTS),
                              "random": some_slots()}[ss]
                    for s in ALL_SLOTS:
                        row["slot:" + s] = s in chosen
                row["settings_w"], row["pre_use_w"] = rng.choice(
                    [(True, None), (True, None), (True, True)] if row["form"] == "w"
                    else [(False, None), (False, True), (True, False), (False, False)])
                skw = {k[4:]: v for k, v in row.items() if k.startswith("set:") and v != "<default>"}
                if skw.get("force_edge_image_pixels_to_zeros") and sum(1 for c in mix if c[0] == "m") > 1:
                    # outside this property: with two or more mappers AbstractInversion.reconstruction np.append-s a
                    # ragged list of per-mapper index arrays and raises ValueError — preloads or not
                    del skw["force_edge_image_pixels_to_zeros"]
                if skw.get("force_edge_image_pixels_to_zeros") and "image_pixels_source_zero" not in skw:
                    skw["image_pixels_source_zero"] = [0, 1]  # documented companion of that option
                pkw = {k[4:]: v for k, v in row.items() if k.startswith("pre:") and v != "<default>"}
                # options that are not in SETTINGS_LEVELS (added to the constructor later) get values from their
                # default's type; whether those are legal is not known here
                guessed = sorted(k for k in skw if k not in self.SETTINGS_LEVELS)
                yield case("options_pairwise", w, row["settings_w"],
                           [s for s in ALL_SLOTS if row["slot:" + s]], pos=row["pos"], p_initial=row["p_initial"],
                           diag_value=row["diag_value"], entry=row["entry"], pre_use_w=row["pre_use_w"],
                           slot_layout=row["slot_layout"], settings_kw=skw, pre_kw=pkw, guessed_options=guessed,
                           history=self._history(rng, 2, rng.choice(["canonical", "permuted", "partial"])))
        # ---- 17. R5-F: slots of ONE Preloads object re-assigned between the inversions of one world (a slot present
        #          while its companion is absent, emptied, filled again)
        companions = [("regularization_matrix", "log_det_regularization_matrix_term"),
                      ("curvature_matrix", "curvature_matrix_mapper_diag"), ("curvature_matrix", "data_vector_mapper"),
                      ("curvature_matrix", "regularization_matrix"), ("w_tilde", "curvature_matrix_mapper_diag"),
                      ("operated_mapping_matrix", "linear_func_operated_mapping_matrix_dict"),
                      ("operated_mapping_matrix", "curvature_matrix"), ("data_vector_mapper", "operated_mapping_matrix")]
        n_re = 24 if thorough else 6
        for i in range(n_re):
            mix = rng.choice(with_mapper)
            w = plain(mix, UNUSUAL_PSF and rng.random() < 0.3)
            a, b = companions[i % len(companions)]
            rest = [s for s in NON_ALT_SLOTS if s not in (a, b) and rng.random() < 0.4]
            sets = [[a] + rest, [a, b] + rest, [b] + rest, rest, [a, b] + rest]
            order = [sets[j] for j in rng.sample(range(5), 4)] + [[a, b] + rest]
            phases = [{"w": "a", "slots": sl, "history": self._history(rng, rng.randint(1, 2), "partial")}
                      for sl in order]
            yield {"tag": "reassign_slots", "kind": "reuse", "world": w, "edit": {"kind": "none"},
                   "settings_w": bool(i % 2), **{**self._opts(rng, w), "pos": False, "entry": None},
                   "pre_use_w": None, "slots": order[0], "source": "same", "wt_kind": "fresh",
                   "refresh": ["assign", "inplace"][i % 2], "objs_mode": "rebuild", "readonly": False,
                   "derive": i % 4 == 3, "slot_layout": [None, None, "fortran", "tview"][i % 4],
                   "phases": phases, "history": [x for ph in phases for x in ph["history"]]}
        # ---- 18. R5-E: always-on mid sizes beyond 2^16 (frame pixels, mapping-matrix elements; thorough: 2^15
        #          sub-pixels) and the direct numpy statement at other decades / with a nearly uniform noise map
        mids = [("frame", rng.choice([65792, 66306, 66564]))]  # 256x257, 257x258, 258x258 excluded -> see _factor
        if thorough:
            mids += [("sub", 33000), ("frame", 131841)]
        # quick: the mapping-matrix world (n x P > 2^16 elements, both formalisms); thorough: also frames beyond 2^16 /
        # 2^17 pixels with the unmasked block in the BOTTOM-RIGHT corner (row-major pixel numbers beyond 2^16) and
        # more than 2^15 sub-pixels
        for dim, size in mids:
            c = self._large_case(dim, size, size, rng)
            if c is not None and thorough:
                sp = c["spec"]
                if dim == "frame":
                    sp["block"][0] = sp["h"] - sp["block"][0] - sp["block"][2]
                    sp["block"][1] = sp["w"] - sp["block"][1] - sp["block"][3]
                yield {**{k: v for k, v in c.items() if k != "_cost"}, "tag": f"mid_{dim}"}
        c = self._large_case("params", 132 if not thorough else 160, 0, rng)
        if c is not None:
            c["spec"]["n"] = 520 if not thorough else 640  # n x P > 2^16 elements in the mapping matrices
            need = c["spec"]["n"] * 11 // 10 + 12
            bw = c["spec"]["block"][3]
            c["spec"]["block"][2] = -(-need // bw)
            c["spec"]["h"] = max(c["spec"]["h"], c["spec"]["block"][0] * 2 + c["spec"]["block"][2] + 1)
            yield {**{k: v for k, v in c.items() if k != "_cost"}, "tag": "mid_elements", "hint": c["size"]}
        for k, near_u in ([(-40, False), (35, True), (0, True), (-8, False)]
                          + ([(-25, True), (45, False), (12, False), (-150, False), (150, False)] if thorough else [])):
            dim, size = rng.choice([("pixels", rng.randint(90, 150)), ("params", rng.randint(30, 60)),
                                    ("sub", rng.randint(150, 300)), ("objs", rng.randint(3, 5))])
            if k == -8:  # many regularized parameters at a moderately larger decade of H: a determinant overflows
                dim, size = "params", rng.randint(70, 90)
            c = self._large_case(dim, size, size, rng)
            if c is None:
                continue
            c = {k_: v for k_, v in c.items() if k_ != "_cost"}
            c["spec"]["scale_k"] = k
            c["spec"]["near_uniform_noise"] = near_u
            for o in c["spec"]["objs"]:
                if o.get("reg") is not None:
                    # (capped, and no regularization at all where F is scaled up beyond 2^50: see REG_CAP)
                    o["reg"] = None if -2 * k > 50 else str(Fraction(o["reg"]) * _pow2(min(-k, REG_CAP)))
            c["diag_value"] = str(Fraction(1, 100) * _pow2(-2 * k))
            c["rel"] = True
            c["conf"] = NOCHECK
            yield {**c, "tag": "direct_decade" + ("_near_uniform" if near_u else "")}
        # ---- 19. (last, so that every case above keeps its draw of the seed) a slot present while its COMPANION is absent,
        #          across two worlds: H preloaded but not log det H (and F but not H), the regularization coefficient
        #          changes, the slot is re-assigned — whatever an inversion left behind on the shared Preloads object for
        #          the absent companion is stale now (seeded change C08-r6m2)
        for sw in (False, True):
            mix = rng.choice([["m"], ["m", "f"], ["m", "fr"]])
            w = plain(mix)
            edit = self._edit(rng, w, "reg", False)
            present = rng.choice([["regularization_matrix"], ["regularization_matrix", "curvature_matrix"],
                                  ["regularization_matrix", "operated_mapping_matrix"]])
            phases = [{"w": x, "history": [list(ACCESSES)]} for x in ("a", "b", "a")]
            yield {"tag": "reuse_companion_absent", "kind": "reuse", "world": w, "edit": edit, "settings_w": sw,
                   "diag_value": None, "pos": False, "p_initial": None, "entry": None, "pre_use_w": None,
                   "slots": present, "source": "same", "wt_kind": "fresh", "refresh": "assign", "objs_mode": "rebuild",
                   "readonly": False, "derive": False, "phases": phases,
                   "history": [a for ph in phases for a in ph["history"]]}

    # -- running a reuse history ---------------------------------------------------------------------
    def _fresh_w_tilde(self, wd, foreign=False):
        from autoarray.dataset.imaging.w_tilde import WTildeImaging
        from autoarray.inversion.inversion.imaging import inversion_imaging_util

        noise_native = np.array(wd.ds.noise_map.native)
        if foreign:
            noise_native = noise_native * 2.0
        cp, ix, ln = inversion_imaging_util.w_tilde_curvature_preload_imaging_from(
            noise_map_native=noise_native, kernel_native=np.array(wd.ds.psf.native),
            native_index_for_slim_index=np.array(wd.ds.mask.derive_indexes.native_for_slim))
        nv = wd.ds.noise_map[0] * (2.0 if foreign else 1.0)
        return WTildeImaging(curvature_preload=cp, indexes=ix.astype("int"), lengths=ln.astype("int"),
                             noise_map_value=nv)

    def _apply_inplace(self, aa, wd, spec_from, spec_to, edit):
        """move the REAL objects of `wd` from world `spec_from` to `spec_to` through the public in-place routes:
        Array2D.__setitem__ on the dataset's data, re-assignment of a linear object's regularization, numpy
        item assignment on the caller-owned mapping matrix of a func list"""
        k = edit["kind"]
        if k == "reg":
            j = edit["obj"]
            wd.objs[j].regularization = aa.reg.Constant(coefficient=_frac(spec_to["objs"][j]["reg"]))
        elif k == "data":
            mask = spec_to["mask"]
            for idx, _ in edit["set"]:
                slim = sum(1 for c in mask[:idx] if c == "0")
                wd.ds.data[slim] = _frac(spec_to["data"][idx])
        elif k == "func":
            j = edit["obj"]
            for r, c, _ in edit["set"]:
                wd.objs[j].mapping_matrix[r, c] = _frac(spec_to["objs"][j]["mm"][r][c])
        else:
            raise ValueError(f"in-place edit of {k}")
        wd.spec = spec_to

    def _fits_of(self, aa, case, spec):
        fits = []
        for _ in range(2):
            wd = World(aa, spec)
            inv = aa.Inversion(dataset=wd.ds, linear_obj_list=wd.objs, settings=wd.settings(case["settings_w"], case))
            read_all(inv, ACCESSES)
            fits.append(aa.m.MockFitImaging(dataset=wd.ds, noise_map=wd.ds.noise_map, inversion=inv))
        return fits

    @staticmethod
    def _decoy_reads(aa, names, inv, pre, wd, case, other_settings):
        done = []
        for nm in names:
            try:
                if nm == "other_formalism":
                    if other_settings is not None:
                        o = aa.Inversion(dataset=wd.ds, linear_obj_list=wd.objs, settings=other_settings)
                        read_all(o, ACCESSES)
                elif nm.startswith("pre."):
                    getattr(pre, nm[4:])
                elif nm.startswith("ds."):
                    getattr(wd.ds, nm[3:])
                else:
                    v = getattr(inv, nm)
                    if isinstance(v, dict):
                        list(v.values())
                done.append(nm)
            except Exception as e:  # several of them are documented to raise for some mixes; not judged
                done.append(f"{nm}!{type(e).__name__}")
        return done

    def _fault(self, aa, kind, case, wd, st, pre, vals, eff_w, dim):
        """an operation on the shared objects that raises in the middle; everything is restored afterwards"""
        try:
            if kind == "bad_reg_shape":
                if "regularization_matrix" not in vals:
                    return "n/a"
                keep = pre.regularization_matrix
                pre.regularization_matrix = np.zeros((dim + 1, dim + 1))
                try:
                    inv = make_inversion(aa, wd, case, st, preloads=pre)
                    inv.curvature_reg_matrix
                    inv.reconstruction
                    return "no exception"
                finally:
                    pre.regularization_matrix = keep
            if kind == "foreign_w_tilde":
                if "w_tilde" not in vals or not eff_w:
                    return "n/a"
                keep = pre.w_tilde
                pre.w_tilde = self._fresh_w_tilde(wd, foreign=True)
                try:
                    inv = make_inversion(aa, wd, case, st, preloads=pre)
                    read_all(inv, ACCESSES)
                    return "no exception"
                finally:
                    pre.w_tilde = keep
            if kind == "raising_obj":
                base_cls = aa.m.MockLinearObjFuncList

                class Raising(base_cls):
                    @property
                    def mapping_matrix(self):
                        raise RuntimeError("user function failed")

                bad = Raising(parameters=1, grid=aa.Grid2D.from_mask(mask=wd.mask), mapping_matrix=None)
                ds = wd.dataset_for(case)
                inv = aa.Inversion(dataset=ds, linear_obj_list=wd.objs + [bad], settings=st, preloads=pre)
                for a in ("mapping_matrix", "data_vector", "curvature_matrix", "curvature_reg_matrix",
                          "reconstruction"):
                    try:
                        getattr(inv, a)
                    except Exception:
                        pass
                return "raised"
        except Exception as e:
            return type(e).__name__
        return "n/a"

    # reads of an inversion whose returned objects the caller of an ownership history scribbles over, beyond the ten
    # observed ones (dict- / list-valued and derived quantities; every one hands out arrays)
    OWN_READS = ["mapping_matrix", "operated_mapping_matrix_list", "linear_func_operated_mapping_matrix_dict",
                 "mapper_operated_mapping_matrix_dict", "data_linear_func_matrix_dict",
                 "regularization_matrix_reduced", "curvature_reg_matrix_reduced", "reconstruction_reduced",
                 "reconstruction_dict", "mapped_reconstructed_data_dict", "mapped_reconstructed_image"]

    @staticmethod
    def _own_arrays(wd, vals, invs):
        """every numpy buffer the API returned to, or accepted from, the caller in one round of an ownership history"""
        arrs = list(wd.inputs)
        ds = wd.ds
        for nm in ("data", "noise_map", "psf", "convolver", "w_tilde", "grids", "noise_covariance_matrix"):
            if nm in vars(ds):
                arrs += arrays_behind(vars(ds)[nm], 2)
        arrs += arrays_behind(wd.mask, 1)
        for o in wd.objs:
            arrs += arrays_behind({k: v for k, v in vars(o).items() if k not in ("regularization",)}, 2)
        for inv in invs:
            for nm in ACCESSES + C15.OWN_READS:
                try:
                    arrs += arrays_behind(getattr(inv, nm), 0)
                except Exception:
                    pass  # several are documented to raise for some mixes
            arrs += arrays_behind({k: v for k, v in vars(inv).items()
                                   if k not in ("dataset", "linear_obj_list", "settings", "preloads", "run_time_dict")}, 1)
        arrs += arrays_behind(vals, 1)
        return arrs

    def _run_reuse(self, aa, case):
        from autoarray import exc

        specs = {"a": case["world"], "b": apply_edit(case["world"], case["edit"])}
        wcs = {x: world_cfg(specs[x]) for x in "ab"}
        eff_w = factory_choice(wcs["a"], case["settings_w"], None)
        sub = {x: {**case, "world": specs[x]} for x in "ab"}
        own = bool(case.get("own"))          # R5-B: fresh equal inputs every round, everything scribbled over after it
        fresh_objs = own or bool(case.get("fresh_objs"))
        refs_mem = {}

        def refs_for(x, ph):
            conf = ph.get("conf") or None
            k = (x, json.dumps(conf or {}, sort_keys=True))
            if k not in refs_mem:
                with conf_in_force(conf, ph.get("conf_how")):
                    refs_mem[k] = self._reference({**sub[x], "_conf": conf} if conf else sub[x], eff_w)
            return refs_mem[k]

        for x in "ab":  # as before round 5: both worlds must be invertible under the pinned configuration
            if refs_for(x, {}) is None:
                raise Skip("a preload-free reference inversion raises InversionException")
        for ph in case["phases"]:
            if refs_for(ph["w"], ph) is None:
                raise Skip("a preload-free reference inversion raises InversionException")
        st = settings_of(aa, case["settings_w"], case)  # ONE settings object for the whole history
        other_st = None if wcs["a"]["all_func_lists"] else settings_of(aa, not eff_w, case)
        worlds = {}
        same = case["objs_mode"] == "same"

        def world_for(x):
            if fresh_objs:
                return World(aa, specs[x])
            if same:
                if "w" not in worlds:
                    worlds["w"], worlds["cur"] = World(aa, specs[x]), x
                if worlds["cur"] != x:
                    self._apply_inplace(aa, worlds["w"], specs[worlds["cur"]], specs[x], case["edit"])
                    worlds["cur"] = x
                return worlds["w"]
            if x not in worlds:
                worlds[x] = World(aa, specs[x])
            return worlds[x]

        ro = bool(case.get("readonly"))
        lay = case.get("slot_layout")

        def target(x, slots, R):
            out = {}
            for s in slots:
                if s == "w_tilde":
                    out[s] = self._fresh_w_tilde(World(aa, specs[x]))
                    continue
                v = R["slots"].get(s)
                if v is not None:
                    out[s] = v
            return out

        pre = None
        cur_target = {}
        phases_obs = []
        for ph in case["phases"]:
            x = ph["w"]
            R = refs_for(x, ph)
            with conf_in_force(ph.get("conf"), ph.get("conf_how")):
                wd = world_for(x)
                tgt = target(x, ph.get("slots", case["slots"]), R)
                setter_errors = []
                if own:
                    pre, cur_target = None, {}
                if fresh_objs:
                    st = settings_of(aa, case["settings_w"], case)
                if pre is None:
                    pre = aa.Preloads(**{s: owned_copy(s, v, ro, lay) for s, v in tgt.items()},
                                      **(case.get("pre_kw") or {}))
                else:
                    if case.get("derive"):
                        # objects derived by copying carry whatever private state the originals had
                        pre = _copy.copy(pre)
                        st = _copy.deepcopy(st)
                    changed = [s for s in ALL_SLOTS
                               if (s in tgt or s in cur_target) and not same_value(tgt.get(s), cur_target.get(s))]
                    how = case["refresh"]
                    if how == "setter" and changed:
                        called = []
                        fits = self._fits_of(aa, case, specs[x])
                        self._keep_alive = fits
                        for s in changed:
                            m = SETTER_OF.get(s)
                            if m and m not in called:
                                called.append(m)
                                try:
                                    getattr(pre, m)(fit_0=fits[0], fit_1=fits[1])
                                except (IndexError, NotImplementedError) as e:
                                    setter_errors.append(f"{m}: {type(e).__name__}")
                        for s in changed:  # what no setter refreshed (w_tilde; a slot its setter left alone)
                            cur = getattr(pre, s)
                            if cur is not None and same_value(cur, cur_target.get(s)) and not same_value(cur, tgt.get(s)):
                                setattr(pre, s, owned_copy(s, tgt.get(s)))
                    elif how == "inplace":
                        for s in changed:
                            cur, new = getattr(pre, s), tgt.get(s)
                            if isinstance(cur, np.ndarray) and new is not None and cur.shape == np.shape(new):
                                cur[...] = new  # the caller edits its own array in place
                            elif isinstance(cur, dict) and isinstance(new, list) and len(cur) == len(new) and all(
                                    cur[i].shape == np.shape(new[i]) for i in range(len(new))):
                                for i in range(len(new)):
                                    cur[i][...] = new[i]
                            else:
                                setattr(pre, s, owned_copy(s, new))
                    else:
                        for s in changed:
                            setattr(pre, s, owned_copy(s, tgt.get(s), ro, lay))
                cur_target = tgt
                vals = {s: getattr(pre, s) for s in ALL_SLOTS if getattr(pre, s, None) is not None}
                fp0 = {s: fingerprint(s, v) for s, v in vals.items() if s in ARRAY_SLOTS}
                heap, pre_refs = [], {}
                for s in ALL_SLOTS:
                    if s not in vals:
                        continue
                    if s == "log_det_regularization_matrix_term":
                        pre_refs[s] = fbits(vals[s])
                    else:
                        pre_refs[s] = len(heap)
                        heap.append(slot_cell(s, vals[s]))
                fault = None
                if ph.get("fault"):  # after the fingerprints: a failed operation must not touch the preloads either
                    fault = self._fault(aa, ph["fault"], case, wd, st, pre, vals, eff_w, wcs[x]["dim"])
                steps, classes, decoys, invs = [], [], [], []
                for accs in ph["history"]:
                    try:
                        inv = make_inversion(aa, wd, case, st, preloads=pre)
                        invs.append(inv)
                        classes.append(type(inv).__name__)
                        if ph.get("decoy"):
                            decoys = self._decoy_reads(aa, ph["decoy"], inv, pre, wd, case, other_st)
                        out = [read(inv, a) for a in accs]
                    except exc.InversionException:
                        out = "inversion_exception"
                    changed_fp = sorted(s for s in fp0 if fingerprint(s, vals[s]) != fp0[s])
                    steps.append({"out": out, "changed": changed_fp})
                po = {
                    "w": x, "filled": sorted(vals), "pre_use_w": pre.use_w_tilde, "classes": sorted(set(classes)),
                    "steps": steps, "setter_errors": setter_errors, "fault": fault, "decoys": decoys,
                    "base": R["base"],
                    "_model": {"heap": heap, "preloads": pre_refs, "coarse": R["coarse"],
                               "tables": self._merged_tables({eff_w: R})},
                }
                if ph.get("conf") is not None or case.get("control"):
                    # R5-D: the values the docstrings promise are in force now; the model gets the diagonal value
                    # from here (never through the code under test), and the same values passed as EXPLICIT
                    # arguments to a preload-free inversion of freshly built objects are the control
                    eff = effective_settings(case, ph.get("conf"))
                    po["eff"] = eff
                    po["_model"]["diag_bits"] = fbits(eff["diag"])
                    try:
                        wc_ = World(aa, specs[x])
                        ctl = aa.Inversion(dataset=wc_.ds, linear_obj_list=wc_.objs,
                                           settings=explicit_settings_of(aa, case["settings_w"], case, eff))
                        po["control"] = dict(zip(ACCESSES, read_all(ctl, ACCESSES)))
                    except exc.InversionException:
                        po["control"] = "inversion_exception"
                if own:
                    # a preload-free inversion of this round's (fresh, equal) inputs, then the caller edits in place
                    # every array it was handed or had handed over in this round
                    try:
                        fr = make_inversion(aa, wd, case, st)
                        invs.append(fr)
                        po["fresh"] = dict(zip(ACCESSES, read_all(fr, ACCESSES)))
                    except exc.InversionException:
                        po["fresh"] = "inversion_exception"
                    po["scribbled"] = scribble(self._own_arrays(wd, vals, invs), ph.get("scribble", "nan"))
                phases_obs.append(po)
        return {"kind": "reuse", "eff_w": eff_w, "pre_use_w": None, "phases": phases_obs,
                "filled": sorted({s for p in phases_obs for s in p["filled"]}),
                "steps": [s for p in phases_obs for s in p["steps"]]}

    def _phase_case(self, case, ph, x):
        spec = case["world"] if x == "a" else apply_edit(case["world"], case["edit"])
        out = {**case, "world": spec, "history": ph["history"]}
        if "slots" in ph:
            out["slots"] = ph["slots"]
        return out

    def _oracle_reuse(self, case, obs):
        eff_w = obs["eff_w"]
        key = "w" if eff_w else "m"
        want_cls = "InversionImagingWTilde" if eff_w else "InversionImagingMapping"
        ctl_seen = {}
        for k, (ph, po) in enumerate(zip(case["phases"], obs["phases"])):
            conf_txt = ""
            if ph.get("conf") is not None:
                conf_txt = (f", configuration in force general.inversion.{conf_values(ph['conf'])} (set by "
                            f"{ph.get('conf_how') or 'item assignment'}), settings arguments "
                            f"diag={case.get('diag_value')} pos={case.get('pos')} p_initial={case.get('p_initial')}")
            where = (f"reuse history, phase {k + 1}/{len(case['phases'])} (world {po['w'].upper()}, "
                     f"change={case['edit']['kind']}, refresh={case['refresh']}, objects={case['objs_mode']}"
                     f"{', fresh equal inputs every round, all arrays of the previous round edited in place' if case.get('own') else ''}"
                     f"{', slots ' + str(ph['slots']) if 'slots' in ph else ''}{conf_txt}"
                     f"{', Preloads/settings copied' if case.get('derive') else ''}"
                     f"{', decoy reads first' if ph.get('decoy') else ''}"
                     f"{', after a failed operation (' + ph['fault'] + ')' if ph.get('fault') else ''}): ")
            if po["classes"] and po["classes"] != [want_cls]:
                return False, where + f"factory built {po['classes']}, expected {want_cls}"
            pc = self._phase_case(case, ph, po["w"])
            exact = self._exact(pc, po)
            pos_now = po["eff"]["pos"] if "eff" in po else pos_eff(case)
            ok, detail = self._oracle_steps(pc, po, po["base"], exact, key,
                                            (not pos_now) and self._well_conditioned(po["base"]))
            if not ok:
                return False, where + "every filled slot holds the value computed from this phase's identical " \
                                      "dataset and linear objects, yet " + detail
            if "fresh" in po:
                # R5-B: a preload-free inversion of freshly built equal inputs, after the caller has edited in place
                # every array earlier rounds handed out or were given, reports the same as the very first one
                if isinstance(po["fresh"], str):
                    return False, where + f"the preload-free inversion of fresh equal inputs raised {po['fresh']}"
                for a in ACCESSES:
                    if po["fresh"][a] != po["base"][a]:
                        _, d = self._close(po["fresh"][a], po["base"][a], 0.0)
                        return False, where + (f"(b) {a} of a preload-free inversion of fresh equal inputs differs from "
                                               f"the first computation (max |Δ|={d:.3e}): something handed out earlier "
                                               f"is shared with later objects")
            if "control" in po:
                # R5-D: the result follows the configuration value in force at call time = the same values passed
                # explicitly; and explicit arguments are immune to the configuration
                ctl = po["control"]
                if isinstance(ctl, str):
                    return False, where + f"the control inversion with explicit settings {po['eff']} raised {ctl}"
                for a in ACCESSES:
                    if ctl[a] != po["base"][a]:
                        _, d = self._close(ctl[a], po["base"][a], 0.0)
                        return False, where + (f"(config) {a} with the settings defaults taken from the configuration "
                                               f"differs from passing the values in force {po['eff']} explicitly "
                                               f"(max |Δ|={d:.3e})")
                # an independent statement of what the diagonal value does: the unregularized diagonal entries of
                # two phases of the same world differ by the difference of the values in force, nothing else moves
                wcfg = world_cfg(pc["world"])
                F = floats_of(po["base"]["curvature_matrix"])
                P = wcfg["dim"]
                if F.size == P * P:
                    prev = ctl_seen.get(po["w"])
                    if prev is not None:
                        F0, d0 = prev
                        dv = po["eff"]["diag"] - d0
                        D = (F - F0).reshape(P, P)
                        want = np.zeros((P, P))
                        for i in wcfg["no_reg_idx"]:
                            want[i, i] = dv
                        tol = 1e-12 * max(1.0, float(np.max(np.abs(F))), float(np.max(np.abs(F0))))
                        if float(np.max(np.abs(D - want))) > tol:
                            return False, where + (f"(config) curvature_matrix does not follow "
                                                   f"no_regularization_add_to_curvature_diag_value: between two phases "
                                                   f"the value in force moved by {dv:.6g} but the matrix moved by "
                                                   f"max |Δ - expected|={float(np.max(np.abs(D - want))):.3e}")
                    ctl_seen.setdefault(po["w"], (F, po["eff"]["diag"]))
                s = floats_of(po["base"]["reconstruction"])
                if po["eff"]["pos"] and s.size and float(np.min(s)) < -1e-9 * max(1.0, float(np.max(np.abs(s)))):
                    return False, where + (f"(config) use_positive_only_solver is in force but the reconstruction has "
                                           f"a negative entry {float(np.min(s)):.3e}")
        return True, ""

    # ================================================================== round 4: large worlds
    LARGE_DIMS = ["pixels", "sub", "frame", "params", "kernel", "objs"]
    LARGE_CASE_S = 16.0   # estimated pure-Python seconds a single large case may cost
    LARGE_TOTAL_S = 55.0  # … and all of them together
    W_TILDE_MAX_S = 7.0   # the other formalism is run too while its tables are affordable
    LARGE_W_CASE_S = 45.0  # one w-tilde-only case per constant at the size c + c//3 + 1, run last

    @staticmethod
    def _factor(n, lo=3):
        """(a, b), a != b, a * b == n, both >= lo, as close to 2:3 as possible; None when there is none"""
        best = None
        for a in range(lo, int(n ** 0.5) + 1):
            if n % a == 0 and n // a != a and n // a >= lo:
                b = n // a
                score = abs(a / b - 2 / 3)
                if best is None or score < best[0]:
                    best = (score, a, b)
        return None if best is None else (best[1], best[2])

    def _large_case(self, dim, size, c, rng):
        """a case whose `dim` size is `size` (all other sizes modest), with its estimated cost; None = infeasible"""
        if size < 1:
            return None
        seed = rng.randrange(1 << 30)
        kh, kw = rng.choice([(3, 5), (5, 3), (3, 3)])
        signed = rng.random() < 0.6
        n, H, W, block = None, None, None, None
        objs = [{"kind": "mapper", "shape": list(rng.choice([(3, 4), (4, 3), (4, 5)])), "sub": 1, "reg": "1"}]
        extra = rng.choice([[], [{"kind": "func", "p": 2, "seed": seed + 1, "signed": True, "reg": None,
                                  "override": rng.random() < 0.5}]])
        mesh_lo = 3
        if dim == "pixels":
            n = size
            objs += extra
        elif dim == "sub":
            sub = rng.choice([2, 3])
            n = max(6, -(-size // (sub * sub)))  # n * sub^2 >= size > (n-1) * sub^2
            objs[0]["sub"] = sub
        elif dim == "frame":
            n = 60
            f = self._factor(size, lo=16)
            if f is None:
                W = rng.choice([17, 19, 23])
                H = size // W
                if H < 16:
                    return None
                # H*W < size: the largest non-square frame not above the size; one more row would pass it
            else:
                H, W = f if rng.random() < 0.5 else (f[1], f[0])
            objs += extra
        elif dim == "params":
            # a non-square mesh a x b (both >= 3) plus, where size has no such factorisation, up to three
            # func-list columns: mesh pixels + columns = size parameters exactly
            best = None
            k_func = rng.choice([0, 2])  # with / without a func list next to the mesh
            for a in range(3, int(size ** 0.5) + 2):
                b = (size - k_func) // a
                rem = size - k_func - a * b
                if b >= 3 and b != a and rem <= 3:
                    score = (rem > 0, abs(min(a, b) / max(a, b) - 2 / 3))
                    if best is None or score < best[0]:
                        best = (score, a, b, rem)
            if best is None:
                return None
            _, a, b, rem = best
            objs = [{"kind": "mapper", "shape": [a, b] if rng.random() < 0.5 else [b, a], "sub": 1, "reg": "1"}]
            if rem + k_func:
                objs.append({"kind": "func", "p": rem + k_func, "seed": seed + 1, "signed": True, "reg": None,
                             "override": False})
            n = max(150, min(600, size // 3))
        elif dim == "kernel":
            cands = [(a, b) for a in range(1, 40, 2) for b in range(1, 40, 2) if a * b == size and a != b]
            if not cands:
                cands = [(a, b) for a in range(3, 40, 2) for b in range(3, 40, 2)
                         if a != b and a * b <= size and (a + 2) * b > size and abs(a - b) <= 6]
                if not cands:
                    return None
            kh, kw = rng.choice(cands)
            n = 90
            objs += extra
        elif dim == "objs":
            if size < 2 or size > 96:
                return None
            n = 80
            objs = [{"kind": "mapper", "shape": [3, 3], "sub": 1, "reg": "1"}] + [
                {"kind": "func", "p": 1, "seed": seed + 1 + k, "signed": k % 2 == 0,
                 "reg": None, "override": k % 3 == 0} for k in range(size - 1)]
        if len(objs) > 1 and rng.random() < 0.5:
            objs = objs[1:] + objs[:1]  # func lists BEFORE the mapper: blocks land in the other triangle
        my, mx = max(kh // 2, 1), max(kw // 2, 1)
        if block is None:
            if H is None:
                # a non-square block hugging the top-left margin exactly (footprints touch the frame edge)
                need = n * 11 // 10 + 12  # room for the hole pattern
                bw = rng.choice([29, 37, 41, 53]) if n > 400 else rng.choice([7, 9, 11])
                bh = -(-need // bw)
                H, W = bh + 2 * my + rng.choice([0, 1, 3]), bw + 2 * mx + rng.choice([0, 2, 5])
            else:
                bw = min(W - 2 * mx, 13)
                bh = -(-(n * 11 // 10 + 12) // bw)
                if bh > H - 2 * my or bw < 3:
                    return None
            block = [my, mx, bh, bw]
        P = sum(o["shape"][0] * o["shape"][1] if o["kind"] == "mapper" else o["p"] for o in objs)
        sub_total = n * max(o.get("sub", 1) for o in objs) ** 2
        # without numba the w-tilde tables cost ~1.3e-6 s per PAIR of unmasked pixels (+ the kernel overlaps)
        cost_w = n * n * 1.3e-6 + n * (2 * kh - 1) * (2 * kw - 1) * kh * kw * 2.0e-6 + n * P * 4.0e-6
        forms = [False] + ([True] if cost_w <= self.W_TILDE_MAX_S and P <= 700 else [])
        cost = (0.4 + n * 6.0e-4 + H * W * 2.0e-5 + sub_total * 3.0e-5 + n * P * 3.0e-6 * (kh * kw / 9.0)
                + (P / 1000.0) ** 3 * 6.0 + len(objs) * 0.02)
        if True in forms:
            cost += cost_w
        slots = rng.choice([list(CORE), ["curvature_matrix", "regularization_matrix"],
                            ["operated_mapping_matrix", "curvature_matrix"],
                            ["regularization_matrix", "log_det_regularization_matrix_term", "w_tilde"]])
        return {"tag": f"large_{dim}", "kind": "large", "dim": dim, "size": size, "hint": c,
                "spec": {"h": H, "w": W, "block": block, "n": n, "holes": True,
                         "pixel_scales": rng.choice([[1.0, 0.5], [0.25, 0.75], [2.0, 2.0]]),
                         "psf": {"kh": kh, "kw": kw, "signed": signed}, "seed": seed, "objs": objs},
                "forms": forms, "settings_w": False, "pos": False, "diag_value": "1/100", "pre_use_w": None,
                "slots": slots, "source": "same", "wt_kind": "dataset",
                "history": [list(ACCESSES), ["curvature_reg_matrix", "reconstruction", "curvature_matrix",
                                             "data_vector", "mapped_reconstructed_data",
                                             "log_det_curvature_reg_matrix_term"]],
                "_cost": cost}

    def generate_large(self, hints, rng):
        """for every new integer constant c of the anchored source: worlds whose size in EVERY dimension the
        inversions loop over — unmasked pixels (rows of the mapping matrix), total sub-pixels, frame pixels H·W
        (non-square), total parameters (mesh pixels + func-list columns), kernel pixels, number of linear
        objects — is c + c//3 + 1 (a non-multiple above), 2c + 1, c + 1, c, c − 1; sizes above c first, cheap
        before expensive, within an estimated budget of pure-Python time.  No model comparison: the oracle
        states the normal equations directly with numpy (see _run_large)."""
        plans = []
        for c in sorted(set(int(x) for x in hints)):
            for pr, size in ((0, c + c // 3 + 1), (1, 2 * c + 1), (2, c + 1), (3, c), (3, c - 1)):
                for dim in self.LARGE_DIMS:
                    case = self._large_case(dim, size, c, rng)
                    if case is not None and case["_cost"] <= self.LARGE_CASE_S:
                        plans.append((pr, case["_cost"], len(plans), case))
        plans.sort(key=lambda t: t[:3])
        total = 0.0
        last = []
        for pr, cost, _k, case in plans:
            if total + cost > self.LARGE_TOTAL_S:
                continue
            total += cost
            yield {k: v for k, v in case.items() if k != "_cost"}
            if pr == 0 and case["dim"] == "pixels" and True not in case["forms"]:
                # the w-tilde formalism ALONE at the non-multiple size above c: its tables cost n^2 without
                # numba, so it runs last and only while it is affordable at all
                n = case["spec"]["n"]
                if n * n * 1.3e-6 <= self.LARGE_W_CASE_S:
                    last.append({**{k: v for k, v in case.items() if k != "_cost"}, "tag": "large_pixels_w_tilde",
                                 "forms": [True], "history": case["history"][1:]})
        yield from last

    def _run_large(self, aa, case):
        from autoarray import exc

        L = LargeWorld(aa, case["spec"])
        diag = _frac(case["diag_value"])
        A, D, F = L.reference(diag)
        P = L.P
        keep = [i for i in range(P) if i not in set(L.no_reg_idx)]
        has_reg = any(L.regs)
        obs = {"kind": "large", "n": L.n, "frame": [case["spec"]["h"], case["spec"]["w"]], "params": P,
               "sub_pixels": L.n * max(o.get("sub", 1) for o in case["spec"]["objs"]) ** 2,
               "kernel": [case["spec"]["psf"]["kh"], case["spec"]["psf"]["kw"]], "objs": len(L.objs),
               "forms": {}, "filled": [], "eff_w": False, "pre_use_w": None}

        def inf(a):
            a = np.asarray(a, dtype=np.float64)
            return float(np.max(np.abs(a))) if a.size else 0.0

        for w_form in case["forms"]:
            fo = {"checks": [], "steps": [], "classes": []}
            obs["forms"]["w" if w_form else "m"] = fo
            st = settings_of(aa, w_form, case)
            try:
                inv = aa.Inversion(dataset=L.ds, linear_obj_list=L.objs, settings=st)
                fo["classes"].append(type(inv).__name__)
                v = {a: np.array(getattr(inv, a), dtype=np.float64, copy=True) for a in ACCESSES}
            except exc.InversionException:
                fo["err"] = "inversion_exception"
                continue

            rel = bool(case.get("rel"))

            def chk(name, err, scale, tol=1e-9, additive=False):
                # worlds at another decade (`rel`): the tolerance is relative to the natural scale alone (not for
                # the additive log-determinant)
                bound = scale if (rel and not additive and scale > 0.0) else max(1.0, scale)
                fo["checks"].append([name, float(err), float(tol * bound)])

            Hm = v["regularization_matrix"].reshape(P, P) if v["regularization_matrix"].size == P * P \
                else np.zeros((P, P))
            s = v["reconstruction"]
            FH = F + Hm if has_reg else F
            chk("operated_mapping_matrix = true convolution of the mapping matrices",
                inf(v["operated_mapping_matrix"] - A), inf(A))
            chk("data_vector = A^T (d / sigma^2)", inf(v["data_vector"] - D), inf(D))
            chk("curvature_matrix = A^T diag(sigma^-2) A (+ diagonal term)", inf(v["curvature_matrix"] - F), inf(F))
            chk("curvature_reg_matrix = F + H", inf(v["curvature_reg_matrix"] - FH), inf(FH))
            rowsum = float(np.max(np.sum(np.abs(FH), axis=1)))
            chk("reconstruction solves (F + H) s = D (backward error)", inf(FH @ s - D),
                rowsum * inf(s) + inf(D))
            chk("mapped_reconstructed_data = A s", inf(v["mapped_reconstructed_data"] - A @ s),
                float(np.max(np.sum(np.abs(A), axis=1))) * inf(s))
            if has_reg:
                Hr, sr = Hm[np.ix_(keep, keep)], s[keep]
                chk("regularization_term = s^T H s", abs(float(v["regularization_term"]) - float(sr @ Hr @ sr)),
                    float(np.abs(sr) @ np.abs(Hr) @ np.abs(sr)))
                if len(keep) <= 400 and rel:
                    # (decade worlds only, so that the ordinary direct cases keep their round-4 meaning)
                    evh = np.linalg.eigvalsh((Hr + Hr.T) / 2.0)
                    if evh[0] > 0 and evh[-1] / evh[0] < 1.0e15:
                        # H = c^2 L + 1e-8 is nearly singular by construction (L is a graph Laplacian): the smallest
                        # eigenvalue, hence the log-determinant, is only known to ~eps * cond
                        ldh = float(np.sum(np.log(evh)))
                        chk("log_det_regularization_matrix_term = log det H",
                            abs(float(v["log_det_regularization_matrix_term"]) - ldh), abs(ldh),
                            tol=1e-9 + 64 * 2.3e-16 * float(evh[-1] / evh[0]) * len(keep), additive=True)
                if len(keep) <= 400:
                    FHr = FH[np.ix_(keep, keep)]
                    ev = np.linalg.eigvalsh((FHr + FHr.T) / 2.0)
                    if ev[0] > 0 and ev[-1] / ev[0] < 1.0e4:
                        ld = float(np.sum(np.log(ev)))
                        chk("log_det_curvature_reg_matrix_term = log det (F + H)",
                            abs(float(v["log_det_curvature_reg_matrix_term"]) - ld), abs(ld), additive=True)
            # preload transparency at this size: slots taken from the fresh reads, shared by successive inversions
            vals = {}
            for sname in case["slots"]:
                if sname == "w_tilde":
                    if w_form:
                        vals[sname] = L.ds.w_tilde
                elif sname == "log_det_regularization_matrix_term":
                    vals[sname] = float(v[sname])
                elif sname == "operated_mapping_matrix":
                    vals[sname] = np.array(inv.operated_mapping_matrix, copy=True)
                elif sname in ("curvature_matrix", "regularization_matrix"):
                    vals[sname] = v[sname].reshape(P, P).copy()
            pre = aa.Preloads(**vals)
            fo["filled"] = sorted(vals)
            obs["filled"] = sorted(set(obs["filled"]) | set(vals))
            fp0 = {sn: fingerprint(sn, x) for sn, x in vals.items() if sn in ARRAY_SLOTS}
            for accs in case["history"]:
                step = {"mismatch": [], "changed": []}
                try:
                    inv2 = aa.Inversion(dataset=L.ds, linear_obj_list=L.objs, settings=st, preloads=pre)
                    for a in accs:
                        got = np.array(getattr(inv2, a), dtype=np.float64, copy=True)
                        if got.shape != v[a].shape or got.tobytes() != v[a].tobytes():
                            dlt = inf(got - v[a]) if got.shape == v[a].shape else float("inf")
                            step["mismatch"].append([a, dlt])
                except exc.InversionException:
                    step["mismatch"].append(["inversion_exception", float("inf")])
                step["changed"] = sorted(sn for sn in fp0 if fingerprint(sn, vals[sn]) != fp0[sn])
                fo["steps"].append(step)
        return obs

    def _oracle_large(self, case, obs):
        around = f" around the new constant {case['hint']}" if case.get("hint") != case.get("size") else ""
        where = (f"world with {case['dim']} = {case['size']}{around} ("
                 f"{obs['n']} unmasked pixels, frame {obs['frame']}, {obs['params']} parameters, "
                 f"{obs['sub_pixels']} sub-pixels, kernel {obs['kernel']}, {obs['objs']} linear objects), judged by the "
                 f"direct numpy statement of the normal equations: ")
        forms = obs["forms"]
        if len(forms) == 2 and ("err" in forms["m"]) != ("err" in forms["w"]):
            return False, where + "(c) one formalism raises InversionException, the other returns values"
        for key, fo in forms.items():
            name = "w-tilde" if key == "w" else "mapping"
            want = "InversionImagingWTilde" if key == "w" else "InversionImagingMapping"
            if fo["classes"] and fo["classes"] != [want]:
                return False, where + f"factory built {fo['classes']}, expected {want}"
            if "err" in fo:
                continue
            for nm, err, tol in fo["checks"]:
                if not err <= tol:
                    return False, where + (f"(c) {name} formalism: {nm} violated, |Δ|={err:.3e} > {tol:.3e} — the "
                                           f"value differs from what both formalisms must compute")
            for i, st in enumerate(fo["steps"]):
                if st["changed"]:
                    return False, where + (f"(b) {name} formalism: after inversion {i + 1} the preloaded array(s) "
                                           f"{st['changed']} have different bytes than before")
                if st["mismatch"]:
                    a, dlt = st["mismatch"][0]
                    return False, where + (f"(a) {name} formalism: {a} with preloads {fo.get('filled')} (inversion "
                                           f"{i + 1}) is not bit-identical to the preload-free value (max |Δ|={dlt:.3e})")
        return True, ""

    # ------------------------------------------------------------------ reference runs (no preloads)
    def _reference(self, case, w_form):
        """outputs and Ext samples of the preload-free inversion in formalism `w_form`
        (None when that formalism is not available or the inversion fails)."""
        import json

        # a world that only differs in HOW equal values are handed over (memory layout, alternative constructors)
        # is judged against the reference of its plain twin
        if any(case["world"].get(k) for k in VARIANT_KEYS):
            case = {**case, "world": plain_world(case["world"])}
        key = (json.dumps(case["world"], sort_keys=True), w_form, case["pos"], case.get("diag_value"),
               case.get("p_initial"), json.dumps(case.get("settings_kw") or {}, sort_keys=True),
               json.dumps(case.get("_conf") or {}, sort_keys=True))
        if key in self._ref_cache:
            return self._ref_cache[key]
        res = self._reference_uncached(case, w_form)
        if len(self._ref_cache) > 64:
            self._ref_cache.clear()
        self._ref_cache[key] = res
        return res

    def _reference_uncached(self, case, w_form):
        aa = load_autoarray()
        from autoarray import exc
        from autoarray.inversion.inversion import inversion_util

        w = case["world"]
        wc = world_cfg(w)
        if w_form and wc["all_func_lists"]:
            return None
        T = Tables()
        dim = wc["dim"]
        mranges = ranges(wc, w, "mapper")
        franges = ranges(wc, w, "func")

        def fresh(preloads=None):
            wd = World(aa, w)
            st = wd.settings(w_form, case)
            kw = {} if preloads is None else {"preloads": preloads(wd)}
            inv = aa.Inversion(dataset=wd.ds, linear_obj_list=wd.objs, settings=st, **kw)
            return wd, inv

        def lf_digest(inv):
            return digest(*[np.asarray(v) for v in inv.linear_func_operated_mapping_matrix_dict.values()])

        def common_rows(inv, lf0):
            """rows every run contributes: what the kernels returned on this run's arrays"""
            out = dict(zip(ACCESSES, read_all(inv, ACCESSES)))
            D, H, FH, s = out["data_vector"], out["regularization_matrix"], out["curvature_reg_matrix"], \
                out["reconstruction"]
            T.add("solve", FH, D, s)
            T.add("mapped_w" if w_form else "mapped_mapping", lf0, s, out["mapped_reconstructed_data"])
            if wc["has_reg"]:
                Hred = bits_of(inv.regularization_matrix_reduced)
                FHred = bits_of(inv.curvature_reg_matrix_reduced)
                sred = bits_of(inv.reconstruction_reduced)
                if not wc["all_reg"]:
                    T.add("reduce", H, Hred)
                    T.add("reduce", FH, FHred)
                    T.add("reduce_vec", s, sred)
                T.add("reg_term", Hred, sred, out["regularization_term"][0])
                T.add("log_det_curv_reg", FHred, out["log_det_curvature_reg_matrix_term"][0])
                T.add("log_det_reg", Hred, out["log_det_regularization_matrix_term"][0])
            return out

        try:
            wd, R0 = fresh()
            if type(R0).__name__ != ("InversionImagingWTilde" if w_form else "InversionImagingMapping"):
                raise RuntimeError(f"reference inversion has class {type(R0).__name__}")
            lf0 = lf_digest(R0)
            base = common_rows(R0, lf0)
        except exc.InversionException:
            return None
        T.const("lf_compute", lf0)
        T.const("reg_compute", base["regularization_matrix"])
        omm0 = base["operated_mapping_matrix"]
        T.const("omm_plain", omm0)
        T.add("omm_of_lf", lf0, omm0)
        coarse = None
        # slot values as a fresh inversion yields them (the Preloads owns copies)
        wd_s, src = fresh()
        slots = {
            "curvature_matrix": np.array(src.curvature_matrix, copy=True),
            "regularization_matrix": np.array(src.regularization_matrix, copy=True),
            "log_det_regularization_matrix_term": float(src.log_det_regularization_matrix_term),
            "operated_mapping_matrix": np.array(src.operated_mapping_matrix, copy=True),
        }
        try:
            wd_p, priv = fresh()
            slots["linear_func_operated_mapping_matrix_dict"] = [
                np.array(v, copy=True) for v in priv.linear_func_operated_mapping_matrix_dict.values()]
            slots["data_linear_func_matrix_dict"] = [
                np.array(v, copy=True) for v in priv.data_linear_func_matrix_dict.values()]
            slots["mapper_operated_mapping_matrix_dict"] = [
                np.array(v, copy=True) for v in priv.mapper_operated_mapping_matrix_dict.values()]
            dvm = fresh()[1]._data_vector_mapper
            slots["data_vector_mapper"] = None if dvm is None else np.array(dvm, copy=True)
            if w_form or not wc["no_reg_idx"]:
                cmd = fresh()[1]._curvature_matrix_mapper_diag
                slots["curvature_matrix_mapper_diag"] = None if cmd is None else np.array(cmd, copy=True)
            else:
                # mapping formalism with an unregularized object: the helper itself is not usable
                # (IndexError / misplaced diagonal addition) and the slot is never consulted there — left empty
                slots["curvature_matrix_mapper_diag"] = None
        except (AttributeError, NotImplementedError) as e:
            coarse = f"private accessor unavailable: {e}"
        dlf0 = digest(*slots.get("data_linear_func_matrix_dict", []))
        momd0 = digest(*slots.get("mapper_operated_mapping_matrix_dict", []))
        T.add("dlf_of_lf", lf0, dlf0)
        T.const("momd_compute", momd0)

        if not w_form:
            Fraw = inversion_util.curvature_matrix_via_mapping_matrix_from(
                mapping_matrix=np.array(src.operated_mapping_matrix), noise_map=np.array(wd_s.ds.noise_map))
            T.add("curv_of_omm", omm0, bits_of(Fraw))
            T.add("dv_of_omm", omm0, base["data_vector"])
        elif coarse is None:
            wt = wd.ds.w_tilde
            wt0 = digest(*wt_arrays(wt))
            T.const("wt_compute", wt0)
            T.add("wt_check", wt0, True)
            T.const("dv_w", bits_of(slots["data_vector_mapper"]))
            T.add("diag_of_wt", wt0, bits_of(slots["curvature_matrix_mapper_diag"]))
            Dv = floats_of(base["data_vector"])
            T.add("dv_func_entries", lf0, [[i, fbits(Dv[i])] for (a, b) in franges for i in range(a, b)])
            try:
                if wc["n_mappers"] > 1:
                    M = np.array(fresh()[1]._curvature_matrix_multi_mapper)
                    offw = []
                    for i, ri in enumerate(mranges):
                        for rj in mranges[i + 1:]:
                            offw += writes_of(M, dim, [ri], [rj])
                    T.add("off_diag_writes", wt0, offw)
                variants = [("default", None)]
                if wc["has_func_list"]:
                    variants += [
                        ("dlf", lambda wdx: aa.Preloads(data_linear_func_matrix_dict=dict(
                            enumerate(np.array(v, copy=True) for v in slots["data_linear_func_matrix_dict"])))),
                        ("momd", lambda wdx: aa.Preloads(mapper_operated_mapping_matrix_dict=dict(
                            enumerate(np.array(v, copy=True) for v in slots["mapper_operated_mapping_matrix_dict"])))),
                    ]
                for vname, pre in variants:
                    wdv, Rv = fresh(pre)
                    if wc["has_func_list"]:
                        P = np.array(Rv._curvature_matrix_func_list_and_mapper)
                        offw = writes_of(P, dim, mranges, franges)
                        if vname == "default":
                            T.add("func_off_default", lf0, offw)
                            T.add("func_diag_writes", lf0, writes_of(P, dim, franges, franges))
                        elif vname == "dlf":
                            T.add("func_off_via_dlf", dlf0, offw)
                        else:
                            T.add("func_off_via_momd", momd0, lf0, offw)
                    elif wc["n_mappers"] == 1:
                        P = np.array(Rv._curvature_matrix_mapper_diag)
                    else:
                        P = np.array(Rv._curvature_matrix_multi_mapper)
                    T.add("mirror", bits_of(P),
                          bits_of(inversion_util.curvature_matrix_mirrored_from(curvature_matrix=np.array(P))))
                    if vname != "default":
                        wdv2, Rv2 = fresh(pre)
                        common_rows(Rv2, lf0)
            except (AttributeError, NotImplementedError) as e:
                coarse = f"private accessor unavailable: {e}"
            except exc.InversionException:
                coarse = "alternative-route reference inversion failed"
        return {"base": base, "tables": T.t, "slots": slots, "coarse": coarse}

    # ------------------------------------------------------------------ implementation
    def _make_preloads(self, aa, case, wd, refs, eff_w):
        """the Preloads object of the case + the python values by slot name"""
        from autoarray.dataset.imaging.w_tilde import WTildeImaging
        from autoarray.inversion.inversion.imaging import inversion_imaging_util

        if case.get("via") == "setters":
            return self._preloads_via_setters(aa, case)
        vals = {}
        ref_same = refs[eff_w]
        for s in case["slots"]:
            if s == "w_tilde":
                if case["wt_kind"] == "dataset":
                    vals[s] = wd.ds.w_tilde
                else:
                    noise_native = np.array(wd.ds.noise_map.native)
                    f = foreign_factor(case)
                    if f != 1.0:
                        noise_native = noise_native * f
                    cp, ix, ln = inversion_imaging_util.w_tilde_curvature_preload_imaging_from(
                        noise_map_native=noise_native, kernel_native=np.array(wd.ds.psf.native),
                        native_index_for_slim_index=np.array(wd.ds.mask.derive_indexes.native_for_slim))
                    nv = wd.ds.noise_map[0] * f
                    vals[s] = WTildeImaging(curvature_preload=cp, indexes=ix.astype("int"),
                                            lengths=ln.astype("int"), noise_map_value=nv)
                continue
            src = ref_same
            if case["source"] == "other" and s == "curvature_matrix" and refs.get(not eff_w):
                src = refs[not eff_w]
            v = src["slots"].get(s)
            if v is None:
                continue
            lay = case.get("slot_layout")
            if isinstance(v, list):
                # dict slots: keyed by foreign objects, re-keyed by position in the inversion
                vals[s] = {i: layout_of(np.array(a, copy=True), lay) for i, a in enumerate(v)}
            elif isinstance(v, float):
                vals[s] = v
            else:
                vals[s] = layout_of(np.array(v, copy=True), lay)
        kwargs = dict(vals)
        if case["pre_use_w"] is not None:
            kwargs["use_w_tilde"] = case["pre_use_w"]
        # constructor arguments of Preloads that no imaging inversion consults (set, possibly falsy): R5-F
        kwargs.update(case.get("pre_kw") or {})
        return aa.Preloads(**kwargs), vals, []

    def _preloads_via_setters(self, aa, case):
        """Preloads filled by its own set_* methods from two fits of two separately built, equal
        worlds whose inversions have been evaluated completely beforehand (the normal order of use)."""
        fits = []
        for _ in range(2):
            wd = World(aa, case["world"])
            inv = aa.Inversion(dataset=wd.ds, linear_obj_list=wd.objs,
                               settings=wd.settings(case["settings_w"], case))
            read_all(inv, ACCESSES)
            fits.append(aa.m.MockFitImaging(dataset=wd.ds, noise_map=wd.ds.noise_map, inversion=inv))
        pre = aa.Preloads()
        errors = []
        for m in case["setters"]:
            try:
                getattr(pre, m)(fit_0=fits[0], fit_1=fits[1])
            except (IndexError, NotImplementedError) as e:
                # preloads.set_curvature_matrix probes mapping.py `_curvature_matrix_mapper_diag`, which
                # raises IndexError for mapper + unregularized func list (outside this property: nothing
                # is preloaded then); recorded, not judged
                errors.append(f"{m}: {type(e).__name__}")
        vals = {s: getattr(pre, s) for s in ALL_SLOTS if getattr(pre, s, None) is not None}
        self._keep_alive = fits
        return pre, vals, errors

    def run_impl(self, case):
        aa = load_autoarray()
        from autoarray import exc

        if case.get("conf") and not case.get("_conf"):
            # a case that runs as a whole under other values of general.inversion.* (the decade streams switch the
            # library's check_reconstruction — an ABSOLUTE np.allclose test on the solution, documented — off)
            with conf_in_force(case["conf"], case.get("conf_how")):
                return self.run_impl({**case, "_conf": case["conf"]})
        if case.get("kind") == "relocated_grid":
            return self._run_relocated(aa, case)
        if case.get("kind") == "large":
            return self._run_large(aa, case)
        if case.get("kind") == "reuse":
            return self._run_reuse(aa, case)
        w = case["world"]
        wc = world_cfg(w)
        try:
            refs = {False: self._reference(case, False)}
            refs[True] = self._reference(case, True) if not wc["all_func_lists"] else None
        except Skip:
            raise
        except Exception as e:
            if case.get("guessed_options"):
                # a constructor option this file does not know, set to a value guessed from its default's type, and
                # the PRELOAD-FREE inversion already raises: the value is not legal — nothing to judge
                raise Skip(f"guessed value of option(s) {case['guessed_options']} is not accepted "
                           f"({type(e).__name__})")
            raise
        base = {("w" if k else "m"): (v["base"] if v else None) for k, v in refs.items()}
        if refs[False] is None and refs[True] is None:
            raise Skip("preload-free reference inversions raise InversionException")
        wd = World(aa, w)
        # which formalism the factory should pick is only known once the Preloads object exists
        # (its setters may set use_w_tilde); slot values come from the formalism that will run
        pre_use_w = case["pre_use_w"]
        if case.get("via") == "setters":
            pre, vals, setter_errors = self._make_preloads(aa, case, wd, refs, None)
            pre_use_w = pre.use_w_tilde
            eff_w = factory_choice(wc, case["settings_w"], pre_use_w)
        else:
            eff_w = factory_choice(wc, case["settings_w"], pre_use_w)
            if refs[eff_w] is None:
                return {"eff_w": eff_w, "pre_use_w": pre_use_w, "classes": [], "filled": [],
                        "steps": [], "base": base, "setter_errors": [], "_model": None}
            pre, vals, setter_errors = self._make_preloads(aa, case, wd, refs, eff_w)
        if refs[eff_w] is None:
            return {"eff_w": eff_w, "pre_use_w": pre_use_w, "classes": [], "filled": sorted(vals),
                    "steps": [], "base": base, "setter_errors": setter_errors, "_model": None}
        st = wd.settings(case["settings_w"], case)
        fp0 = {s: fingerprint(s, v) for s, v in vals.items() if s in ARRAY_SLOTS}
        heap, pre_refs = [], {}
        for s in ALL_SLOTS:
            if s not in vals:
                continue
            if s == "log_det_regularization_matrix_term":
                pre_refs[s] = fbits(vals[s])
            else:
                pre_refs[s] = len(heap)
                heap.append(slot_cell(s, vals[s]))
        steps = []
        classes = []
        for accs in case["history"]:
            try:
                inv = make_inversion(aa, wd, case, st, preloads=pre)
                classes.append(type(inv).__name__)
                out = [read(inv, a) for a in accs]
            except exc.InversionException:
                out = "inversion_exception"
            changed = sorted(s for s in fp0 if fingerprint(s, vals[s]) != fp0[s])
            steps.append({"out": out, "changed": changed})
        return {
            "eff_w": eff_w,
            "pre_use_w": pre_use_w,
            "classes": sorted(set(classes)),
            "filled": sorted(vals),
            "setter_errors": setter_errors,
            "steps": steps,
            "base": base,
            "_model": {"heap": heap, "preloads": pre_refs, "coarse": refs[eff_w]["coarse"],
                       "tables": self._merged_tables(refs)},
        }

    # -- Preloads.relocated_grid: consulted by Mesh.relocated_grid_from while the mapper is built ------
    def _run_relocated(self, aa, case):
        from autoarray import exc

        w = case["world"]

        def build(preloads_for=None):
            """world whose FIRST mapper is built through a border relocator on a distorted source grid"""
            wd = World(aa, w)
            o = w["objs"][0]
            ovs = aa.OverSamplerUniform(mask=wd.mask, sub_size=o.get("sub", 1))
            g = np.array(ovs.over_sampled_grid, copy=True)
            for idx, f in case["distort"]:
                g[idx % len(g)] = g[idx % len(g)] * _frac(f) + 0.25
            grid = aa.Grid2DIrregular(values=g)
            br = aa.BorderRelocator(mask=wd.mask, sub_size=o.get("sub", 1))
            relocated = br.relocated_grid_from(grid=grid)
            kw = {}
            pre = None
            if preloads_for is not None:
                pre = preloads_for(relocated)
                kw["preloads"] = pre
            mesh = aa.mesh.Rectangular(shape=tuple(o["shape"]))
            mg = mesh.mapper_grids_from(mask=wd.mask, border_relocator=br,
                                        source_plane_data_grid=grid, **kw)
            wd.objs[0] = aa.Mapper(mapper_grids=mg, over_sampler=ovs,
                                   regularization=aa.reg.Constant(coefficient=_frac(o["reg"])))
            return wd, relocated, mesh, br, grid, ovs

        st_of = lambda wd: wd.settings(case["settings_w"], case)
        try:
            wd0, rel0, *_ = build()
            base = dict(zip(ACCESSES, read_all(
                aa.Inversion(dataset=wd0.ds, linear_obj_list=wd0.objs, settings=st_of(wd0)), ACCESSES)))
        except exc.InversionException:
            raise Skip("preload-free reference inversion raises InversionException")
        moved = bool(np.any(np.array(rel0) != np.array(build()[4])))
        holder = {}

        def mk(relocated):
            holder["arr"] = aa.Grid2DIrregular(values=np.array(relocated, copy=True))
            holder["pre"] = aa.Preloads(relocated_grid=holder["arr"])
            return holder["pre"]

        wd, _, mesh, br, grid, ovs = build(mk)
        fp0 = hashlib.sha1(np.ascontiguousarray(np.array(holder["arr"])).tobytes()).hexdigest()
        steps = []
        o = w["objs"][0]
        for accs in case["history"]:
            # the shared Preloads object is used again for every mapper construction + inversion
            mg = mesh.mapper_grids_from(mask=wd.mask, border_relocator=br, source_plane_data_grid=grid,
                                        preloads=holder["pre"])
            wd.objs[0] = aa.Mapper(mapper_grids=mg, over_sampler=ovs,
                                   regularization=aa.reg.Constant(coefficient=_frac(o["reg"])))
            try:
                inv = aa.Inversion(dataset=wd.ds, linear_obj_list=wd.objs, settings=st_of(wd))
                out = [read(inv, a) for a in accs]
            except exc.InversionException:
                out = "inversion_exception"
            fp = hashlib.sha1(np.ascontiguousarray(np.array(holder["arr"])).tobytes()).hexdigest()
            steps.append({"out": out, "changed": ["relocated_grid"] if fp != fp0 else []})
        return {"kind": "relocated_grid", "filled": ["relocated_grid"], "moved": moved, "steps": steps,
                "base": base}

    @staticmethod
    def _merged_tables(refs):
        out = {}
        for r in refs.values():
            if not r:
                continue
            for k, v in r["tables"].items():
                if isinstance(v, list) and v and isinstance(v[0], list) and k not in (
                        "lf_compute", "reg_compute", "omm_plain", "momd_compute", "wt_compute", "dv_w"):
                    rows = out.setdefault(k, [])
                    for row in v:
                        if row not in rows:
                            rows.append(row)
                else:
                    out.setdefault(k, v)
        return out

    # ------------------------------------------------------------------ model
    def model_requests(self, case, obs):
        if "err" in obs:
            raise Skip("implementation error observation")
        if obs.get("kind") == "relocated_grid":
            return []  # mapper-level preload: outside Model.Preload, judged by the oracle only
        if obs.get("kind") == "large":
            return []  # sizes the driver is not meant for: the oracle alone judges (normal equations, numpy)
        if obs.get("kind") == "reuse":
            # one request per phase: the model predicts every read of the phase for a FRESH machine whose heap
            # holds the Preloads' arrays as they are at the start of the phase, in that phase's world
            reqs = []
            for ph, po in zip(case["phases"], obs["phases"]):
                if po["_model"]["coarse"]:
                    raise Skip(po["_model"]["coarse"])
                reqs.append(self._history_request(self._phase_case(case, ph, po["w"]), po, po["_model"]))
            return reqs
        mdl = obs["_model"]
        if mdl is None:
            return []
        if mdl["coarse"]:
            raise Skip(mdl["coarse"])
        return [self._history_request(case, obs, mdl)]

    def _history_request(self, case, obs, mdl):
        wc = world_cfg(case["world"])
        cfg = {k: v for k, v in wc.items() if not k.startswith("_")}
        cfg["settings_use_w_tilde"] = case["settings_w"]
        if mdl.get("diag_bits") is not None:
            # configuration histories: the value the docstring of SettingsInversion promises for the configuration
            # that was in force when the phase ran, worked out by the harness (effective_settings)
            cfg["diag_value"] = mdl["diag_bits"]
        else:
            aa = load_autoarray()
            st = settings_of(aa, case["settings_w"], case)
            cfg["diag_value"] = fbits(st.no_regularization_add_to_curvature_diag_value)
        pre = dict(mdl["preloads"])
        if obs["pre_use_w"] is not None:
            pre["use_w_tilde"] = bool(obs["pre_use_w"])
        ext = dict(mdl["tables"])
        if is_foreign(case) and "w_tilde" in mdl["preloads"]:
            ext["wt_check"] = list(ext.get("wt_check", [])) + [[mdl["heap"][mdl["preloads"]["w_tilde"]], False]]
        return {"op": "c15.history", "cfg": cfg, "policy": POLICY, "ext": ext, "heap": mdl["heap"],
                "preloads": pre, "history": case["history"]}

    def model_obs(self, case, responses):
        if case.get("kind") == "reuse":
            return {"phases": [({"err": r["err"]} if "err" in r else r["ok"]) for r in responses]}
        r = responses[0]
        if "err" in r:
            return {"err": r["err"]}
        return r["ok"]

    def compare(self, case, obs, mobs, cmp):
        if obs.get("kind") == "reuse":
            for k, (ph, po, mo) in enumerate(zip(case["phases"], obs["phases"], mobs["phases"])):
                d = self._compare_one(self._phase_case(case, ph, po["w"]), {**po, "eff_w": obs["eff_w"]}, mo, cmp)
                if d:
                    return f"reuse history phase {k + 1} (world {po['w'].upper()}): {d}"
            return None
        return self._compare_one(case, obs, mobs, cmp)

    def _compare_one(self, case, obs, mobs, cmp):
        if obs.get("_model") is None:
            return None
        if "err" in mobs:
            return f"model driver error {mobs['err']}"
        if obs["eff_w"] != mobs["use_w_tilde"]:
            return f"formalism: impl runs {obs['classes']} model use_w_tilde={mobs['use_w_tilde']}"
        want_cls = "InversionImagingWTilde" if mobs["use_w_tilde"] else "InversionImagingMapping"
        if obs["classes"] and obs["classes"] != [want_cls]:
            return f"formalism: impl classes {obs['classes']} model {want_cls}"
        mdl = obs["_model"]
        names = [s for s in ALL_SLOTS if s in mdl["preloads"] and s != "log_det_regularization_matrix_term"]
        m_changed = sorted(s for s in names
                           if mobs["heap_after"][mdl["preloads"][s]] != mdl["heap"][mdl["preloads"][s]])
        last_changed = obs["steps"][-1]["changed"] if obs["steps"] else []
        if last_changed != m_changed:
            return f"preload buffers changed: impl={last_changed} model={m_changed}"
        exact_case = self._exact(case, obs)
        for i, (st, mo) in enumerate(zip(obs["steps"], mobs["outputs"])):
            if isinstance(st["out"], str) or isinstance(mo, str):
                if st["out"] != mo:
                    return f"step {i}: impl={st['out'] if isinstance(st['out'], str) else 'values'} model={mo if isinstance(mo, str) else 'values'}"
                cmp.exact += 1
                continue
            for a, vi, vm in zip(case["history"][i], st["out"], mo):
                if NAN_BITS in vm and NAN_BITS not in vi:
                    if exact_case:
                        return f"step {i} {a}: model has no sample for the kernel arguments reached (Ext table miss)"
                    continue
                if vi != vm and case.get("slot_layout") in SOFT_LAYOUTS:
                    # preloaded arrays in another memory order: rounding-level agreement (see SOFT_LAYOUTS); what lies
                    # behind the solver is judged by the oracle where the conditioning allows
                    if a in BEHIND_SOLVER or a in BEHIND_CHOLESKY:
                        continue
                    ok, _d = self._close(vi, vm, rel=self._rel(case, a))
                    if ok:
                        cmp.tolerant += 1
                        continue
                if vi != vm:
                    fi, fm = floats_of(vi), floats_of(vm)
                    if len(fi) == len(fm):
                        d = float(np.max(np.abs(fi - fm))) if len(fi) else 0.0
                        return f"step {i} {a}: impl and model differ in bit pattern (max |Δ|={d:.3e})"
                    return f"step {i} {a}: length impl={len(fi)} model={len(fm)}"
                cmp.exact += 1
        return None

    # ------------------------------------------------------------------ oracle
    @staticmethod
    def _exact(case, obs):
        return case["source"] == "same" and not (set(obs["filled"]) & ALT_ROUTE) \
            and not is_foreign(case) and case.get("slot_layout") not in SOFT_LAYOUTS

    @staticmethod
    def _close(a, b, rtol=1e-9, rel=False):
        """|a - b| <= rtol * max(1, max|b|); with `rel` (worlds scaled by 2^k, R5-A) relative to max|b| alone, so
        that the comparison means the same at every decade"""
        fa, fb = floats_of(a), floats_of(b)
        if fa.shape != fb.shape:
            return False, float("inf")
        if fa.size == 0:
            return True, 0.0
        top = float(np.max(np.abs(fb)))
        scale = top if rel else max(1.0, top)
        d = float(np.max(np.abs(fa - fb)))
        if not np.isfinite(d):
            # the same non-finite pattern on both sides (overflow at the extreme decades) is agreement
            return bool(np.array_equal(fa, fb, equal_nan=True)), d
        return d <= rtol * scale, d

    @staticmethod
    def _no_scale(case, a):
        """s^T H s is computed as s . (H s): its rounding error scales with |s|^T |H| |s|, which can exceed the value
        itself by many orders for a smooth s, and that natural scale is not among the ten reads.  At the unit decade
        the floor of 1 in the tolerance covers it; in a world at another decade (`rel`) no honest tolerance can be
        formed here, so the TOLERANT comparisons leave it out (the exact ones and the direct statement keep it)."""
        return bool(case.get("rel")) and a == "regularization_term"

    @staticmethod
    def _rel(case, a):
        # log-determinants are additive quantities: their magnitude says nothing about the world's scale
        return bool(case.get("rel")) and a not in ("log_det_curvature_reg_matrix_term",
                                                   "log_det_regularization_matrix_term")

    def _well_conditioned(self, base):
        FH = floats_of(base["curvature_reg_matrix"])
        n = int(round(len(FH) ** 0.5))
        if n * n != len(FH) or n == 0:
            return False
        try:
            return float(np.linalg.cond(FH.reshape(n, n))) < 1e5
        except Exception:
            return False

    def oracle(self, case, obs):
        if "err" in obs:
            return False, f"implementation raised {obs.get('err')}: {obs.get('msg', '')}"
        if obs.get("kind") == "relocated_grid":
            return self._oracle_steps(case, obs, obs["base"], True, "relocated_grid", False)
        if obs.get("kind") == "large":
            return self._oracle_large(case, obs)
        if obs.get("kind") == "reuse":
            return self._oracle_reuse(case, obs)
        wc = world_cfg(case["world"])
        eff_w = factory_choice(wc, case["settings_w"], obs["pre_use_w"])
        key = "w" if eff_w else "m"
        base = obs["base"][key]
        bm, bw = obs["base"]["m"], obs["base"]["w"]
        # (c) first: one formalism refusing inputs the other one inverts is a difference in values
        if not wc["all_func_lists"] and (bm is None) != (bw is None):
            bad = "w-tilde" if bw is None else "mapping"
            return False, (f"(c) the preload-free {bad} inversion raises InversionException while the other "
                           f"formalism returns values for the same inputs")
        want_cls = "InversionImagingWTilde" if eff_w else "InversionImagingMapping"
        if is_foreign(case) and eff_w and "w_tilde" in obs["filled"]:
            # not "computed from an identical dataset": the property is silent; the guard is expected
            return True, "foreign w_tilde"
        if obs["classes"] and obs["classes"] != [want_cls]:
            return False, f"factory built {obs['classes']}, expected {want_cls}"
        exact = self._exact(case, obs)
        ok, detail = self._oracle_steps(case, obs, base, exact, key,
                                        (not pos_eff(case)) and self._well_conditioned(base))
        if not ok:
            return ok, detail
        # (c) the factory's choice changes no value (to rounding): both preload-free formalisms agree
        if bm is not None and bw is not None:
            solver_ok = (not pos_eff(case)) and self._well_conditioned(bm) and self._well_conditioned(bw)
            for a in ACCESSES:
                if a == "operated_mapping_matrix":
                    continue
                if (a in BEHIND_SOLVER or a in BEHIND_CHOLESKY) and not solver_ok:
                    continue
                if self._no_scale(case, a):
                    continue
                ok, d = self._close(bw[a], bm[a], rel=self._rel(case, a))
                if not ok:
                    return False, f"(c) {a} differs between the two formalisms by {d:.3e} (> 1e-9 relative)"
        return True, ""

    def _oracle_steps(self, case, obs, base, exact, key, tolerant_solver_ok):
        first = {}
        for i, st in enumerate(obs["steps"]):
            if st["changed"]:
                return False, (f"(b) after inversion {i + 1} of {len(obs['steps'])} sharing one Preloads the "
                               f"preloaded array(s) {st['changed']} have different bytes than before")
            if isinstance(st["out"], str):
                return False, (f"(a) inversion {i + 1} with preloads {obs['filled']} raised {st['out']}, "
                               f"the preload-free one does not")
            for a, v in zip(case["history"][i], st["out"]):
                b = base[a]
                if exact:
                    if v != b:
                        _, d = self._close(v, b, 0.0)
                        return False, (f"(a) {a} with preloads {obs['filled']} (formalism {key}, inversion {i + 1}) "
                                       f"is not bit-identical to the preload-free value (max |Δ|={d:.3e})")
                else:
                    if (a in BEHIND_SOLVER or a in BEHIND_CHOLESKY) and not tolerant_solver_ok:
                        continue
                    if self._no_scale(case, a):
                        continue
                    ok, d = self._close(v, b, rel=self._rel(case, a))
                    if not ok:
                        return False, (f"(a) {a} with preloads {obs['filled']} (formalism {key}, inversion {i + 1}) "
                                       f"differs from the preload-free value by {d:.3e} (> 1e-9 relative)")
            # (b) identical outcome every time: same read -> same bits, at every position of the history
            for a, v in zip(case["history"][i], st["out"]):
                if a in first and first[a] != v:
                    return False, f"(b) {a} differs between two reads of the history (inversion {i + 1})"
                first.setdefault(a, v)
        return True, ""

    # ------------------------------------------------------------------ misc
    def nontrivial(self, case, obs):
        if "err" in obs:
            return False
        if obs.get("kind") == "large":
            return any(fo.get("checks") and fo.get("steps") for fo in obs["forms"].values())
        if "err" in obs or len(case["history"]) < 2 or not obs.get("steps"):
            return False
        if obs.get("kind") == "relocated_grid":
            return bool(obs["moved"])
        consulted_w = {"w_tilde", "curvature_matrix", "regularization_matrix",
                       "log_det_regularization_matrix_term", "data_vector_mapper",
                       "curvature_matrix_mapper_diag", "linear_func_operated_mapping_matrix_dict",
                       "data_linear_func_matrix_dict", "mapper_operated_mapping_matrix_dict",
                       "operated_mapping_matrix"}
        consulted_m = consulted_w - {"w_tilde", "curvature_matrix_mapper_diag", "data_linear_func_matrix_dict",
                                     "mapper_operated_mapping_matrix_dict"}
        return bool(set(obs["filled"]) & (consulted_w if obs["eff_w"] else consulted_m))

    def _shrink_reuse(self, case):
        for key in ("readonly", "derive"):
            if case.get(key):
                yield {**case, key: False}
        phs = case["phases"]

        def with_phases(p):
            return {**case, "phases": p, "history": [a for ph in p for a in ph["history"]]}

        if case.get("slot_layout"):
            yield {**case, "slot_layout": None}
        for i, ph in enumerate(phs):
            for key in ("fault", "decoy") if (case.get("own") or case.get("control")) else \
                    ("fault", "decoy", "conf", "slots"):
                if ph.get(key) is not None:
                    yield with_phases([({k: v for k, v in q.items() if k != key} if j == i else q)
                                       for j, q in enumerate(phs)])
        if case.get("own") or case.get("control"):
            # an ownership / configuration history fails because of state that outlives the objects (a process-wide memo,
            # a default cached in a class attribute): inside the failing process every shorter candidate "fails" too
            # (the shared state is already spoilt), but would not reproduce in a fresh process.  The rounds / phases
            # stay as they are; only what is independent of them is minimised.
            for s in case["slots"]:
                yield {**case, "slots": [x for x in case["slots"] if x != s]}
            if case.get("entry"):
                yield {**case, "entry": None}
            return
        if len(phs) > 1:
            yield with_phases(phs[:-1])
            yield with_phases(phs[1:])
        for i, ph in enumerate(phs):
            if len(ph["history"]) > 1:
                yield with_phases([({**q, "history": q["history"][:-1]} if j == i else q) for j, q in enumerate(phs)])
            for a_i, accs in enumerate(ph["history"]):
                if len(accs) > 1:
                    for r in range(len(accs)):
                        h = [list(a) for a in ph["history"]]
                        del h[a_i][r]
                        yield with_phases([({**q, "history": h} if j == i else q) for j, q in enumerate(phs)])
        for s in case["slots"]:
            yield {**case, "slots": [x for x in case["slots"] if x != s]}
        if case["objs_mode"] == "same":
            yield {**case, "objs_mode": "rebuild"}
        if case["refresh"] != "assign":
            yield {**case, "refresh": "assign"}
        if case["pos"] is not False:
            yield {**case, "pos": False}
        if case.get("diag_value") is not None:
            yield {**case, "diag_value": None}
        if case.get("entry"):
            yield {**case, "entry": None}

    def shrink(self, case):
        if case.get("kind") == "large":
            # the size is the point; only the preload part can go
            if len(case["forms"]) > 1:
                for f in case["forms"]:
                    yield {**case, "forms": [f]}
            if len(case["history"]) > 1:
                yield {**case, "history": case["history"][:1]}
            for s in case["slots"]:
                yield {**case, "slots": [x for x in case["slots"] if x != s]}
            return
        if case.get("kind") == "reuse":
            yield from self._shrink_reuse(case)
            return
        # fewer slots, shorter history, fewer reads, canonical settings
        for s in case["slots"]:
            if case.get("kind") != "relocated_grid":
                yield {**case, "slots": [x for x in case["slots"] if x != s]}
        for m in case.get("setters", []):
            yield {**case, "setters": [x for x in case["setters"] if x != m]}
        if len(case["history"]) > 1:
            yield {**case, "history": case["history"][:-1]}
            yield {**case, "history": case["history"][1:]}
        for i, accs in enumerate(case["history"]):
            if len(accs) > 1:
                for j in range(len(accs)):
                    h = [list(a) for a in case["history"]]
                    del h[i][j]
                    yield {**case, "history": h}
        if case["pre_use_w"] is not None:
            yield {**case, "pre_use_w": None}
        if case["pos"] is not False:
            yield {**case, "pos": False}
        if case.get("diag_value") is not None:
            yield {**case, "diag_value": None}
        if case.get("entry"):
            yield {**case, "entry": None}
        w = case["world"]
        # round 5/6 axes, one at a time: options, layouts, alternative constructors
        for key in ("settings_kw", "pre_kw"):
            for opt in list(case.get(key) or {}):
                yield {**case, key: {k: v for k, v in case[key].items() if k != opt}}
        if case.get("slot_layout"):
            yield {**case, "slot_layout": None}
        for key in VARIANT_KEYS:
            if w.get(key):
                yield {**case, "world": {k: v for k, v in w.items() if k != key}}
        if w.get("int_inputs") or w.get("container"):
            yield {**case, "world": {**w, "int_inputs": False, "container": None}}
        if len(w["objs"]) > 1:
            for i in range(1 if case.get("kind") == "relocated_grid" else 0, len(w["objs"])):
                objs = [o for k, o in enumerate(w["objs"]) if k != i]
                yield {**case, "world": {**w, "objs": objs}}

    def known_finding(self, case, obs):
        return None

    def theorems_for(self, case):
        t = ["C15.impl_refines_spec", "C15.history_preloads_unchanged_outputs_identical"]
        if case["slots"]:
            t.append("C15.slot_transparency")
        if case["pre_use_w"] is not None:
            t.append("C15.formalism_choice_no_value")
        if case.get("kind") == "reuse":
            t.append("C15.outputs_independent_of_history")
        if case.get("kind") == "large":
            t.append("C15.formalisms_agree_on_all_outputs")
        return t

    def sample_view(self, case):
        if case.get("kind") == "large":
            return dict(case)  # compact by construction: block, seeds and shapes, never the arrays
        w = case["world"]
        v = {k: x for k, x in case.items() if k != "world"}
        v["world"] = w
        return v


CHECK = C15()
