"""C15 — preloaded and cached intermediate results never change inversion outputs.

What a case is
--------------
  world     a small real imaging dataset (7x7..9x9 frame, structured mask, 3x3 PSF — non-square / signed
            PSFs only with C15_UNUSUAL_PSF=1, see design_notes/C15.md) and 1-3 linear objects
            (rectangular mappers with Constant regularization, linear func lists with / without
            regularization, with / without an operated-mapping-matrix override)
  settings  use_w_tilde, use_positive_only_solver;  Preloads.use_w_tilde (None / True / False)
  slots     the subset of Preloads slots that is filled, and where the values come from
            ("same": a fresh inversion of the same formalism, "other": the other formalism)
  history   k successive inversions sharing the one Preloads object, each a list of reads

Observation = for every step the value of every read (bit patterns of the doubles) and the list of
preload arrays whose bytes changed; plus the same reads on inversions built WITHOUT preloads (both
formalisms), which are what the property compares against.

Exact vs tolerant (DESIGN §2.4): when every filled slot was produced by the same operations the
inversion would perform itself (every slot except the two alternative routes
data_linear_func_matrix_dict / mapper_operated_mapping_matrix_dict, and except "other"-formalism
values) all outputs must be BIT-IDENTICAL to the preload-free run.  Otherwise 1e-9 relative to the
largest entry, and quantities behind the solver only for the positive-negative solver on
well-conditioned systems (the positive-only solver's sensitivity is C05's business).
"""
from __future__ import annotations

import hashlib
import itertools
import os
from fractions import Fraction

import numpy as np

import gen
from common import PropertyCheck, Skip, load_autoarray

CORE = ["w_tilde", "curvature_matrix", "regularization_matrix",
        "log_det_regularization_matrix_term", "operated_mapping_matrix"]
EXT = ["data_vector_mapper", "curvature_matrix_mapper_diag",
       "linear_func_operated_mapping_matrix_dict", "data_linear_func_matrix_dict",
       "mapper_operated_mapping_matrix_dict"]
ALL_SLOTS = CORE + EXT
ARRAY_SLOTS = [s for s in ALL_SLOTS if s != "log_det_regularization_matrix_term"]
# slots whose preloaded value is obtained by a different sequence of float operations than the
# computation it replaces
ALT_ROUTE = {"data_linear_func_matrix_dict", "mapper_operated_mapping_matrix_dict"}
# arrays the model never computes on: travel as a 2-word digest
OPAQUE = {"w_tilde", "operated_mapping_matrix", "linear_func_operated_mapping_matrix_dict",
          "data_linear_func_matrix_dict", "mapper_operated_mapping_matrix_dict"}

ACCESSES = ["operated_mapping_matrix", "data_vector", "curvature_matrix", "regularization_matrix",
            "curvature_reg_matrix", "reconstruction", "mapped_reconstructed_data",
            "regularization_term", "log_det_curvature_reg_matrix_term",
            "log_det_regularization_matrix_term"]
BEHIND_SOLVER = {"reconstruction", "mapped_reconstructed_data", "regularization_term"}
BEHIND_CHOLESKY = {"log_det_curvature_reg_matrix_term"}

UNUSUAL_PSF = os.environ.get("C15_UNUSUAL_PSF", "0") == "1"

# the code state the Lean model mirrors (Model.Preload.Policy.repaired: fixes D151 + D152 applied)
POLICY = {"copy_curvature": True, "copy_dvm": True, "copy_diag": True, "guard_dvm": True}

NAN_BITS = 0x7FF8000000000000


# --------------------------------------------------------------------------------------------------
# numbers <-> bit patterns
# --------------------------------------------------------------------------------------------------
def bits_of(a):
    arr = np.ascontiguousarray(np.array(a, dtype=np.float64)).ravel()
    return arr.view(np.uint64).tolist()


def floats_of(bits):
    return np.array(bits, dtype=np.uint64).view(np.float64)


def digest(*arrays):
    """2-word stand-in for an array the model only passes around (finite doubles in [1,2))."""
    h = hashlib.sha1()
    for a in arrays:
        arr = np.ascontiguousarray(np.asarray(a))
        h.update(str(arr.dtype).encode())
        h.update(str(arr.shape).encode())
        h.update(arr.tobytes())
    d = h.digest()
    out = []
    for i in (0, 8):
        v = int.from_bytes(d[i:i + 8], "little") & ((1 << 52) - 1)
        out.append(0x3FF0000000000000 | v)
    return out


def fbits(x):
    return bits_of([float(x)])[0]


# --------------------------------------------------------------------------------------------------
# worlds
# --------------------------------------------------------------------------------------------------
def _frac(v):
    return float(Fraction(v))


class World:
    """the real objects of one case, freshly built (nothing is shared between cases)"""

    def __init__(self, aa, w):
        self.aa = aa
        self.spec = w
        H, W = w["h"], w["w"]
        m = np.array([c == "1" for c in w["mask"]], dtype=bool).reshape(H, W)
        ps = w.get("pixel_scales", 1.0)
        self.mask = aa.Mask2D(mask=m, pixel_scales=ps)
        kern = np.array([[_frac(v) for v in row] for row in w["psf"]])
        psf = aa.Kernel2D.no_mask(values=kern, pixel_scales=ps)
        data = aa.Array2D.no_mask(
            values=np.array([_frac(v) for v in w["data"]]).reshape(H, W), pixel_scales=ps)
        noise = aa.Array2D.no_mask(
            values=np.array([_frac(v) for v in w["noise"]]).reshape(H, W), pixel_scales=ps)
        self.ds = aa.Imaging(data=data, noise_map=noise, psf=psf,
                             use_normalized_psf=w.get("normalize_psf", True)).apply_mask(mask=self.mask)
        self.n = int(self.mask.pixels_in_mask)
        self.objs = [self._obj(o) for o in w["objs"]]

    def _obj(self, o):
        aa = self.aa
        reg = None
        if o.get("reg") is not None:
            reg = aa.reg.Constant(coefficient=_frac(o["reg"]))
        if o["kind"] == "mapper":
            ovs = aa.OverSamplerUniform(mask=self.mask, sub_size=o.get("sub", 1))
            grid = ovs.over_sampled_grid
            mesh = aa.mesh.Rectangular(shape=tuple(o["shape"]))
            mg = mesh.mapper_grids_from(mask=self.mask, border_relocator=None,
                                        source_plane_data_grid=grid)
            return aa.Mapper(mapper_grids=mg, over_sampler=ovs, regularization=reg)
        grid = aa.Grid2D.from_mask(mask=self.mask)
        mm = np.array([[_frac(v) for v in row] for row in o["mm"]])[: self.n]
        ov = None
        if o.get("override"):
            # what PyAutoGalaxy's linear light profiles supply: the already-operated matrix
            ov = self.ds.convolver.convolve_mapping_matrix(mapping_matrix=mm)
        return aa.m.MockLinearObjFuncList(parameters=mm.shape[1], grid=grid, mapping_matrix=mm,
                                          regularization=reg, operated_mapping_matrix_override=ov)

    def settings(self, use_w_tilde, pos):
        return self.aa.SettingsInversion(use_w_tilde=use_w_tilde, use_positive_only_solver=pos)


def world_cfg(w):
    """the control-flow facts of Model.Preload.Cfg, from the world spec alone"""
    objs = w["objs"]
    dims = []
    for o in objs:
        dims.append(o["shape"][0] * o["shape"][1] if o["kind"] == "mapper" else len(o["mm"][0]))
    no_reg = []
    pos = 0
    for o, d in zip(objs, dims):
        if o.get("reg") is None:
            no_reg += list(range(pos, pos + d))
        pos += d
    return {
        "all_func_lists": all(o["kind"] == "func" for o in objs),
        "has_func_list": any(o["kind"] == "func" for o in objs),
        "n_mappers": sum(o["kind"] == "mapper" for o in objs),
        "n_objs": len(objs),
        "has_reg": any(o.get("reg") is not None for o in objs),
        "all_reg": all(o.get("reg") is not None for o in objs),
        "func_override": any(o["kind"] == "func" and o.get("override") for o in objs),
        "no_reg_idx": no_reg,
        "dim": sum(dims),
        "_dims": dims,
    }


def factory_choice(wc, settings_w, pre_use_w):
    """independent restatement of what the property calls 'the factory's choice'"""
    if not settings_w or wc["all_func_lists"]:
        return False
    return settings_w if pre_use_w is None else pre_use_w


def ranges(wc, w, kind):
    out, pos = [], 0
    for o, d in zip(w["objs"], wc["_dims"]):
        if o["kind"] == kind:
            out.append((pos, pos + d))
        pos += d
    return out


# --------------------------------------------------------------------------------------------------
# reading an inversion
# --------------------------------------------------------------------------------------------------
def read(inv, name):
    """one read, copied out at once; opaque arrays as digests"""
    v = getattr(inv, name)
    arr = np.array(v, dtype=np.float64, copy=True)
    if name == "operated_mapping_matrix":
        return digest(arr)
    return bits_of(arr)


def read_all(inv, names):
    return [read(inv, n) for n in names]


def wt_arrays(wt):
    return [np.asarray(wt.curvature_preload), np.asarray(wt.indexes), np.asarray(wt.lengths),
            np.asarray([float(wt.noise_map_value)])]


def slot_arrays(name, val):
    """the numpy buffers a slot value owns (for fingerprints / digests)"""
    if val is None:
        return []
    if name == "w_tilde":
        return wt_arrays(val)
    if isinstance(val, dict):
        return [np.asarray(v) for v in val.values()]
    return [np.asarray(val)]


def slot_cell(name, val):
    """heap cell of an array slot for the model"""
    if name in OPAQUE:
        return digest(*slot_arrays(name, val))
    return bits_of(val)


def fingerprint(name, val):
    return [hashlib.sha1(np.ascontiguousarray(a).tobytes()).hexdigest() for a in slot_arrays(name, val)]


class Tables:
    """finite samples of Model.Preload.Ext, keyed exactly as the driver expects"""

    def __init__(self):
        self.t = {}

    def const(self, k, v):
        self.t[k] = v

    def add(self, k, *row):
        rows = self.t.setdefault(k, [])
        if list(row) not in rows:
            rows.append(list(row))


def writes_of(mat, dim, rr, cc):
    out = []
    for (a, b) in rr:
        for (c, d) in cc:
            for i in range(a, b):
                for j in range(c, d):
                    out.append([i * dim + j, fbits(mat[i, j])])
    return out


# --------------------------------------------------------------------------------------------------
class C15(PropertyCheck):
    pid = "C15"
    title = "preload transparency"
    nontrivial_rule = (
        "a case is non-trivial when at least one preload slot is filled that the running formalism "
        "consults, the history has >= 2 inversions and the preload-free reference inversion succeeds; "
        "distinct = distinct (world, settings, slot subset, source, history)"
    )
    exhaustive_note = {
        "quick": "all 32 subsets of the five slots named in the statement (w_tilde, curvature_matrix, "
                 "regularization_matrix, log_det_regularization_matrix_term, operated_mapping_matrix) "
                 "x both formalisms x every object mix of the fixed list MIXES, history of 3 inversions",
        "thorough": "as quick with histories of 6, plus all 1024 subsets of the ten consulted slots for "
                    "the mapper+func, func+mapper and mapper+mapper mixes in both formalisms",
    }
    trusted_extra = [
        "modelled, not verified (Ext parameters of Model.Preload): every numerical kernel of the inversion "
        "(PSF convolution of mapping matrices, both normal-equation formalisms, solvers, regularization "
        "matrices, numpy hstack/dot/delete, scipy block_diag/splu, numpy.linalg) — sampled from reference "
        "runs of the real code on every case",
        "Python aliasing / copy semantics: modelled by the heap of Model.Preload and OBSERVED per case by "
        "byte fingerprints of every preload array after every inversion; not provable from the source",
        "cached_property is modelled as recomputation (sound for callers that copy what they read)",
    ]
    assumptions = [
        "preloads are computed from the identical dataset, linear objects and settings",
        "IEEE addition in the Lean driver (Float) equals numpy's (same hardware doubles)",
        "default generators use square non-negative PSFs until the C04 repairs D2/D3 land "
        "(C15_UNUSUAL_PSF=1 adds non-square and signed PSFs)",
    ]
    search_budget_s = {"quick": 40, "thorough": 300}

    def __init__(self):
        self._ref_cache = {}

    # ------------------------------------------------------------------ generation
    MIXES = [
        ["m"], ["m", "f"], ["f", "m"], ["m", "m"], ["m", "f", "m"], ["f"], ["f", "f"], ["m", "fr"],
        ["m", "fo"], ["m", "m", "f"],
    ]

    def _world(self, rng, mix, unusual=False):
        H, W = rng.choice([(7, 7), (7, 8), (8, 7), (8, 9), (9, 8), (9, 9), (8, 8), (7, 9)])
        if unusual:
            kh, kw = rng.choice([(3, 5), (5, 3), (1, 3), (3, 1), (3, 3)])
        else:
            kh, kw = 3, 3
        my, mx = kh // 2 + (1 if kh == 1 else 0), kw // 2 + (1 if kw == 1 else 0)
        my, mx = max(my, 1), max(mx, 1)
        for _ in range(50):
            m, kind = gen.random_mask(rng, H, W, margin=max(my, mx),
                                      kind=rng.choice(["block", "blocks", "annulus", "cross", "diagonal",
                                                       "bernoulli", "all"]))
            n = sum(1 for r in m for b in r if not b)
            if 5 <= n <= 24:
                break
        else:
            m = gen.mask_block(H, W, 2, H - 2, 2, W - 2)
            kind = "block"
        n = sum(1 for r in m for b in r if not b)
        signed = unusual and rng.random() < 0.6
        psf = [[Fraction(rng.randint(-6 if signed else 0, 8), 8) for _ in range(kw)] for _ in range(kh)]
        psf[kh // 2][kw // 2] = Fraction(rng.randint(4, 8), 8)
        if sum(sum(r) for r in psf) == 0:
            psf[kh // 2][kw // 2] += 1
        data = [Fraction(rng.randint(-24, 40), 8) for _ in range(H * W)]
        noise = [Fraction(rng.randint(2, 12), 4) for _ in range(H * W)]
        objs = []
        for code in mix:
            if code == "m":
                objs.append({"kind": "mapper", "shape": list(rng.choice([(3, 3), (3, 4), (4, 3)])),
                             "sub": rng.choice([1, 2]), "reg": str(Fraction(rng.choice([1, 2, 4, 6]), 2))})
            else:
                p = rng.choice([1, 2, 3])
                signed_mm = rng.random() < 0.5
                mm = [[str(Fraction(rng.randint(-8 if signed_mm else 0, 12), 8)) for _ in range(p)]
                      for _ in range(n)]
                # keep the columns independent enough: a dominant distinct row per column
                for c in range(p):
                    mm[(c * 3 + 1) % n][c] = str(Fraction(16 + c, 8))
                objs.append({"kind": "func", "mm": mm,
                             "reg": str(Fraction(rng.choice([1, 2, 3]), 2)) if code == "fr" else None,
                             "override": code == "fo" or (code == "f" and rng.random() < 0.25)})
        return {"h": H, "w": W, "mask": "".join("1" if b else "0" for r in m for b in r),
                "mask_kind": kind, "psf": [[str(v) for v in r] for r in psf],
                "normalize_psf": not signed,
                "data": [str(v) for v in data], "noise": [str(v) for v in noise], "objs": objs}

    @staticmethod
    def _history(rng, k, style):
        if style == "canonical":
            return [list(ACCESSES) for _ in range(k)]
        hist = []
        for _ in range(k):
            if style == "permuted":
                a = list(ACCESSES)
                rng.shuffle(a)
            else:  # "partial": a random multiset of reads, always touching the in-place path
                a = [rng.choice(ACCESSES) for _ in range(rng.randint(2, 8))]
                a.insert(rng.randrange(len(a) + 1), rng.choice(["curvature_reg_matrix", "reconstruction"]))
                a.append("curvature_matrix")
            hist.append(a)
        return hist

    def generate(self, tier, rng):
        k = 3 if tier == "quick" else 6
        mixes = list(self.MIXES)
        unusual_modes = [False] + ([True] if UNUSUAL_PSF else [])
        # 1. exhaustive: all subsets of the five core slots x both formalisms x every mix
        for unusual in unusual_modes:
            for mix in mixes:
                world = self._world(rng, mix, unusual)
                for settings_w in (False, True):
                    pos = rng.random() < 0.5
                    for r in range(len(CORE) + 1):
                        for sub in itertools.combinations(CORE, r):
                            yield {"tag": "core_subsets" + ("_unusual_psf" if unusual else ""),
                                   "world": world, "settings_w": settings_w, "pos": pos,
                                   "pre_use_w": None, "slots": list(sub), "source": "same",
                                   "wt_kind": "fresh",
                                   "history": self._history(rng, k, "canonical" if r % 2 == 0 else "permuted")}
        # 2. the other consulted slots: singles, all-ext, all ten, random subsets of the ten
        n_rand = 10 if tier == "quick" else 40
        for unusual in unusual_modes:
            for mix in mixes:
                wc_all_func = all(c != "m" for c in mix)
                world = self._world(rng, mix, unusual)
                subsets = [[s] for s in EXT] + [list(EXT), list(ALL_SLOTS)]
                if tier == "thorough" and mix in (["m", "f"], ["f", "m"], ["m", "m"]):
                    subsets = [list(c) for r in range(len(ALL_SLOTS) + 1)
                               for c in itertools.combinations(ALL_SLOTS, r)]
                else:
                    for _ in range(n_rand):
                        subsets.append([s for s in ALL_SLOTS if rng.random() < 0.45])
                for settings_w in (False, True):
                    if wc_all_func and settings_w:
                        continue
                    for sub in subsets:
                        yield {"tag": "ext_subsets" + ("_unusual_psf" if unusual else ""),
                               "world": world, "settings_w": settings_w, "pos": rng.random() < 0.5,
                               "pre_use_w": None, "slots": sub, "source": "same",
                               "wt_kind": rng.choice(["fresh", "dataset"]),
                               "history": self._history(rng, k, rng.choice(["canonical", "permuted", "partial"]))}
        # 3. formalism selection: Preloads.use_w_tilde against settings.use_w_tilde, with slots
        for unusual in unusual_modes:
            for mix in mixes:
                world = self._world(rng, mix, unusual)
                for settings_w in (False, True):
                    for pre_use_w in (True, False):
                        for _ in range(2 if tier == "quick" else 6):
                            sub = [s for s in ALL_SLOTS if rng.random() < 0.35]
                            yield {"tag": "factory_choice" + ("_unusual_psf" if unusual else ""),
                                   "world": world, "settings_w": settings_w, "pos": False,
                                   "pre_use_w": pre_use_w, "slots": sub, "source": "same",
                                   "wt_kind": "fresh", "history": self._history(rng, k, "canonical")}
        # 4. values computed by the OTHER formalism from the identical inputs (tolerant comparison)
        for unusual in unusual_modes:
            for mix in mixes:
                if all(c != "m" for c in mix):
                    continue
                world = self._world(rng, mix, unusual)
                for settings_w in (False, True):
                    for sub in (["curvature_matrix"], ["curvature_matrix", "regularization_matrix"],
                                ["curvature_matrix", "operated_mapping_matrix", "w_tilde"]):
                        yield {"tag": "other_formalism_source" + ("_unusual_psf" if unusual else ""),
                               "world": world, "settings_w": settings_w, "pos": rng.random() < 0.3,
                               "pre_use_w": None, "slots": sub, "source": "other", "wt_kind": "fresh",
                               "history": self._history(rng, k, "canonical")}
        # 5. a w_tilde computed for another noise map is refused (check_noise_map)
        for mix in (["m"], ["m", "f"]):
            world = self._world(rng, mix)
            yield {"tag": "foreign_w_tilde", "world": world, "settings_w": True, "pos": False,
                   "pre_use_w": None, "slots": ["w_tilde"], "source": "same", "wt_kind": "foreign",
                   "history": self._history(rng, 2, "canonical")}
        # 6. seeded random everything
        n = 60 if tier == "quick" else 500
        for _ in range(n):
            mix = rng.choice(mixes)
            unusual = UNUSUAL_PSF and rng.random() < 0.5
            world = self._world(rng, mix, unusual)
            yield {"tag": "random" + ("_unusual_psf" if unusual else ""), "world": world,
                   "settings_w": rng.random() < 0.6, "pos": rng.random() < 0.5,
                   "pre_use_w": rng.choice([None, None, True, False]),
                   "slots": [s for s in ALL_SLOTS if rng.random() < 0.4], "source": "same",
                   "wt_kind": rng.choice(["fresh", "dataset"]),
                   "history": self._history(rng, rng.randint(2, k), rng.choice(["canonical", "permuted", "partial"]))}

    # ------------------------------------------------------------------ reference runs (no preloads)
    def _reference(self, case, w_form):
        """outputs and Ext samples of the preload-free inversion in formalism `w_form`
        (None when that formalism is not available or the inversion fails)."""
        import json

        key = (json.dumps(case["world"], sort_keys=True), w_form, case["pos"])
        if key in self._ref_cache:
            return self._ref_cache[key]
        res = self._reference_uncached(case, w_form)
        if len(self._ref_cache) > 64:
            self._ref_cache.clear()
        self._ref_cache[key] = res
        return res

    def _reference_uncached(self, case, w_form):
        aa = load_autoarray()
        from autoarray import exc
        from autoarray.inversion.inversion import inversion_util

        w = case["world"]
        wc = world_cfg(w)
        if w_form and wc["all_func_lists"]:
            return None
        T = Tables()
        dim = wc["dim"]
        mranges = ranges(wc, w, "mapper")
        franges = ranges(wc, w, "func")

        def fresh(preloads=None):
            wd = World(aa, w)
            st = wd.settings(w_form, case["pos"])
            kw = {} if preloads is None else {"preloads": preloads(wd)}
            inv = aa.Inversion(dataset=wd.ds, linear_obj_list=wd.objs, settings=st, **kw)
            return wd, inv

        def lf_digest(inv):
            return digest(*[np.asarray(v) for v in inv.linear_func_operated_mapping_matrix_dict.values()])

        def common_rows(inv, lf0):
            """rows every run contributes: what the kernels returned on this run's arrays"""
            out = dict(zip(ACCESSES, read_all(inv, ACCESSES)))
            D, H, FH, s = out["data_vector"], out["regularization_matrix"], out["curvature_reg_matrix"], \
                out["reconstruction"]
            T.add("solve", FH, D, s)
            T.add("mapped_w" if w_form else "mapped_mapping", lf0, s, out["mapped_reconstructed_data"])
            if wc["has_reg"]:
                Hred = bits_of(inv.regularization_matrix_reduced)
                FHred = bits_of(inv.curvature_reg_matrix_reduced)
                sred = bits_of(inv.reconstruction_reduced)
                if not wc["all_reg"]:
                    T.add("reduce", H, Hred)
                    T.add("reduce", FH, FHred)
                    T.add("reduce_vec", s, sred)
                T.add("reg_term", Hred, sred, out["regularization_term"][0])
                T.add("log_det_curv_reg", FHred, out["log_det_curvature_reg_matrix_term"][0])
                T.add("log_det_reg", Hred, out["log_det_regularization_matrix_term"][0])
            return out

        try:
            wd, R0 = fresh()
            if type(R0).__name__ != ("InversionImagingWTilde" if w_form else "InversionImagingMapping"):
                raise RuntimeError(f"reference inversion has class {type(R0).__name__}")
            lf0 = lf_digest(R0)
            base = common_rows(R0, lf0)
        except exc.InversionException:
            return None
        T.const("lf_compute", lf0)
        T.const("reg_compute", base["regularization_matrix"])
        omm0 = base["operated_mapping_matrix"]
        T.const("omm_plain", omm0)
        T.add("omm_of_lf", lf0, omm0)
        coarse = None
        # slot values as a fresh inversion yields them (the Preloads owns copies)
        wd_s, src = fresh()
        slots = {
            "curvature_matrix": np.array(src.curvature_matrix, copy=True),
            "regularization_matrix": np.array(src.regularization_matrix, copy=True),
            "log_det_regularization_matrix_term": float(src.log_det_regularization_matrix_term),
            "operated_mapping_matrix": np.array(src.operated_mapping_matrix, copy=True),
        }
        try:
            wd_p, priv = fresh()
            slots["linear_func_operated_mapping_matrix_dict"] = [
                np.array(v, copy=True) for v in priv.linear_func_operated_mapping_matrix_dict.values()]
            slots["data_linear_func_matrix_dict"] = [
                np.array(v, copy=True) for v in priv.data_linear_func_matrix_dict.values()]
            slots["mapper_operated_mapping_matrix_dict"] = [
                np.array(v, copy=True) for v in priv.mapper_operated_mapping_matrix_dict.values()]
            dvm = fresh()[1]._data_vector_mapper
            slots["data_vector_mapper"] = None if dvm is None else np.array(dvm, copy=True)
            if w_form or not wc["has_func_list"]:
                cmd = fresh()[1]._curvature_matrix_mapper_diag
                slots["curvature_matrix_mapper_diag"] = None if cmd is None else np.array(cmd, copy=True)
            else:
                # mapping formalism with func lists: the helper itself is not usable (IndexError /
                # misplaced diagonal addition) and the slot is never consulted there — left empty
                slots["curvature_matrix_mapper_diag"] = None
        except (AttributeError, NotImplementedError) as e:
            coarse = f"private accessor unavailable: {e}"
        dlf0 = digest(*slots.get("data_linear_func_matrix_dict", []))
        momd0 = digest(*slots.get("mapper_operated_mapping_matrix_dict", []))
        T.add("dlf_of_lf", lf0, dlf0)
        T.const("momd_compute", momd0)

        if not w_form:
            Fraw = inversion_util.curvature_matrix_via_mapping_matrix_from(
                mapping_matrix=np.array(src.operated_mapping_matrix), noise_map=np.array(wd_s.ds.noise_map))
            T.add("curv_of_omm", omm0, bits_of(Fraw))
            T.add("dv_of_omm", omm0, base["data_vector"])
        elif coarse is None:
            wt = wd.ds.w_tilde
            wt0 = digest(*wt_arrays(wt))
            T.const("wt_compute", wt0)
            T.add("wt_check", wt0, True)
            T.const("dv_w", bits_of(slots["data_vector_mapper"]))
            T.add("diag_of_wt", wt0, bits_of(slots["curvature_matrix_mapper_diag"]))
            Dv = floats_of(base["data_vector"])
            T.add("dv_func_entries", lf0, [[i, fbits(Dv[i])] for (a, b) in franges for i in range(a, b)])
            try:
                if wc["n_mappers"] > 1:
                    M = np.array(fresh()[1]._curvature_matrix_multi_mapper)
                    offw = []
                    for i, ri in enumerate(mranges):
                        for rj in mranges[i + 1:]:
                            offw += writes_of(M, dim, [ri], [rj])
                    T.add("off_diag_writes", wt0, offw)
                variants = [("default", None)]
                if wc["has_func_list"]:
                    variants += [
                        ("dlf", lambda wdx: aa.Preloads(data_linear_func_matrix_dict=dict(
                            enumerate(np.array(v, copy=True) for v in slots["data_linear_func_matrix_dict"])))),
                        ("momd", lambda wdx: aa.Preloads(mapper_operated_mapping_matrix_dict=dict(
                            enumerate(np.array(v, copy=True) for v in slots["mapper_operated_mapping_matrix_dict"])))),
                    ]
                for vname, pre in variants:
                    wdv, Rv = fresh(pre)
                    if wc["has_func_list"]:
                        P = np.array(Rv._curvature_matrix_func_list_and_mapper)
                        offw = writes_of(P, dim, mranges, franges)
                        if vname == "default":
                            T.add("func_off_default", lf0, offw)
                            T.add("func_diag_writes", lf0, writes_of(P, dim, franges, franges))
                        elif vname == "dlf":
                            T.add("func_off_via_dlf", dlf0, offw)
                        else:
                            T.add("func_off_via_momd", momd0, lf0, offw)
                    elif wc["n_mappers"] == 1:
                        P = np.array(Rv._curvature_matrix_mapper_diag)
                    else:
                        P = np.array(Rv._curvature_matrix_multi_mapper)
                    T.add("mirror", bits_of(P),
                          bits_of(inversion_util.curvature_matrix_mirrored_from(curvature_matrix=np.array(P))))
                    if vname != "default":
                        wdv2, Rv2 = fresh(pre)
                        common_rows(Rv2, lf0)
            except (AttributeError, NotImplementedError) as e:
                coarse = f"private accessor unavailable: {e}"
            except exc.InversionException:
                coarse = "alternative-route reference inversion failed"
        return {"base": base, "tables": T.t, "slots": slots, "coarse": coarse}

    # ------------------------------------------------------------------ implementation
    def _make_preloads(self, aa, case, wd, refs, eff_w):
        """the Preloads object of the case + the python values by slot name"""
        from autoarray.dataset.imaging.w_tilde import WTildeImaging
        from autoarray.inversion.inversion.imaging import inversion_imaging_util

        vals = {}
        ref_same = refs[eff_w]
        for s in case["slots"]:
            if s == "w_tilde":
                if case["wt_kind"] == "dataset":
                    vals[s] = wd.ds.w_tilde
                else:
                    noise_native = np.array(wd.ds.noise_map.native)
                    if case["wt_kind"] == "foreign":
                        noise_native = noise_native * 2.0
                    cp, ix, ln = inversion_imaging_util.w_tilde_curvature_preload_imaging_from(
                        noise_map_native=noise_native, kernel_native=np.array(wd.ds.psf.native),
                        native_index_for_slim_index=np.array(wd.ds.mask.derive_indexes.native_for_slim))
                    nv = wd.ds.noise_map[0] * (2.0 if case["wt_kind"] == "foreign" else 1.0)
                    vals[s] = WTildeImaging(curvature_preload=cp, indexes=ix.astype("int"),
                                            lengths=ln.astype("int"), noise_map_value=nv)
                continue
            src = ref_same
            if case["source"] == "other" and s == "curvature_matrix" and refs.get(not eff_w):
                src = refs[not eff_w]
            v = src["slots"].get(s)
            if v is None:
                continue
            if isinstance(v, list):
                # dict slots: keyed by foreign objects, re-keyed by position in the inversion
                vals[s] = {i: np.array(a, copy=True) for i, a in enumerate(v)}
            elif isinstance(v, float):
                vals[s] = v
            else:
                vals[s] = np.array(v, copy=True)
        kwargs = dict(vals)
        if case["pre_use_w"] is not None:
            kwargs["use_w_tilde"] = case["pre_use_w"]
        return aa.Preloads(**kwargs), vals

    def run_impl(self, case):
        aa = load_autoarray()
        from autoarray import exc

        w = case["world"]
        wc = world_cfg(w)
        eff_w = factory_choice(wc, case["settings_w"], case["pre_use_w"])
        refs = {False: self._reference(case, False)}
        refs[True] = self._reference(case, True) if not wc["all_func_lists"] else None
        if refs[eff_w] is None:
            raise Skip("preload-free reference inversion raises InversionException")
        wd = World(aa, w)
        pre, vals = self._make_preloads(aa, case, wd, refs, eff_w)
        st = wd.settings(case["settings_w"], case["pos"])
        fp0 = {s: fingerprint(s, v) for s, v in vals.items() if s in ARRAY_SLOTS}
        heap, pre_refs = [], {}
        for s in ALL_SLOTS:
            if s not in vals:
                continue
            if s == "log_det_regularization_matrix_term":
                pre_refs[s] = fbits(vals[s])
            else:
                pre_refs[s] = len(heap)
                heap.append(slot_cell(s, vals[s]))
        steps = []
        classes = []
        for accs in case["history"]:
            try:
                inv = aa.Inversion(dataset=wd.ds, linear_obj_list=wd.objs, settings=st, preloads=pre)
                classes.append(type(inv).__name__)
                out = [read(inv, a) for a in accs]
            except exc.InversionException:
                out = "inversion_exception"
            changed = sorted(s for s in fp0 if fingerprint(s, vals[s]) != fp0[s])
            cells = {s: slot_cell(s, vals[s]) for s in fp0}
            steps.append({"out": out, "changed": changed, "cells": cells if changed else None})
        obs = {
            "eff_w": eff_w,
            "classes": sorted(set(classes)),
            "filled": sorted(vals),
            "steps": steps,
            "base": {("w" if k else "m"): (v["base"] if v else None) for k, v in refs.items()},
            "_model": {"heap": heap, "preloads": pre_refs, "coarse": refs[eff_w]["coarse"],
                       "tables": self._merged_tables(refs)},
        }
        return obs

    @staticmethod
    def _merged_tables(refs):
        out = {}
        for r in refs.values():
            if not r:
                continue
            for k, v in r["tables"].items():
                if isinstance(v, list) and v and isinstance(v[0], list) and k not in (
                        "lf_compute", "reg_compute", "omm_plain", "momd_compute", "wt_compute", "dv_w"):
                    rows = out.setdefault(k, [])
                    for row in v:
                        if row not in rows:
                            rows.append(row)
                else:
                    out.setdefault(k, v)
        return out

    # ------------------------------------------------------------------ model
    def model_requests(self, case, obs):
        if "err" in obs:
            raise Skip("implementation error observation")
        mdl = obs["_model"]
        if mdl["coarse"]:
            raise Skip(mdl["coarse"])
        wc = world_cfg(case["world"])
        cfg = {k: v for k, v in wc.items() if not k.startswith("_")}
        cfg["settings_use_w_tilde"] = case["settings_w"]
        aa = load_autoarray()
        st = aa.SettingsInversion(use_w_tilde=case["settings_w"], use_positive_only_solver=case["pos"])
        cfg["diag_value"] = fbits(st.no_regularization_add_to_curvature_diag_value)
        pre = dict(mdl["preloads"])
        if case["pre_use_w"] is not None:
            pre["use_w_tilde"] = case["pre_use_w"]
        ext = dict(mdl["tables"])
        if case["wt_kind"] == "foreign" and "w_tilde" in mdl["preloads"]:
            ext["wt_check"] = list(ext.get("wt_check", [])) + [[mdl["heap"][mdl["preloads"]["w_tilde"]], False]]
        return [{"op": "c15.history", "cfg": cfg, "policy": POLICY, "ext": ext, "heap": mdl["heap"],
                 "preloads": pre, "history": case["history"]}]

    def model_obs(self, case, responses):
        r = responses[0]
        if "err" in r:
            return {"err": r["err"]}
        return r["ok"]

    def compare(self, case, obs, mobs, cmp):
        if "err" in mobs:
            return f"model driver error {mobs['err']}"
        if obs["eff_w"] != mobs["use_w_tilde"]:
            return f"formalism: impl runs {obs['classes']} model use_w_tilde={mobs['use_w_tilde']}"
        want_cls = "InversionImagingWTilde" if mobs["use_w_tilde"] else "InversionImagingMapping"
        if obs["classes"] and obs["classes"] != [want_cls]:
            return f"formalism: impl classes {obs['classes']} model {want_cls}"
        mdl = obs["_model"]
        names = [s for s in ALL_SLOTS if s in mdl["preloads"] and s != "log_det_regularization_matrix_term"]
        m_changed = sorted(s for s in names
                           if mobs["heap_after"][mdl["preloads"][s]] != mdl["heap"][mdl["preloads"][s]])
        last_changed = obs["steps"][-1]["changed"] if obs["steps"] else []
        if last_changed != m_changed:
            return f"preload buffers changed: impl={last_changed} model={m_changed}"
        exact_case = self._exact(case)
        for i, (st, mo) in enumerate(zip(obs["steps"], mobs["outputs"])):
            if isinstance(st["out"], str) or isinstance(mo, str):
                if st["out"] != mo:
                    return f"step {i}: impl={st['out'] if isinstance(st['out'], str) else 'values'} model={mo if isinstance(mo, str) else 'values'}"
                cmp.exact += 1
                continue
            for a, vi, vm in zip(case["history"][i], st["out"], mo):
                if NAN_BITS in vm and NAN_BITS not in vi:
                    if exact_case:
                        return f"step {i} {a}: model has no sample for the kernel arguments reached (Ext table miss)"
                    continue
                if vi != vm:
                    fi, fm = floats_of(vi), floats_of(vm)
                    if len(fi) == len(fm):
                        d = float(np.max(np.abs(fi - fm))) if len(fi) else 0.0
                        return f"step {i} {a}: impl and model differ in bit pattern (max |Δ|={d:.3e})"
                    return f"step {i} {a}: length impl={len(fi)} model={len(fm)}"
                cmp.exact += 1
        return None

    # ------------------------------------------------------------------ oracle
    @staticmethod
    def _exact(case):
        return case["source"] == "same" and not (set(case["slots"]) & ALT_ROUTE) \
            and case["wt_kind"] != "foreign"

    @staticmethod
    def _close(a, b, rtol=1e-9):
        fa, fb = floats_of(a), floats_of(b)
        if fa.shape != fb.shape:
            return False, float("inf")
        if fa.size == 0:
            return True, 0.0
        scale = max(1.0, float(np.max(np.abs(fb))))
        d = float(np.max(np.abs(fa - fb)))
        return d <= rtol * scale, d

    def _well_conditioned(self, base):
        FH = floats_of(base["curvature_reg_matrix"])
        n = int(round(len(FH) ** 0.5))
        if n * n != len(FH) or n == 0:
            return False
        try:
            return float(np.linalg.cond(FH.reshape(n, n))) < 1e5
        except Exception:
            return False

    def oracle(self, case, obs):
        if "err" in obs:
            return False, f"implementation raised {obs.get('err')}: {obs.get('msg', '')}"
        wc = world_cfg(case["world"])
        eff_w = factory_choice(wc, case["settings_w"], case["pre_use_w"])
        key = "w" if eff_w else "m"
        base = obs["base"][key]
        want_cls = "InversionImagingWTilde" if eff_w else "InversionImagingMapping"
        if case["wt_kind"] == "foreign" and eff_w and "w_tilde" in obs["filled"]:
            # not "computed from an identical dataset": the property is silent; the guard is expected
            return True, "foreign w_tilde"
        if obs["classes"] and obs["classes"] != [want_cls]:
            return False, f"factory built {obs['classes']}, expected {want_cls}"
        exact = self._exact(case)
        tolerant_solver_ok = (not case["pos"]) and self._well_conditioned(base)
        first = None
        for i, st in enumerate(obs["steps"]):
            if st["changed"]:
                return False, (f"(b) after inversion {i + 1} of {len(obs['steps'])} sharing one Preloads the "
                               f"preloaded array(s) {st['changed']} have different bytes than before")
            if isinstance(st["out"], str):
                return False, f"(a) inversion {i + 1} with preloads {obs['filled']} raised {st['out']}, the preload-free one does not"
            for a, v in zip(case["history"][i], st["out"]):
                b = base[a]
                if exact:
                    if v != b:
                        ok, d = self._close(v, b, 0.0)
                        return False, (f"(a) {a} with preloads {obs['filled']} (formalism {key}, inversion {i + 1}) "
                                       f"is not bit-identical to the preload-free value (max |Δ|={d:.3e})")
                else:
                    if (a in BEHIND_SOLVER or a in BEHIND_CHOLESKY) and not tolerant_solver_ok:
                        continue
                    ok, d = self._close(v, b)
                    if not ok:
                        return False, (f"(a) {a} with preloads {obs['filled']} (formalism {key}, inversion {i + 1}) "
                                       f"differs from the preload-free value by {d:.3e} (> 1e-9 relative)")
            # (b) identical outcome every time: same read -> same bits, at every position of the history
            if first is None:
                first = {}
            for a, v in zip(case["history"][i], st["out"]):
                if a in first and first[a] != v:
                    return False, f"(b) {a} differs between two reads of the history (inversion {i + 1})"
                first.setdefault(a, v)
        # (c) the factory's choice changes no value (to rounding): both preload-free formalisms agree
        bm, bw = obs["base"]["m"], obs["base"]["w"]
        if bm is not None and bw is not None:
            solver_ok = (not case["pos"]) and self._well_conditioned(bm) and self._well_conditioned(bw)
            for a in ACCESSES:
                if a == "operated_mapping_matrix":
                    continue
                if (a in BEHIND_SOLVER or a in BEHIND_CHOLESKY) and not solver_ok:
                    continue
                ok, d = self._close(bw[a], bm[a])
                if not ok:
                    return False, f"(c) {a} differs between the two formalisms by {d:.3e} (> 1e-9 relative)"
        return True, ""

    # ------------------------------------------------------------------ misc
    def nontrivial(self, case, obs):
        if "err" in obs or len(case["history"]) < 2:
            return False
        consulted_w = {"w_tilde", "curvature_matrix", "regularization_matrix",
                       "log_det_regularization_matrix_term", "data_vector_mapper",
                       "curvature_matrix_mapper_diag", "linear_func_operated_mapping_matrix_dict",
                       "data_linear_func_matrix_dict", "mapper_operated_mapping_matrix_dict",
                       "operated_mapping_matrix"}
        consulted_m = consulted_w - {"w_tilde", "curvature_matrix_mapper_diag", "data_linear_func_matrix_dict",
                                     "mapper_operated_mapping_matrix_dict"}
        return bool(set(obs["filled"]) & (consulted_w if obs["eff_w"] else consulted_m))

    def shrink(self, case):
        # fewer slots, shorter history, fewer reads, canonical settings
        for s in case["slots"]:
            yield {**case, "slots": [x for x in case["slots"] if x != s]}
        if len(case["history"]) > 1:
            yield {**case, "history": case["history"][:-1]}
            yield {**case, "history": case["history"][1:]}
        for i, accs in enumerate(case["history"]):
            if len(accs) > 1:
                for j in range(len(accs)):
                    h = [list(a) for a in case["history"]]
                    del h[i][j]
                    yield {**case, "history": h}
        if case["pre_use_w"] is not None:
            yield {**case, "pre_use_w": None}
        if case["pos"]:
            yield {**case, "pos": False}
        w = case["world"]
        if len(w["objs"]) > 1:
            for i in range(len(w["objs"])):
                objs = [o for k, o in enumerate(w["objs"]) if k != i]
                yield {**case, "world": {**w, "objs": objs}}

    def known_finding(self, case, obs):
        return None

    def theorems_for(self, case):
        t = ["C15.impl_refines_spec", "C15.history_preloads_unchanged_outputs_identical"]
        if case["slots"]:
            t.append("C15.slot_transparency")
        if case["pre_use_w"] is not None:
            t.append("C15.formalism_choice_no_value")
        return t

    def sample_view(self, case):
        w = case["world"]
        v = {k: x for k, x in case.items() if k != "world"}
        v["world"] = w
        return v


CHECK = C15()
