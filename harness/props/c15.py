"""C15 — preloaded and cached intermediate results never change inversion outputs.

What a case is
--------------
  world     a small real imaging dataset (7x7..9x9 frame, structured mask, 3x3 PSF and — unless
            C15_UNUSUAL_PSF=0 — non-square / signed PSFs, see design_notes/C15.md) and 1-3 linear objects
            (rectangular mappers with Constant regularization, linear func lists with / without
            regularization, with / without an operated-mapping-matrix override)
  settings  use_w_tilde, use_positive_only_solver;  Preloads.use_w_tilde (None / True / False)
  slots     the subset of Preloads slots that is filled, and where the values come from
            ("same": a fresh inversion of the same formalism, "other": the other formalism)
  history   k successive inversions sharing the one Preloads object, each a list of reads

Observation = for every step the value of every read (bit patterns of the doubles) and the list of
preload arrays whose bytes changed; plus the same reads on inversions built WITHOUT preloads (both
formalisms), which are what the property compares against.

Exact vs tolerant (DESIGN §2.4): when every filled slot was produced by the same operations the
inversion would perform itself (every slot except the two alternative routes
data_linear_func_matrix_dict / mapper_operated_mapping_matrix_dict, and except "other"-formalism
values) all outputs must be BIT-IDENTICAL to the preload-free run.  Otherwise 1e-9 relative to the
largest entry, and quantities behind the solver only for the positive-negative solver on
well-conditioned systems (the positive-only solver's sensitivity is C05's business).

Round 4 added two further kinds of case (design_notes/C15.md, "Round 4 hardening"):
  kind "reuse"   ONE Preloads object, ONE SettingsInversion and (objs_mode "same") ONE dataset + list of linear
                 objects used for two worlds A and B (= A with one ingredient changed: regularization coefficient,
                 data, noise, func-list matrix, PSF, mask; big or ~4e-6 relative) in turn.  Between the phases the
                 slots whose value changed are refreshed by assignment / by the public setters / by writing into
                 the caller-owned arrays; the real objects are edited through Array2D.__setitem__, re-assignment
                 of `.regularization`, numpy item assignment; optional decoy reads, a failed operation in between,
                 read-only preloaded arrays, copied Preloads / settings.  Every phase is compared with the model's
                 prediction for a FRESH machine in that phase's world and, by the oracle, with the preload-free
                 inversion of freshly built objects.
  kind "large"   only when the anchored source gained an integer constant (common.size_hints): worlds whose
                 unmasked pixels / sub-pixels / frame / parameters / kernel / number of objects straddle the
                 constant.  No model comparison; the oracle states the normal equations directly with numpy
                 (true convolution of the mapping matrices, A^T N^-1 d, A^T N^-1 A, backward error of the
                 solution, A s, s^T H s, log det) on both formalisms where affordable, plus preload
                 bit-transparency at that size.
"""
from __future__ import annotations

import copy as _copy
import functools
import hashlib
import itertools
import json
import time
import os
from fractions import Fraction

import numpy as np

import gen
from common import PropertyCheck, Skip, load_autoarray

CORE = ["w_tilde", "curvature_matrix", "regularization_matrix",
        "log_det_regularization_matrix_term", "operated_mapping_matrix"]
EXT = ["data_vector_mapper", "curvature_matrix_mapper_diag",
       "linear_func_operated_mapping_matrix_dict", "data_linear_func_matrix_dict",
       "mapper_operated_mapping_matrix_dict"]
ALL_SLOTS = CORE + EXT
ARRAY_SLOTS = [s for s in ALL_SLOTS if s != "log_det_regularization_matrix_term"]
# slots whose preloaded value is obtained by a different sequence of float operations than the
# computation it replaces
ALT_ROUTE = {"data_linear_func_matrix_dict", "mapper_operated_mapping_matrix_dict"}
# arrays the model never computes on: travel as a 2-word digest
OPAQUE = {"w_tilde", "operated_mapping_matrix", "linear_func_operated_mapping_matrix_dict",
          "data_linear_func_matrix_dict", "mapper_operated_mapping_matrix_dict"}

# the methods of Preloads that fill the slots an imaging inversion consults
SETTERS = ["set_w_tilde_imaging", "set_operated_mapping_matrix_with_preloads",
           "set_linear_func_inversion_dicts", "set_curvature_matrix",
           "set_regularization_matrix_and_term"]

ACCESSES = ["operated_mapping_matrix", "data_vector", "curvature_matrix", "regularization_matrix",
            "curvature_reg_matrix", "reconstruction", "mapped_reconstructed_data",
            "regularization_term", "log_det_curvature_reg_matrix_term",
            "log_det_regularization_matrix_term"]
BEHIND_SOLVER = {"reconstruction", "mapped_reconstructed_data", "regularization_term"}
BEHIND_CHOLESKY = {"log_det_curvature_reg_matrix_term"}



def _unusual_psf_default():
    """non-square / signed PSFs broke the w-tilde formalism on the tree as first read (defects D2, D3);
    both repairs (C04's patches, /repo commits 8d3de88 and f33c4bb) have landed, so they are generated by
    default.  C15_UNUSUAL_PSF=0 restricts the generators to square non-negative PSFs again."""
    return os.environ.get("C15_UNUSUAL_PSF", "1") == "1"


UNUSUAL_PSF = _unusual_psf_default()

# the code state the Lean model mirrors (Model.Preload.Policy.repaired: fixes D151 + D152 applied)
POLICY = {"copy_curvature": True, "copy_dvm": True, "copy_diag": True, "guard_dvm": True}

NAN_BITS = 0x7FF8000000000000


# --------------------------------------------------------------------------------------------------
# numbers <-> bit patterns
# --------------------------------------------------------------------------------------------------
def bits_of(a):
    arr = np.ascontiguousarray(np.array(a, dtype=np.float64)).ravel()
    return arr.view(np.uint64).tolist()


def floats_of(bits):
    return np.array(bits, dtype=np.uint64).view(np.float64)


def digest(*arrays):
    """2-word stand-in for an array the model only passes around (finite doubles in [1,2))."""
    h = hashlib.sha1()
    for a in arrays:
        arr = np.ascontiguousarray(np.asarray(a))
        h.update(str(arr.dtype).encode())
        h.update(str(arr.shape).encode())
        h.update(arr.tobytes())
    d = h.digest()
    out = []
    for i in (0, 8):
        v = int.from_bytes(d[i:i + 8], "little") & ((1 << 52) - 1)
        out.append(0x3FF0000000000000 | v)
    return out


def fbits(x):
    return bits_of([float(x)])[0]


# --------------------------------------------------------------------------------------------------
# worlds
# --------------------------------------------------------------------------------------------------
@functools.lru_cache(maxsize=1 << 16)
def _frac_str(v):
    return float(Fraction(v))


def _frac(v):
    # the same strings recur tens of thousands of times per run: parse each once
    if isinstance(v, str):
        return _frac_str(v)
    return float(Fraction(v))


class World:
    """the real objects of one case, freshly built (nothing is shared between cases)"""

    def __init__(self, aa, w):
        self.aa = aa
        self.spec = w
        H, W = w["h"], w["w"]
        m = np.array([c == "1" for c in w["mask"]], dtype=bool).reshape(H, W)
        ps = w.get("pixel_scales", 1.0)
        self.mask = aa.Mask2D(mask=m, pixel_scales=ps)
        kern = self._arr([[_frac(v) for v in row] for row in w["psf"]])
        psf = aa.Kernel2D.no_mask(values=kern, pixel_scales=ps)
        data = aa.Array2D.no_mask(
            values=self._arr(np.array([_frac(v) for v in w["data"]]).reshape(H, W).tolist()), pixel_scales=ps)
        noise = aa.Array2D.no_mask(
            values=self._arr(np.array([_frac(v) for v in w["noise"]]).reshape(H, W).tolist()), pixel_scales=ps)
        self.ds = aa.Imaging(data=data, noise_map=noise, psf=psf,
                             use_normalized_psf=w.get("normalize_psf", True)).apply_mask(mask=self.mask)
        self.n = int(self.mask.pixels_in_mask)
        self.objs = [self._obj(o) for o in w["objs"]]

    def _arr(self, nested):
        """array-valued input in the world's dtype / container: float64 ndarray (default), int64 ndarray
        or nested Python int lists for integer-valued worlds (the results must be the same real numbers)"""
        w = self.spec
        if w.get("int_inputs"):
            ints = np.array(nested, dtype=np.float64)
            assert np.all(ints == np.round(ints))
            ints = ints.astype(np.int64)
            return ints.tolist() if w.get("container") == "list" else ints
        a = np.array(nested, dtype=np.float64)
        return a.tolist() if w.get("container") == "list" else a

    def _obj(self, o):
        aa = self.aa
        reg = None
        if o.get("reg") is not None:
            reg = aa.reg.Constant(coefficient=_frac(o["reg"]))
        if o["kind"] == "mapper":
            ovs = aa.OverSamplerUniform(mask=self.mask, sub_size=o.get("sub", 1))
            grid = ovs.over_sampled_grid
            mesh = aa.mesh.Rectangular(shape=tuple(o["shape"]))
            mg = mesh.mapper_grids_from(mask=self.mask, border_relocator=None,
                                        source_plane_data_grid=grid)
            return aa.Mapper(mapper_grids=mg, over_sampler=ovs, regularization=reg)
        grid = aa.Grid2D.from_mask(mask=self.mask)
        mm = np.array([[_frac(v) for v in row] for row in o["mm"]])[: self.n]
        if self.spec.get("int_inputs"):
            mm = mm.astype(np.int64)
        ov = None
        if o.get("override"):
            # what PyAutoGalaxy's linear light profiles supply: the already-operated matrix
            ov = self.ds.convolver.convolve_mapping_matrix(mapping_matrix=mm)
        return aa.m.MockLinearObjFuncList(parameters=mm.shape[1], grid=grid, mapping_matrix=mm,
                                          regularization=reg, operated_mapping_matrix_override=ov)

    def settings(self, use_w_tilde, case):
        return settings_of(self.aa, use_w_tilde, case)

    def dataset_for(self, case):
        """the dataset object handed to the factory: the Imaging itself or the generic DatasetInterface"""
        if case.get("entry") == "interface":
            ds = self.ds
            return self.aa.DatasetInterface(data=ds.data, noise_map=ds.noise_map, grids=ds.grids,
                                            convolver=ds.convolver, w_tilde=ds.w_tilde)
        return self.ds


def settings_of(aa, use_w_tilde, case):
    """SettingsInversion of a case: `pos` None = config default (positive-only), `diag_value` None = config
    default of no_regularization_add_to_curvature_diag_value (1e-3), else the explicit value (0, 1e-3, 1e-2)"""
    kw = {}
    if case.get("diag_value") is not None:
        kw["no_regularization_add_to_curvature_diag_value"] = _frac(case["diag_value"])
    if case.get("p_initial") is not None:
        kw["positive_only_uses_p_initial"] = case["p_initial"]
    return aa.SettingsInversion(use_w_tilde=use_w_tilde, use_positive_only_solver=case["pos"], **kw)


def pos_eff(case):
    return True if case["pos"] is None else bool(case["pos"])


def make_inversion(aa, wd, case, st, **kw):
    """the public entry points to the same factory: aa.Inversion (= inversion_from) or
    inversion_imaging_from, on the Imaging dataset or a DatasetInterface"""
    ds = wd.dataset_for(case)
    if case.get("entry") == "imaging_from":
        from autoarray.inversion.inversion.factory import inversion_imaging_from

        return inversion_imaging_from(dataset=ds, linear_obj_list=wd.objs, settings=st, **kw)
    return aa.Inversion(dataset=ds, linear_obj_list=wd.objs, settings=st, **kw)


def world_cfg(w):
    """the control-flow facts of Model.Preload.Cfg, from the world spec alone"""
    objs = w["objs"]
    dims = []
    for o in objs:
        dims.append(o["shape"][0] * o["shape"][1] if o["kind"] == "mapper" else len(o["mm"][0]))
    no_reg = []
    pos = 0
    for o, d in zip(objs, dims):
        if o.get("reg") is None:
            no_reg += list(range(pos, pos + d))
        pos += d
    return {
        "all_func_lists": all(o["kind"] == "func" for o in objs),
        "has_func_list": any(o["kind"] == "func" for o in objs),
        "n_mappers": sum(o["kind"] == "mapper" for o in objs),
        "n_objs": len(objs),
        "has_reg": any(o.get("reg") is not None for o in objs),
        "all_reg": all(o.get("reg") is not None for o in objs),
        "func_override": any(o["kind"] == "func" and o.get("override") for o in objs),
        "no_reg_idx": no_reg,
        "dim": sum(dims),
        "_dims": dims,
    }


def factory_choice(wc, settings_w, pre_use_w):
    """independent restatement of what the property calls 'the factory's choice'"""
    if not settings_w or wc["all_func_lists"]:
        return False
    return settings_w if pre_use_w is None else pre_use_w


def ranges(wc, w, kind):
    out, pos = [], 0
    for o, d in zip(w["objs"], wc["_dims"]):
        if o["kind"] == kind:
            out.append((pos, pos + d))
        pos += d
    return out


# --------------------------------------------------------------------------------------------------
# reading an inversion
# --------------------------------------------------------------------------------------------------
def read(inv, name):
    """one read, copied out at once; opaque arrays as digests"""
    v = getattr(inv, name)
    arr = np.array(v, dtype=np.float64, copy=True)
    if name == "operated_mapping_matrix":
        return digest(arr)
    return bits_of(arr)


def read_all(inv, names):
    return [read(inv, n) for n in names]


def wt_arrays(wt):
    return [np.asarray(wt.curvature_preload), np.asarray(wt.indexes), np.asarray(wt.lengths),
            np.asarray([float(wt.noise_map_value)])]


def slot_arrays(name, val):
    """the numpy buffers a slot value owns (for fingerprints / digests)"""
    if val is None:
        return []
    if name == "w_tilde":
        return wt_arrays(val)
    if isinstance(val, dict):
        return [np.asarray(v) for v in val.values()]
    return [np.asarray(val)]


def slot_cell(name, val):
    """heap cell of an array slot for the model"""
    if name in OPAQUE:
        return digest(*slot_arrays(name, val))
    return bits_of(val)


def fingerprint(name, val):
    return [hashlib.sha1(np.ascontiguousarray(a).tobytes()).hexdigest() for a in slot_arrays(name, val)]


class Tables:
    """finite samples of Model.Preload.Ext, keyed exactly as the driver expects"""

    def __init__(self):
        self.t = {}

    def const(self, k, v):
        self.t[k] = v

    def add(self, k, *row):
        rows = self.t.setdefault(k, [])
        if list(row) not in rows:
            rows.append(list(row))


def writes_of(mat, dim, rr, cc):
    out = []
    for (a, b) in rr:
        for (c, d) in cc:
            for i in range(a, b):
                for j in range(c, d):
                    out.append([i * dim + j, fbits(mat[i, j])])
    return out


# --------------------------------------------------------------------------------------------------
# round 4: reuse histories (one Preloads / settings / dataset / linear objects across two worlds)
# --------------------------------------------------------------------------------------------------
TINY = Fraction(1, 1 << 18)  # relative 3.8e-6: inside np.allclose's default rtol, far outside 1e-9
TINY_ABS = Fraction(1, 1 << 33)  # 1.2e-10 absolute, for values that are exactly zero

NON_ALT_SLOTS = [s for s in ALL_SLOTS if s not in ALT_ROUTE]

# the public setter of preloads.py that (re)fills a slot
SETTER_OF = {
    "operated_mapping_matrix": "set_operated_mapping_matrix_with_preloads",
    "linear_func_operated_mapping_matrix_dict": "set_linear_func_inversion_dicts",
    "data_linear_func_matrix_dict": "set_linear_func_inversion_dicts",
    "curvature_matrix": "set_curvature_matrix",
    "data_vector_mapper": "set_curvature_matrix",
    "curvature_matrix_mapper_diag": "set_curvature_matrix",
    "mapper_operated_mapping_matrix_dict": "set_curvature_matrix",
    "regularization_matrix": "set_regularization_matrix_and_term",
    "log_det_regularization_matrix_term": "set_regularization_matrix_and_term",
}

# every other public derived quantity of the objects involved (read BEFORE the observed reads; all are pure)
DECOYS_INV = [
    "total_params", "regularization_list", "all_linear_obj_have_regularization", "mapper_edge_pixel_list",
    "total_regularizations", "no_regularization_index_list", "mask", "mapping_matrix",
    "operated_mapping_matrix_list", "regularization_matrix_reduced", "curvature_reg_matrix_reduced",
    "reconstruction_reduced", "reconstruction_dict", "mapped_reconstructed_data_dict",
    "mapped_reconstructed_image_dict", "mapped_reconstructed_image", "data_subtracted_dict",
    "reconstruction_noise_map", "reconstruction_noise_map_dict", "regularization_weights_mapper_dict",
    "_data_vector_mapper", "_curvature_matrix_mapper_diag", "linear_func_operated_mapping_matrix_dict",
    "data_linear_func_matrix_dict", "mapper_operated_mapping_matrix_dict", "mapper_zero_pixel_list",
    "curvature_reg_matrix", "log_det_curvature_reg_matrix_term", "regularization_term",
]
DECOYS_OTHER = ["pre.info", "pre.check_threshold", "ds.w_tilde", "ds.convolver", "ds.grids",
                "other_formalism"]


def apply_edit(w, e):
    """world B of a reuse history: world A with ONE ingredient changed (pure function on the JSON spec)"""
    w2 = json.loads(json.dumps(w))
    k = e["kind"]
    if k == "reg":
        w2["objs"][e["obj"]]["reg"] = e["value"]
    elif k in ("data", "noise"):
        for idx, val in e["set"]:
            w2[k][idx] = val
    elif k == "func":
        for r, c, val in e["set"]:
            w2["objs"][e["obj"]]["mm"][r][c] = val
    elif k == "psf":
        for r, c, val in e["set"]:
            w2["psf"][r][c] = val
    elif k == "mask":
        m = list(w2["mask"])
        m[e["idx"]] = "1"
        w2["mask"] = "".join(m)
    else:
        raise ValueError(k)
    return w2


def same_value(a, b):
    """bitwise equality of two slot values (arrays, lists / dicts of arrays, floats, WTildeImaging, None)"""
    if a is None or b is None:
        return a is None and b is None
    if hasattr(a, "curvature_preload") or hasattr(b, "curvature_preload"):
        if not (hasattr(a, "curvature_preload") and hasattr(b, "curvature_preload")):
            return False
        return same_value(wt_arrays(a), wt_arrays(b))
    if isinstance(a, dict):
        a = list(a.values())
    if isinstance(b, dict):
        b = list(b.values())
    if isinstance(a, (list, tuple)) or isinstance(b, (list, tuple)):
        if not (isinstance(a, (list, tuple)) and isinstance(b, (list, tuple))) or len(a) != len(b):
            return False
        return all(same_value(x, y) for x, y in zip(a, b))
    if isinstance(a, float) or isinstance(b, float):
        return fbits(a) == fbits(b)
    x, y = np.asarray(a), np.asarray(b)
    return x.shape == y.shape and x.dtype == y.dtype and x.tobytes() == y.tobytes()


def owned_copy(name, v, readonly=False):
    """a caller-owned copy of a slot value in the form Preloads takes it"""
    if v is None:
        return None
    if name == "w_tilde" or isinstance(v, float):
        return v
    if isinstance(v, dict):
        v = list(v.values())
    if isinstance(v, list):
        out = {i: np.array(a, copy=True) for i, a in enumerate(v)}
        if readonly:
            for a in out.values():
                a.flags.writeable = False
        return out
    out = np.array(v, copy=True)
    if readonly:
        out.flags.writeable = False
    return out


# --------------------------------------------------------------------------------------------------
# round 4: large worlds (sizes on both sides of a new integer constant), judged without the model
# --------------------------------------------------------------------------------------------------
def ref_blur(M, ys, xs, H, W, K):
    """TRUE convolution of every column of M (values at the unmasked pixels (ys, xs), zero elsewhere) with the
    kernel K, gathered at the unmasked pixels:  out[p] = sum_ij full[p + half - (i, j)] * K[i, j]  (numpy only)"""
    kh, kw = K.shape
    hy, hx = kh // 2, kw // 2
    n, P = M.shape
    out = np.zeros((n, P))
    step = max(1, int(4.0e7 // max(1, (H + 2 * hy) * (W + 2 * hx))))
    for c0 in range(0, P, step):
        Mc = M[:, c0:c0 + step]
        cube = np.zeros((H + 2 * hy, W + 2 * hx, Mc.shape[1]))
        cube[ys + hy, xs + hx, :] = Mc
        acc = np.zeros((n, Mc.shape[1]))
        for i in range(kh):
            for j in range(kw):
                if K[i, j] != 0.0:
                    acc += K[i, j] * cube[ys + 2 * hy - i, xs + 2 * hx - j, :]
        out[:, c0:c0 + step] = acc
    return out


class LargeWorld:
    """real objects of a large case, from a compact spec (mask block, seeds) — built with numpy"""

    def __init__(self, aa, spec):
        self.aa = aa
        self.spec = spec
        H, W = spec["h"], spec["w"]
        y0, x0, bh, bw = spec["block"]
        n = spec["n"]
        yy, xx = np.meshgrid(np.arange(y0, y0 + bh), np.arange(x0, x0 + bw), indexing="ij")
        yy, xx = yy.ravel(), xx.ravel()
        keep = ((yy * 7 + xx * 3) % 11) != 0 if spec.get("holes") else np.ones(len(yy), bool)
        yy, xx = yy[keep][:n], xx[keep][:n]
        assert len(yy) == n, "mask block too small for the requested number of unmasked pixels"
        m = np.ones((H, W), dtype=bool)
        m[yy, xx] = False
        self.m = m
        self.ys, self.xs = np.nonzero(~m)  # row-major = slim order
        self.n = n
        ps = tuple(spec.get("pixel_scales", (1.0, 0.5)))
        rng = np.random.default_rng(spec["seed"])
        self.data_native = rng.integers(-24, 41, size=(H, W)) / 8.0
        self.noise_native = rng.integers(2, 13, size=(H, W)) / 4.0
        k = spec["psf"]
        lo = -6 if k.get("signed") else 0
        K = rng.integers(lo, 9, size=(k["kh"], k["kw"])) / 8.0
        K[k["kh"] // 2, k["kw"] // 2] = 1.0 + float(rng.integers(0, 5)) / 8.0
        if K.sum() == 0:
            K[k["kh"] // 2, k["kw"] // 2] += 1.0
        self.normalize = not k.get("signed")
        self.K_raw = K
        self.K = K / K.sum() if self.normalize else K
        self.mask = aa.Mask2D(mask=m, pixel_scales=ps)
        self.ds = aa.Imaging(
            data=aa.Array2D.no_mask(values=self.data_native, pixel_scales=ps),
            noise_map=aa.Array2D.no_mask(values=self.noise_native, pixel_scales=ps),
            psf=aa.Kernel2D.no_mask(values=K, pixel_scales=ps),
            use_normalized_psf=self.normalize).apply_mask(mask=self.mask)
        self.d = self.data_native[self.ys, self.xs]
        self.sig = self.noise_native[self.ys, self.xs]
        self.objs, self.mms, self.overrides, self.dims, self.regs = [], [], [], [], []
        for o in spec["objs"]:
            reg = None if o.get("reg") is None else aa.reg.Constant(coefficient=_frac(o["reg"]))
            if o["kind"] == "mapper":
                ovs = aa.OverSamplerUniform(mask=self.mask, sub_size=o.get("sub", 1))
                grid = ovs.over_sampled_grid
                mesh = aa.mesh.Rectangular(shape=tuple(o["shape"]))
                mg = mesh.mapper_grids_from(mask=self.mask, border_relocator=None, source_plane_data_grid=grid)
                obj = aa.Mapper(mapper_grids=mg, over_sampler=ovs, regularization=reg)
                self.mms.append(None)  # taken from the mapper (C06's business) when the reference is built
                self.overrides.append(None)
                self.dims.append(o["shape"][0] * o["shape"][1])
            else:
                r2 = np.random.default_rng(o["seed"])
                p = o["p"]
                mm = r2.integers(-8 if o.get("signed") else 0, 13, size=(n, p)) / 8.0
                for c in range(p):
                    mm[(c * 3 + 1) % n, c] = (16 + c % 7) / 8.0
                ov = ref_blur(mm, self.ys, self.xs, H, W, self.K) if o.get("override") else None
                obj = aa.m.MockLinearObjFuncList(parameters=p, grid=aa.Grid2D.from_mask(mask=self.mask),
                                                 mapping_matrix=mm, regularization=reg,
                                                 operated_mapping_matrix_override=ov)
                self.mms.append(mm)
                self.overrides.append(ov)
                self.dims.append(p)
            self.regs.append(reg is not None)
            self.objs.append(obj)
        self.P = sum(self.dims)
        self.no_reg_idx = []
        pos = 0
        for d_, r in zip(self.dims, self.regs):
            if not r:
                self.no_reg_idx += list(range(pos, pos + d_))
            pos += d_

    def reference(self, diag_value):
        """the normal equations stated directly: A = true convolution of the mapping matrices,
        D = A^T (d / sigma^2), F = A^T diag(sigma^-2) A (+ the diagonal term at unregularized parameters)"""
        H, W = self.spec["h"], self.spec["w"]
        blocks = []
        for obj, mm, ov in zip(self.objs, self.mms, self.overrides):
            if ov is not None:
                blocks.append(ov)
                continue
            M = np.array(obj.mapping_matrix, dtype=np.float64) if mm is None else mm
            blocks.append(ref_blur(M, self.ys, self.xs, H, W, self.K))
        A = np.hstack(blocks)
        Aw = A / self.sig[:, None]
        F = Aw.T @ Aw
        for i in self.no_reg_idx:
            F[i, i] += diag_value
        D = A.T @ (self.d / self.sig ** 2)
        return A, D, F


# --------------------------------------------------------------------------------------------------
class C15(PropertyCheck):
    pid = "C15"
    title = "preload transparency"
    nontrivial_rule = (
        "a case is non-trivial when at least one preload slot is filled that the running formalism "
        "consults, the history has >= 2 inversions and the preload-free reference inversion succeeds; "
        "distinct = distinct (world, settings, slot subset, source, history); a reuse history counts when at "
        "least two phases ran; a large case when the numpy statement of the normal equations and the preload "
        "steps were both evaluated"
    )
    exhaustive_note = {
        "quick": "the configuration space {all 32 subsets of the five slots named in the statement (w_tilde, "
                 "curvature_matrix, regularization_matrix, log_det_regularization_matrix_term, "
                 "operated_mapping_matrix)} x {settings.use_w_tilde off, on} x {the 15 object mixes of MIXES, "
                 "including mappers without regularization} is enumerated completely on every run (960 cases, "
                 "histories of 3 inversions); the dataset of each mix (mask, PSF, data, noise, matrices, dtype / "
                 "container of the inputs) and the solver / diagonal-value / entry-point options of each "
                 "(mix, formalism) group are drawn from the seed",
        "thorough": "as quick with histories of 6 inversions, plus all 1024 subsets of the ten consulted slots "
                    "for the mapper+func, func+mapper and mapper+mapper mixes in both formalisms, and every "
                    "single setter of preloads.py for every mix",
    }
    trusted_extra = [
        "modelled, not verified (Ext parameters of Model.Preload): every numerical kernel of the inversion "
        "(PSF convolution of mapping matrices, both normal-equation formalisms, solvers, regularization "
        "matrices, numpy hstack/dot/delete, scipy block_diag/splu, numpy.linalg) — sampled from reference "
        "runs of the real code on every case",
        "Python aliasing / copy semantics: modelled by the heap of Model.Preload and OBSERVED per case by "
        "byte fingerprints of every preload array after every inversion; not provable from the source",
        "cached_property is modelled as recomputation (sound for callers that copy what they read)",
    ]
    assumptions = [
        "preloads are computed from the identical dataset, linear objects and settings",
        "IEEE addition in the Lean driver (Float) equals numpy's (same hardware doubles)",
        "non-square and signed PSFs are generated by default (C04 repairs D2/D3 are in the tree); "
        "C15_UNUSUAL_PSF=0 restricts the generators to square non-negative PSFs",
    ]
    search_budget_s = {"quick": 40, "thorough": 300}
    # every Python function / method whose control flow, aliasing or in-place writes Model/Preload.lean
    # mirrors, plus the setters and helpers the generators drive (fingerprinted by the runner)
    modelled_functions = [
        "autoarray/preloads.py:Preloads.__init__",
        "autoarray/preloads.py:Preloads.set_w_tilde_imaging",
        "autoarray/preloads.py:Preloads.set_relocated_grid",
        "autoarray/preloads.py:Preloads.set_operated_mapping_matrix_with_preloads",
        "autoarray/preloads.py:Preloads.set_linear_func_inversion_dicts",
        "autoarray/preloads.py:Preloads.set_curvature_matrix",
        "autoarray/preloads.py:Preloads.set_regularization_matrix_and_term",
        "autoarray/inversion/inversion/factory.py:inversion_from",
        "autoarray/inversion/inversion/factory.py:inversion_imaging_from",
        "autoarray/dataset/abstract/w_tilde.py:AbstractWTilde.__init__",
        "autoarray/dataset/abstract/w_tilde.py:AbstractWTilde.check_noise_map",
        "autoarray/dataset/imaging/w_tilde.py:WTildeImaging.__init__",
        "autoarray/dataset/imaging/dataset.py:Imaging.w_tilde",
        "autoarray/inversion/inversion/abstract.py:AbstractInversion.__init__",
        "autoarray/inversion/inversion/abstract.py:AbstractInversion.has",
        "autoarray/inversion/inversion/abstract.py:AbstractInversion.total",
        "autoarray/inversion/inversion/abstract.py:AbstractInversion.param_range_list_from",
        "autoarray/inversion/inversion/abstract.py:AbstractInversion.regularization_list",
        "autoarray/inversion/inversion/abstract.py:AbstractInversion.all_linear_obj_have_regularization",
        "autoarray/inversion/inversion/abstract.py:AbstractInversion.no_regularization_index_list",
        "autoarray/inversion/inversion/abstract.py:AbstractInversion.operated_mapping_matrix",
        "autoarray/inversion/inversion/abstract.py:AbstractInversion.regularization_matrix",
        "autoarray/inversion/inversion/abstract.py:AbstractInversion.regularization_matrix_reduced",
        "autoarray/inversion/inversion/abstract.py:AbstractInversion.curvature_reg_matrix",
        "autoarray/inversion/inversion/abstract.py:AbstractInversion.curvature_reg_matrix_reduced",
        "autoarray/inversion/inversion/abstract.py:AbstractInversion.reconstruction",
        "autoarray/inversion/inversion/abstract.py:AbstractInversion.reconstruction_reduced",
        "autoarray/inversion/inversion/abstract.py:AbstractInversion.mapped_reconstructed_data",
        "autoarray/inversion/inversion/abstract.py:AbstractInversion.regularization_term",
        "autoarray/inversion/inversion/abstract.py:AbstractInversion.log_det_curvature_reg_matrix_term",
        "autoarray/inversion/inversion/abstract.py:AbstractInversion.log_det_regularization_matrix_term",
        "autoarray/inversion/inversion/imaging/abstract.py:AbstractInversionImaging.__init__",
        "autoarray/inversion/inversion/imaging/abstract.py:AbstractInversionImaging.operated_mapping_matrix_list",
        "autoarray/inversion/inversion/imaging/abstract.py:AbstractInversionImaging._updated_cls_key_dict_from",
        "autoarray/inversion/inversion/imaging/abstract.py:AbstractInversionImaging.linear_func_operated_mapping_matrix_dict",
        "autoarray/inversion/inversion/imaging/abstract.py:AbstractInversionImaging.data_linear_func_matrix_dict",
        "autoarray/inversion/inversion/imaging/abstract.py:AbstractInversionImaging.mapper_operated_mapping_matrix_dict",
        "autoarray/inversion/inversion/imaging/mapping.py:InversionImagingMapping.__init__",
        "autoarray/inversion/inversion/imaging/mapping.py:InversionImagingMapping._data_vector_mapper",
        "autoarray/inversion/inversion/imaging/mapping.py:InversionImagingMapping.data_vector",
        "autoarray/inversion/inversion/imaging/mapping.py:InversionImagingMapping._curvature_matrix_mapper_diag",
        "autoarray/inversion/inversion/imaging/mapping.py:InversionImagingMapping.curvature_matrix",
        "autoarray/inversion/inversion/imaging/mapping.py:InversionImagingMapping.mapped_reconstructed_data_dict",
        "autoarray/inversion/inversion/imaging/w_tilde.py:InversionImagingWTilde.__init__",
        "autoarray/inversion/inversion/imaging/w_tilde.py:InversionImagingWTilde.w_tilde_data",
        "autoarray/inversion/inversion/imaging/w_tilde.py:InversionImagingWTilde._data_vector_mapper",
        "autoarray/inversion/inversion/imaging/w_tilde.py:InversionImagingWTilde.data_vector",
        "autoarray/inversion/inversion/imaging/w_tilde.py:InversionImagingWTilde._data_vector_x1_mapper",
        "autoarray/inversion/inversion/imaging/w_tilde.py:InversionImagingWTilde._data_vector_multi_mapper",
        "autoarray/inversion/inversion/imaging/w_tilde.py:InversionImagingWTilde._data_vector_func_list_and_mapper",
        "autoarray/inversion/inversion/imaging/w_tilde.py:InversionImagingWTilde.curvature_matrix",
        "autoarray/inversion/inversion/imaging/w_tilde.py:InversionImagingWTilde._curvature_matrix_mapper_diag",
        "autoarray/inversion/inversion/imaging/w_tilde.py:InversionImagingWTilde._curvature_matrix_off_diag_from",
        "autoarray/inversion/inversion/imaging/w_tilde.py:InversionImagingWTilde._curvature_matrix_x1_mapper",
        "autoarray/inversion/inversion/imaging/w_tilde.py:InversionImagingWTilde._curvature_matrix_multi_mapper",
        "autoarray/inversion/inversion/imaging/w_tilde.py:InversionImagingWTilde._curvature_matrix_func_list_and_mapper",
        "autoarray/inversion/inversion/imaging/w_tilde.py:InversionImagingWTilde.mapped_reconstructed_data_dict",
        "autoarray/inversion/inversion/inversion_util.py:curvature_matrix_with_added_to_diag_from",
        "autoarray/inversion/inversion/inversion_util.py:curvature_matrix_mirrored_from",
        "autoarray/inversion/inversion/inversion_util.py:curvature_matrix_via_mapping_matrix_from",
        "autoarray/inversion/inversion/inversion_util.py:reconstruction_positive_negative_from",
        "autoarray/inversion/inversion/inversion_util.py:reconstruction_positive_only_from",
        "autoarray/inversion/inversion/settings.py:SettingsInversion.__init__",
        "autoarray/inversion/pixelization/mesh/abstract.py:AbstractMesh.relocated_grid_from",
        "autoarray/inversion/pixelization/mesh/rectangular.py:Rectangular.mapper_grids_from",
    ]

    def __init__(self):
        self._ref_cache = {}

    # ------------------------------------------------------------------ generation
    MIXES = [
        ["m"], ["m", "f"], ["f", "m"], ["m", "m"], ["m", "f", "m"], ["f"], ["f", "f"], ["m", "fr"],
        ["m", "fo"], ["m", "m", "f"], ["m", "f", "fo"],
        # mappers WITHOUT regularization ("mn"): the diagonal term no_regularization_add_to_curvature_diag_value
        # then applies to mapper entries, in both formalisms, with or without func lists
        ["mn"], ["m", "mn"], ["mn", "m"], ["mn", "f"],
    ]

    @staticmethod
    def _opts(rng, world):
        """settings / entry-point options of a group of cases (explicit-vs-default, set-but-falsy values,
        alternative entry points to the same factory)"""
        unreg_mapper = any(o["kind"] == "mapper" and o.get("reg") is None for o in world["objs"])
        unreg_funcs = sum(1 for o in world["objs"] if o["kind"] == "func" and o.get("reg") is None)
        # 0.0 only where the unregularized blocks are non-singular without the diagonal term
        diag = [None, None, "1/1000", "1/100"] + ([] if unreg_mapper or unreg_funcs > 1 else ["0"])
        return {"diag_value": rng.choice(diag), "pos": rng.choice([None, False, True]),
                "p_initial": rng.choice([None, None, False, True]),
                "entry": rng.choice([None, None, "imaging_from", "interface"])}

    def _world(self, rng, mix, unusual=False, tiny=None):
        H, W = rng.choice([(7, 7), (7, 8), (8, 7), (8, 9), (9, 8), (9, 9), (8, 8), (7, 9)])
        if unusual:
            kh, kw = rng.choice([(3, 5), (5, 3), (1, 3), (3, 1), (3, 3)])
        else:
            kh, kw = 3, 3
        my, mx = kh // 2 + (1 if kh == 1 else 0), kw // 2 + (1 if kw == 1 else 0)
        my, mx = max(my, 1), max(mx, 1)
        for _ in range(50):
            m, kind = gen.random_mask(rng, H, W, margin=max(my, mx),
                                      kind=rng.choice(["block", "blocks", "annulus", "cross", "diagonal",
                                                       "bernoulli", "all"]))
            n = sum(1 for r in m for b in r if not b)
            if 5 <= n <= 24:
                break
        else:
            m = gen.mask_block(H, W, 2, H - 2, 2, W - 2)
            kind = "block"
        if tiny is not None:
            # degenerate sizes: exactly `tiny` (1 or 2) unmasked pixels
            m = gen.full(H, W)
            y0, x0 = rng.randint(max(my, mx), H - 1 - max(my, mx)), rng.randint(max(my, mx), W - 2 - max(my, mx))
            for t in range(tiny):
                m[y0][x0 + t] = False
            kind = f"tiny{tiny}"
        n = sum(1 for r in m for b in r if not b)
        signed = unusual and rng.random() < 0.6
        # a share of the worlds has integer-valued inputs handed over as int64 arrays / nested int lists
        ints = rng.random() < 0.22
        den = 1 if ints else 8
        psf = [[Fraction(rng.randint(-6 if signed else 0, 8), den) if not ints else
                Fraction(rng.randint(-2 if signed else 0, 4)) for _ in range(kw)] for _ in range(kh)]
        psf[kh // 2][kw // 2] = Fraction(rng.randint(4, 8), den)
        if sum(sum(r) for r in psf) == 0:
            psf[kh // 2][kw // 2] += 1
        if ints:
            data = [Fraction(rng.randint(-4, 9)) for _ in range(H * W)]
            noise = [Fraction(rng.randint(1, 4)) for _ in range(H * W)]
        else:
            data = [Fraction(rng.randint(-24, 40), 8) for _ in range(H * W)]
            noise = [Fraction(rng.randint(2, 12), 4) for _ in range(H * W)]
        objs = []
        for code in mix:
            if code[0] == "m":
                objs.append({"kind": "mapper", "shape": list(rng.choice([(3, 3), (3, 4), (4, 3)])),
                             "sub": rng.choice([1, 2]),
                             "reg": None if code == "mn" else str(Fraction(rng.choice([1, 2, 4, 6]), 2))})
            else:
                p = rng.choice([1, 2, 3]) if n >= 3 else 1
                signed_mm = rng.random() < 0.5
                if ints:
                    mm = [[str(rng.randint(-2 if signed_mm else 0, 3)) for _ in range(p)] for _ in range(n)]
                else:
                    mm = [[str(Fraction(rng.randint(-8 if signed_mm else 0, 12), 8)) for _ in range(p)]
                          for _ in range(n)]
                # keep the columns independent enough: a dominant distinct row per column
                for c in range(p):
                    mm[(c * 3 + 1) % n][c] = str(5 + c) if ints else str(Fraction(16 + c, 8))
                objs.append({"kind": "func", "mm": mm,
                             "reg": str(Fraction(rng.choice([1, 2, 3]), 2)) if code == "fr" else None,
                             "override": code == "fo" or (code == "f" and rng.random() < 0.25)})
        return {"h": H, "w": W, "mask": "".join("1" if b else "0" for r in m for b in r),
                "mask_kind": kind, "psf": [[str(v) for v in r] for r in psf],
                "normalize_psf": not signed, "int_inputs": ints,
                "container": rng.choice([None, None, "list"]),
                "data": [str(v) for v in data], "noise": [str(v) for v in noise], "objs": objs}

    @staticmethod
    def _history(rng, k, style):
        if style == "canonical":
            return [list(ACCESSES) for _ in range(k)]
        hist = []
        for _ in range(k):
            if style == "permuted":
                a = list(ACCESSES)
                rng.shuffle(a)
            else:  # "partial": a random multiset of reads, always touching the in-place path
                a = [rng.choice(ACCESSES) for _ in range(rng.randint(2, 8))]
                a.insert(rng.randrange(len(a) + 1), rng.choice(["curvature_reg_matrix", "reconstruction"]))
                a.append("curvature_matrix")
            hist.append(a)
        return hist

    @staticmethod
    def _invoked_tier():
        """the tier ./check was started with (the runner asks for thorough-tier generation inside a quick
        run when a modelled function's fingerprint changed, and in its failing-input search)"""
        import sys

        if "--tier" in sys.argv:
            i = sys.argv.index("--tier")
            if i + 1 < len(sys.argv):
                return sys.argv[i + 1]
        for a in sys.argv:
            if a.startswith("--tier="):
                return a.split("=", 1)[1]
        return os.environ.get("VERIF_TIER", "quick")

    def generate(self, tier, rng):
        # every case costs ~40 ms of real inversions, so a thorough-size list (~8500 cases) inside a quick
        # run would take minutes: when escalated, generate an intermediate list (~2x quick) instead
        escalated = tier == "thorough" and self._invoked_tier() == "quick"
        if escalated:
            tier = "escalated"
        k = {"quick": 3, "escalated": 3}.get(tier, 6)
        mixes = list(self.MIXES)

        def unusual_for(i, section):
            # non-square / signed PSFs on every other mix, alternating between the sections, so that
            # every mix meets both kinds of PSF in every run
            return UNUSUAL_PSF and (i + section) % 2 == 1

        def tagged(tag, unusual):
            return tag + ("_unusual_psf" if unusual else "")

        # 1. exhaustive: all subsets of the five core slots x both formalisms x every mix
        for i, mix in enumerate(mixes):
            unusual = unusual_for(i, 1)
            world = self._world(rng, mix, unusual)
            for settings_w in (False, True):
                opts = self._opts(rng, world)
                for r in range(len(CORE) + 1):
                    for sub in itertools.combinations(CORE, r):
                        yield {"tag": tagged("core_subsets", unusual),
                               "world": world, "settings_w": settings_w, **opts,
                               "pre_use_w": None, "slots": list(sub), "source": "same",
                               "wt_kind": "fresh",
                               "history": self._history(rng, k, "canonical" if r % 2 == 0 else "permuted")}
        # 2. the other consulted slots: singles, all-ext, all ten, random subsets of the ten
        n_rand = {"quick": 8, "escalated": 12}.get(tier, 40)
        for i, mix in enumerate(mixes):
            unusual = unusual_for(i, 2)
            wc_all_func = all(c[0] != "m" for c in mix)
            world = self._world(rng, mix, unusual)
            subsets = [[s] for s in EXT] + [list(EXT), list(ALL_SLOTS)]
            if tier == "thorough" and mix in (["m", "f"], ["f", "m"], ["m", "m"]):
                subsets = [list(c) for r in range(len(ALL_SLOTS) + 1)
                           for c in itertools.combinations(ALL_SLOTS, r)]
            else:
                for _ in range(n_rand):
                    subsets.append([s for s in ALL_SLOTS if rng.random() < 0.45])
            for settings_w in (False, True):
                if wc_all_func and settings_w:
                    continue
                opts = self._opts(rng, world)
                for sub in subsets:
                    yield {"tag": tagged("ext_subsets", unusual),
                           "world": world, "settings_w": settings_w, **opts,
                           "pre_use_w": None, "slots": sub, "source": "same",
                           "wt_kind": rng.choice(["fresh", "dataset"]),
                           "history": self._history(rng, k, rng.choice(["canonical", "permuted", "partial"]))}
        # 3. formalism selection: Preloads.use_w_tilde against settings.use_w_tilde, with slots
        for i, mix in enumerate(mixes):
            unusual = unusual_for(i, 3)
            world = self._world(rng, mix, unusual)
            for settings_w in (False, True):
                opts = {**self._opts(rng, world), "pos": False}
                for pre_use_w in (True, False):
                    for _ in range({"quick": 2, "escalated": 3}.get(tier, 6)):
                        sub = [s for s in ALL_SLOTS if rng.random() < 0.35]
                        yield {"tag": tagged("factory_choice", unusual),
                               "world": world, "settings_w": settings_w, **opts,
                               "pre_use_w": pre_use_w, "slots": sub, "source": "same",
                               "wt_kind": "fresh", "history": self._history(rng, k, "canonical")}
        # 4. values computed by the OTHER formalism from the identical inputs (tolerant comparison)
        for i, mix in enumerate(mixes):
            if all(c[0] != "m" for c in mix):
                continue
            unusual = unusual_for(i, 4)
            world = self._world(rng, mix, unusual)
            for settings_w in (False, True):
                opts = {**self._opts(rng, world), "pos": rng.choice([False, False, None])}
                for sub in (["curvature_matrix"], ["curvature_matrix", "regularization_matrix"],
                            ["curvature_matrix", "operated_mapping_matrix", "w_tilde"]):
                    yield {"tag": tagged("other_formalism_source", unusual),
                           "world": world, "settings_w": settings_w, **opts,
                           "pre_use_w": None, "slots": sub, "source": "other", "wt_kind": "fresh",
                           "history": self._history(rng, k, "canonical")}
        # 5. a w_tilde computed for another noise map is refused (check_noise_map)
        for mix in (["m"], ["m", "f"]):
            world = self._world(rng, mix)
            yield {"tag": "foreign_w_tilde", "world": world, "settings_w": True, "pos": False,
                   "pre_use_w": None, "slots": ["w_tilde"], "source": "same", "wt_kind": "foreign",
                   "history": self._history(rng, 2, "canonical")}
        # 6. the Preloads object is filled by its own setters (preloads.py set_*) from two equal fits
        setter_sets = [list(SETTERS)] + [[m] for m in SETTERS]
        for i, mix in enumerate(mixes):
            unusual = unusual_for(i, 6)
            world = self._world(rng, mix, unusual)
            for settings_w in (False, True):
                if all(c[0] != "m" for c in mix) and settings_w:
                    continue
                opts = self._opts(rng, world)
                sets = setter_sets if tier in ("thorough", "escalated") else [setter_sets[0]] + [
                    [m for m in SETTERS if rng.random() < 0.5] for _ in range(2)]
                for st in sets:
                    yield {"tag": tagged("via_setters", unusual), "via": "setters", "setters": st,
                           "world": world, "settings_w": settings_w, **opts,
                           "pre_use_w": None, "slots": [], "source": "same", "wt_kind": "fresh",
                           "history": self._history(rng, k, rng.choice(["canonical", "permuted"]))}
        # 7. Preloads.relocated_grid consulted when the mapper is built (oracle only)
        for i, mix in enumerate(mixes):
            if mix[0] != "m":
                continue
            world = self._world(rng, mix, unusual_for(i, 7))
            n_sub = sum(1 for c in world["mask"] if c == "0") * world["objs"][0]["sub"] ** 2
            distort = [[rng.randrange(n_sub), str(Fraction(rng.randint(12, 40), 8))]
                       for _ in range(rng.randint(1, 4))]
            for settings_w in (False, True):
                yield {"tag": "relocated_grid", "kind": "relocated_grid", "distort": distort,
                       "world": world, "settings_w": settings_w, "pos": rng.random() < 0.5,
                       "pre_use_w": None, "slots": ["relocated_grid"], "source": "same",
                       "wt_kind": "fresh", "history": self._history(rng, k, "canonical")}
        # 8. degenerate sizes: one / two unmasked pixels; histories of one inversion, an inversion with
        #    no read at all, a single read
        for tiny in (1, 2):
            for mix in (["m"], ["m", "f"], ["f"], ["mn"]):
                world = self._world(rng, mix, False, tiny=tiny)
                for settings_w in (False, True):
                    if mix == ["f"] and settings_w:
                        continue
                    opts = self._opts(rng, world)
                    for sub, hist in ((list(CORE), [list(ACCESSES)]),
                                      (["curvature_matrix"], [[], ["curvature_reg_matrix"], []]),
                                      (list(ALL_SLOTS), self._history(rng, k, "permuted"))):
                        yield {"tag": f"degenerate_{tiny}px", "world": world, "settings_w": settings_w, **opts,
                               "pre_use_w": None, "slots": sub, "source": "same", "wt_kind": "fresh",
                               "history": hist}
        # 9. seeded random everything
        n = {"quick": 50, "escalated": 100}.get(tier, 500)
        for _ in range(n):
            mix = rng.choice(mixes)
            unusual = UNUSUAL_PSF and rng.random() < 0.5
            world = self._world(rng, mix, unusual)
            yield {"tag": tagged("random", unusual), "world": world,
                   "settings_w": rng.random() < 0.6, **self._opts(rng, world),
                   "pre_use_w": rng.choice([None, None, True, False]),
                   "slots": [s for s in ALL_SLOTS if rng.random() < 0.4], "source": "same",
                   "wt_kind": rng.choice(["fresh", "dataset"]),
                   "history": self._history(rng, rng.randint(1, k), rng.choice(["canonical", "permuted", "partial"]))}
        # 10. reuse histories: one Preloads / settings (/ dataset / linear objects) across two worlds
        yield from self._reuse_cases(tier, rng, unusual_for, tagged)
        # 11. the direct numpy statement of the normal equations (the oracle of the large stream) at ordinary
        #     sizes in every run, one world per size dimension: keeps that oracle exercised on the unchanged tree
        #     and is independent of any state the library shares between 'fresh' objects
        for rep_ in range({"quick": 1, "escalated": 1}.get(tier, 4)):
            for dim, size in (("pixels", rng.randint(100, 180)), ("sub", rng.randint(200, 400)),
                              ("frame", rng.choice([1200, 1500, 1716, 2030])), ("params", rng.randint(40, 90)),
                              ("kernel", rng.choice([15, 21, 35, 45])), ("objs", rng.randint(4, 8))):
                c = self._large_case(dim, size, size, rng)
                if c is not None:
                    yield {**{k: v for k, v in c.items() if k != "_cost"}, "tag": f"direct_{dim}"}

    # ================================================================== round 4: reuse histories
    @staticmethod
    def _tiny(v):
        v = Fraction(v)
        return str(v * (1 + TINY)) if v != 0 else str(TINY_ABS)

    def _edit(self, rng, w, kind, tiny):
        """one change of world A (descriptor with the exact new values), or None when `kind` does not apply"""
        H, W = w["h"], w["w"]
        unm = [i for i, c in enumerate(w["mask"]) if c == "0"]
        if kind == "reg":
            cand = [j for j, o in enumerate(w["objs"]) if o.get("reg") is not None]
            if not cand:
                return None
            j = rng.choice(cand)
            v = Fraction(w["objs"][j]["reg"])
            return {"kind": "reg", "obj": j, "value": self._tiny(v) if tiny else str(v * rng.choice([4, 3]))}
        if kind in ("data", "noise"):
            idxs = rng.sample(unm, min(len(unm), rng.randint(1, 3)))
            out = []
            for i in idxs:
                v = Fraction(w[kind][i])
                if tiny:
                    out.append([i, self._tiny(v)])
                else:
                    out.append([i, str(v + Fraction(3, 2)) if kind == "data" else str(v * 2)])
            return {"kind": kind, "set": out}
        if kind == "func":
            cand = [j for j, o in enumerate(w["objs"]) if o["kind"] == "func"]
            if not cand:
                return None
            j = rng.choice(cand)
            mm = w["objs"][j]["mm"]
            n = len(unm)
            r, c = rng.randrange(min(n, len(mm))), rng.randrange(len(mm[0]))
            v = Fraction(mm[r][c])
            return {"kind": "func", "obj": j, "set": [[r, c, self._tiny(v) if tiny else str(v + Fraction(5, 8))]]}
        if kind == "psf":
            kh, kw = len(w["psf"]), len(w["psf"][0])
            r, c = rng.randrange(kh), rng.randrange(kw)
            v = Fraction(w["psf"][r][c])
            return {"kind": "psf", "set": [[r, c, self._tiny(v) if tiny else str(v + Fraction(3, 8))]]}
        if kind == "mask":
            if len(unm) < 6:
                return None
            return {"kind": "mask", "idx": rng.choice(unm)}
        raise ValueError(kind)

    EDIT_KINDS = ["reg", "noise", "data", "func", "psf", "mask"]
    PHASE_ORDERS = [["a", "b", "a"], ["a", "b"], ["b", "a", "b"], ["a", "b", "b", "a"], ["b", "a"]]

    @staticmethod
    def _mix_supports(mix, kind, w):
        if w and all(c[0] != "m" for c in mix):
            return False
        if kind == "reg":
            return any(c in ("m", "fr") for c in mix)
        if kind == "func":
            return any(c[0] == "f" and c != "fo" for c in mix)
        return True

    def _reuse_cases(self, tier, rng, unusual_for, tagged):
        """10. one Preloads object / one SettingsInversion / (optionally) one dataset and one list of linear
        objects, used for two different worlds A and B in turn.  Every phase's reads are compared with a FRESH
        computation for that phase's world.

        Per repetition every (kind of change, formalism) once — a pair of worlds (A, B = A with one ingredient
        changed) on a mix that supports it — and four histories on each pair:
          0  Preloads-centred: every slot filled, B's slots refreshed partially (assign / public setter / in place)
          1  objects-centred: an EMPTY Preloads, the same dataset + linear objects edited in place where the
             change allows it (nothing short-circuits the computation that reads them), A, B, A
          2  fault then reuse: the five slots of the statement, an operation that raises between the phases
          3  seeded random everything
        plus the in-place path (a single regularized mapper: `F += H` into the cached curvature matrix) with
        every kind of failed operation in both formalisms."""
        reps = {"quick": 2, "escalated": 3}.get(tier, 10)
        k_inv = 2
        tiny_off = rng.randrange(2)
        pair = 0

        def histories(world, edit, tiny, settings_w, unusual, plan):
            opts = {**self._opts(rng, world), "pos": rng.choice([False, False, None])}
            can_same = edit["kind"] in ("reg", "data") or (
                edit["kind"] == "func" and not world["objs"][edit["obj"]].get("override"))
            refreshes = ["assign", "setter", "inplace", "assign"]
            rng.shuffle(refreshes)
            faults = ["bad_reg_shape", "raising_obj"] + (["foreign_w_tilde"] if settings_w else [])
            for j, fault in plan:
                entry = opts["entry"]
                if j == 0:
                    slots, mode, order_x = list(NON_ALT_SLOTS), "rebuild", rng.choice(self.PHASE_ORDERS)
                elif j == 1:
                    slots, mode, order_x = [], ("same" if can_same else "rebuild"), rng.choice(
                        [["a", "b", "a"], ["b", "a", "b"]])
                    entry = None
                elif j == 2:
                    slots, mode, order_x = list(CORE), ("same" if can_same and rng.random() < 0.5 else "rebuild"), \
                        rng.choice(self.PHASE_ORDERS)
                else:
                    slots = [s for s in ALL_SLOTS if rng.random() < 0.5]
                    mode, order_x = ("same" if can_same and rng.random() < 0.5 else "rebuild"), \
                        rng.choice(self.PHASE_ORDERS)
                refresh = refreshes[j]
                phases = []
                for p_i, x in enumerate(order_x):
                    style = "canonical" if j == 1 else rng.choice(["canonical", "permuted", "partial"])
                    ph = {"w": x, "history": self._history(rng, rng.randint(1, k_inv), style)}
                    if rng.random() < 0.3:
                        ph["decoy"] = rng.sample(DECOYS_INV, rng.randint(3, 10)) + \
                            rng.sample(DECOYS_OTHER, rng.randint(0, 3))
                    if p_i >= 1 and (j == 2 and p_i == 1 or j == 3 and rng.random() < 0.25):
                        ph["fault"] = fault if (j == 2 and fault in faults) else rng.choice(faults)
                    phases.append(ph)
                yield {"tag": tagged("reuse_" + edit["kind"] + ("_tiny" if tiny else ""), unusual),
                       "kind": "reuse", "world": world, "edit": edit, "settings_w": settings_w,
                       **{**opts, "entry": entry},
                       "pre_use_w": None, "slots": slots, "source": "same", "wt_kind": "fresh",
                       "refresh": refresh, "objs_mode": mode,
                       "readonly": refresh == "assign" and rng.random() < 0.5,
                       "derive": j != 1 and rng.random() < 0.25,
                       "phases": phases, "history": [a for ph in phases for a in ph["history"]]}

        def make_pair(mix, kind, tiny, unusual):
            world = self._world(rng, mix, unusual)
            world["int_inputs"] = False  # edits are not integer-valued
            if kind == "func":  # the edited func list computes its own operated matrix
                for o, code in zip(world["objs"], mix):
                    if code in ("f", "fr"):
                        o["override"] = False
            for knd in [kind] + self.EDIT_KINDS:
                edit = self._edit(rng, world, knd, tiny)
                if edit is not None and not (knd == "func" and world["objs"][edit["obj"]].get("override")):
                    return world, edit
            raise AssertionError("no applicable change")

        fault_rot = ["bad_reg_shape", "raising_obj", "foreign_w_tilde"]
        for rep in range(reps):
            for kind in self.EDIT_KINDS:
                for settings_w in (False, True):
                    cands = [m for m in self.MIXES if self._mix_supports(m, kind, settings_w)]
                    mix = ["m"] if (["m"] in cands and rng.random() < 0.3) else rng.choice(cands)
                    tiny = (pair // 2 + pair + rep + tiny_off) % 2 == 0
                    unusual = UNUSUAL_PSF and rng.random() < 0.5
                    world, edit = make_pair(mix, kind, tiny, unusual)
                    yield from histories(world, edit, tiny, settings_w, unusual,
                                         [(0, None), (1, None), (2, fault_rot[(pair + rep) % 3]), (3, None)])
                    pair += 1
            # the in-place path: one regularized mapper, every failed operation, both formalisms
            for settings_w in (False, True):
                kind = self.EDIT_KINDS[(rep + tiny_off + int(settings_w)) % len(self.EDIT_KINDS)]
                world, edit = make_pair(["m"], kind, rep % 2 == 0, False)
                yield from histories(world, edit, rep % 2 == 0, settings_w, False,
                                     [(2, f) for f in fault_rot if settings_w or f != "foreign_w_tilde"])

    # -- running a reuse history ---------------------------------------------------------------------
    def _fresh_w_tilde(self, wd, foreign=False):
        from autoarray.dataset.imaging.w_tilde import WTildeImaging
        from autoarray.inversion.inversion.imaging import inversion_imaging_util

        noise_native = np.array(wd.ds.noise_map.native)
        if foreign:
            noise_native = noise_native * 2.0
        cp, ix, ln = inversion_imaging_util.w_tilde_curvature_preload_imaging_from(
            noise_map_native=noise_native, kernel_native=np.array(wd.ds.psf.native),
            native_index_for_slim_index=np.array(wd.ds.mask.derive_indexes.native_for_slim))
        nv = wd.ds.noise_map[0] * (2.0 if foreign else 1.0)
        return WTildeImaging(curvature_preload=cp, indexes=ix.astype("int"), lengths=ln.astype("int"),
                             noise_map_value=nv)

    def _apply_inplace(self, aa, wd, spec_from, spec_to, edit):
        """move the REAL objects of `wd` from world `spec_from` to `spec_to` through the public in-place routes:
        Array2D.__setitem__ on the dataset's data, re-assignment of a linear object's regularization, numpy
        item assignment on the caller-owned mapping matrix of a func list"""
        k = edit["kind"]
        if k == "reg":
            j = edit["obj"]
            wd.objs[j].regularization = aa.reg.Constant(coefficient=_frac(spec_to["objs"][j]["reg"]))
        elif k == "data":
            mask = spec_to["mask"]
            for idx, _ in edit["set"]:
                slim = sum(1 for c in mask[:idx] if c == "0")
                wd.ds.data[slim] = _frac(spec_to["data"][idx])
        elif k == "func":
            j = edit["obj"]
            for r, c, _ in edit["set"]:
                wd.objs[j].mapping_matrix[r, c] = _frac(spec_to["objs"][j]["mm"][r][c])
        else:
            raise ValueError(f"in-place edit of {k}")
        wd.spec = spec_to

    def _fits_of(self, aa, case, spec):
        fits = []
        for _ in range(2):
            wd = World(aa, spec)
            inv = aa.Inversion(dataset=wd.ds, linear_obj_list=wd.objs, settings=wd.settings(case["settings_w"], case))
            read_all(inv, ACCESSES)
            fits.append(aa.m.MockFitImaging(dataset=wd.ds, noise_map=wd.ds.noise_map, inversion=inv))
        return fits

    @staticmethod
    def _decoy_reads(aa, names, inv, pre, wd, case, other_settings):
        done = []
        for nm in names:
            try:
                if nm == "other_formalism":
                    if other_settings is not None:
                        o = aa.Inversion(dataset=wd.ds, linear_obj_list=wd.objs, settings=other_settings)
                        read_all(o, ACCESSES)
                elif nm.startswith("pre."):
                    getattr(pre, nm[4:])
                elif nm.startswith("ds."):
                    getattr(wd.ds, nm[3:])
                else:
                    v = getattr(inv, nm)
                    if isinstance(v, dict):
                        list(v.values())
                done.append(nm)
            except Exception as e:  # several of them are documented to raise for some mixes; not judged
                done.append(f"{nm}!{type(e).__name__}")
        return done

    def _fault(self, aa, kind, case, wd, st, pre, vals, eff_w, dim):
        """an operation on the shared objects that raises in the middle; everything is restored afterwards"""
        try:
            if kind == "bad_reg_shape":
                if "regularization_matrix" not in vals:
                    return "n/a"
                keep = pre.regularization_matrix
                pre.regularization_matrix = np.zeros((dim + 1, dim + 1))
                try:
                    inv = make_inversion(aa, wd, case, st, preloads=pre)
                    inv.curvature_reg_matrix
                    inv.reconstruction
                    return "no exception"
                finally:
                    pre.regularization_matrix = keep
            if kind == "foreign_w_tilde":
                if "w_tilde" not in vals or not eff_w:
                    return "n/a"
                keep = pre.w_tilde
                pre.w_tilde = self._fresh_w_tilde(wd, foreign=True)
                try:
                    inv = make_inversion(aa, wd, case, st, preloads=pre)
                    read_all(inv, ACCESSES)
                    return "no exception"
                finally:
                    pre.w_tilde = keep
            if kind == "raising_obj":
                base_cls = aa.m.MockLinearObjFuncList

                class Raising(base_cls):
                    @property
                    def mapping_matrix(self):
                        raise RuntimeError("user function failed")

                bad = Raising(parameters=1, grid=aa.Grid2D.from_mask(mask=wd.mask), mapping_matrix=None)
                ds = wd.dataset_for(case)
                inv = aa.Inversion(dataset=ds, linear_obj_list=wd.objs + [bad], settings=st, preloads=pre)
                for a in ("mapping_matrix", "data_vector", "curvature_matrix", "curvature_reg_matrix",
                          "reconstruction"):
                    try:
                        getattr(inv, a)
                    except Exception:
                        pass
                return "raised"
        except Exception as e:
            return type(e).__name__
        return "n/a"

    def _run_reuse(self, aa, case):
        from autoarray import exc

        specs = {"a": case["world"], "b": apply_edit(case["world"], case["edit"])}
        wcs = {x: world_cfg(specs[x]) for x in "ab"}
        eff_w = factory_choice(wcs["a"], case["settings_w"], None)
        sub = {x: {**case, "world": specs[x]} for x in "ab"}
        refs = {x: self._reference(sub[x], eff_w) for x in "ab"}
        if refs["a"] is None or refs["b"] is None:
            raise Skip("a preload-free reference inversion raises InversionException")
        st = settings_of(aa, case["settings_w"], case)  # ONE settings object for the whole history
        other_st = None if wcs["a"]["all_func_lists"] else settings_of(aa, not eff_w, case)
        worlds = {}
        same = case["objs_mode"] == "same"

        def world_for(x):
            if same:
                if "w" not in worlds:
                    worlds["w"], worlds["cur"] = World(aa, specs[x]), x
                if worlds["cur"] != x:
                    self._apply_inplace(aa, worlds["w"], specs[worlds["cur"]], specs[x], case["edit"])
                    worlds["cur"] = x
                return worlds["w"]
            if x not in worlds:
                worlds[x] = World(aa, specs[x])
            return worlds[x]

        ro = bool(case.get("readonly"))

        def target(x, wd):
            out = {}
            for s in case["slots"]:
                if s == "w_tilde":
                    out[s] = self._fresh_w_tilde(World(aa, specs[x]))
                    continue
                v = refs[x]["slots"].get(s)
                if v is not None:
                    out[s] = v
            return out

        pre = None
        cur_target = {}
        phases_obs = []
        for ph in case["phases"]:
            x = ph["w"]
            wd = world_for(x)
            tgt = target(x, wd)
            setter_errors = []
            if pre is None:
                pre = aa.Preloads(**{s: owned_copy(s, v, ro) for s, v in tgt.items()})
            else:
                if case.get("derive"):
                    # objects derived by copying carry whatever private state the originals had
                    pre = _copy.copy(pre)
                    st = _copy.deepcopy(st)
                changed = [s for s in ALL_SLOTS
                           if (s in tgt or s in cur_target) and not same_value(tgt.get(s), cur_target.get(s))]
                how = case["refresh"]
                if how == "setter" and changed:
                    called = []
                    fits = self._fits_of(aa, case, specs[x])
                    self._keep_alive = fits
                    for s in changed:
                        m = SETTER_OF.get(s)
                        if m and m not in called:
                            called.append(m)
                            try:
                                getattr(pre, m)(fit_0=fits[0], fit_1=fits[1])
                            except (IndexError, NotImplementedError) as e:
                                setter_errors.append(f"{m}: {type(e).__name__}")
                    for s in changed:  # what no setter refreshed (w_tilde; a slot its setter left alone)
                        cur = getattr(pre, s)
                        if cur is not None and same_value(cur, cur_target.get(s)) and not same_value(cur, tgt.get(s)):
                            setattr(pre, s, owned_copy(s, tgt.get(s)))
                elif how == "inplace":
                    for s in changed:
                        cur, new = getattr(pre, s), tgt.get(s)
                        if isinstance(cur, np.ndarray) and new is not None and cur.shape == np.shape(new):
                            cur[...] = new  # the caller edits its own array in place
                        elif isinstance(cur, dict) and isinstance(new, list) and len(cur) == len(new) and all(
                                cur[i].shape == np.shape(new[i]) for i in range(len(new))):
                            for i in range(len(new)):
                                cur[i][...] = new[i]
                        else:
                            setattr(pre, s, owned_copy(s, new))
                else:
                    for s in changed:
                        setattr(pre, s, owned_copy(s, tgt.get(s), ro))
            cur_target = tgt
            vals = {s: getattr(pre, s) for s in ALL_SLOTS if getattr(pre, s, None) is not None}
            fp0 = {s: fingerprint(s, v) for s, v in vals.items() if s in ARRAY_SLOTS}
            heap, pre_refs = [], {}
            for s in ALL_SLOTS:
                if s not in vals:
                    continue
                if s == "log_det_regularization_matrix_term":
                    pre_refs[s] = fbits(vals[s])
                else:
                    pre_refs[s] = len(heap)
                    heap.append(slot_cell(s, vals[s]))
            fault = None
            if ph.get("fault"):  # after the fingerprints: a failed operation must not touch the preloads either
                fault = self._fault(aa, ph["fault"], case, wd, st, pre, vals, eff_w, wcs[x]["dim"])
            steps, classes, decoys = [], [], []
            for accs in ph["history"]:
                try:
                    inv = make_inversion(aa, wd, case, st, preloads=pre)
                    classes.append(type(inv).__name__)
                    if ph.get("decoy"):
                        decoys = self._decoy_reads(aa, ph["decoy"], inv, pre, wd, case, other_st)
                    out = [read(inv, a) for a in accs]
                except exc.InversionException:
                    out = "inversion_exception"
                changed_fp = sorted(s for s in fp0 if fingerprint(s, vals[s]) != fp0[s])
                steps.append({"out": out, "changed": changed_fp})
            phases_obs.append({
                "w": x, "filled": sorted(vals), "pre_use_w": pre.use_w_tilde, "classes": sorted(set(classes)),
                "steps": steps, "setter_errors": setter_errors, "fault": fault, "decoys": decoys,
                "base": refs[x]["base"],
                "_model": {"heap": heap, "preloads": pre_refs, "coarse": refs[x]["coarse"],
                           "tables": self._merged_tables({eff_w: refs[x]})},
            })
        return {"kind": "reuse", "eff_w": eff_w, "pre_use_w": None, "phases": phases_obs,
                "filled": sorted({s for p in phases_obs for s in p["filled"]}),
                "steps": [s for p in phases_obs for s in p["steps"]]}

    def _phase_case(self, case, ph, x):
        spec = case["world"] if x == "a" else apply_edit(case["world"], case["edit"])
        return {**case, "world": spec, "history": ph["history"]}

    def _oracle_reuse(self, case, obs):
        eff_w = obs["eff_w"]
        key = "w" if eff_w else "m"
        want_cls = "InversionImagingWTilde" if eff_w else "InversionImagingMapping"
        for k, (ph, po) in enumerate(zip(case["phases"], obs["phases"])):
            where = (f"reuse history, phase {k + 1}/{len(case['phases'])} (world {po['w'].upper()}, "
                     f"change={case['edit']['kind']}, refresh={case['refresh']}, objects={case['objs_mode']}"
                     f"{', Preloads/settings copied' if case.get('derive') else ''}"
                     f"{', decoy reads first' if ph.get('decoy') else ''}"
                     f"{', after a failed operation (' + ph['fault'] + ')' if ph.get('fault') else ''}): ")
            if po["classes"] and po["classes"] != [want_cls]:
                return False, where + f"factory built {po['classes']}, expected {want_cls}"
            pc = self._phase_case(case, ph, po["w"])
            exact = self._exact(pc, po)
            ok, detail = self._oracle_steps(pc, po, po["base"], exact, key,
                                            (not pos_eff(case)) and self._well_conditioned(po["base"]))
            if not ok:
                return False, where + "every filled slot holds the value computed from this phase's identical " \
                                      "dataset and linear objects, yet " + detail
        return True, ""

    # ================================================================== round 4: large worlds
    LARGE_DIMS = ["pixels", "sub", "frame", "params", "kernel", "objs"]
    LARGE_CASE_S = 16.0   # estimated pure-Python seconds a single large case may cost
    LARGE_TOTAL_S = 55.0  # … and all of them together
    W_TILDE_MAX_S = 7.0   # the other formalism is run too while its tables are affordable
    LARGE_W_CASE_S = 45.0  # one w-tilde-only case per constant at the size c + c//3 + 1, run last

    @staticmethod
    def _factor(n, lo=3):
        """(a, b), a != b, a * b == n, both >= lo, as close to 2:3 as possible; None when there is none"""
        best = None
        for a in range(lo, int(n ** 0.5) + 1):
            if n % a == 0 and n // a != a and n // a >= lo:
                b = n // a
                score = abs(a / b - 2 / 3)
                if best is None or score < best[0]:
                    best = (score, a, b)
        return None if best is None else (best[1], best[2])

    def _large_case(self, dim, size, c, rng):
        """a case whose `dim` size is `size` (all other sizes modest), with its estimated cost; None = infeasible"""
        if size < 1:
            return None
        seed = rng.randrange(1 << 30)
        kh, kw = rng.choice([(3, 5), (5, 3), (3, 3)])
        signed = rng.random() < 0.6
        n, H, W, block = None, None, None, None
        objs = [{"kind": "mapper", "shape": list(rng.choice([(3, 4), (4, 3), (4, 5)])), "sub": 1, "reg": "1"}]
        extra = rng.choice([[], [{"kind": "func", "p": 2, "seed": seed + 1, "signed": True, "reg": None,
                                  "override": rng.random() < 0.5}]])
        mesh_lo = 3
        if dim == "pixels":
            n = size
            objs += extra
        elif dim == "sub":
            sub = rng.choice([2, 3])
            n = max(6, -(-size // (sub * sub)))  # n * sub^2 >= size > (n-1) * sub^2
            objs[0]["sub"] = sub
        elif dim == "frame":
            n = 60
            f = self._factor(size, lo=16)
            if f is None:
                W = rng.choice([17, 19, 23])
                H = size // W
                if H < 16:
                    return None
                # H*W < size: the largest non-square frame not above the size; one more row would pass it
            else:
                H, W = f if rng.random() < 0.5 else (f[1], f[0])
            objs += extra
        elif dim == "params":
            # a non-square mesh a x b (both >= 3) plus, where size has no such factorisation, up to three
            # func-list columns: mesh pixels + columns = size parameters exactly
            best = None
            k_func = rng.choice([0, 2])  # with / without a func list next to the mesh
            for a in range(3, int(size ** 0.5) + 2):
                b = (size - k_func) // a
                rem = size - k_func - a * b
                if b >= 3 and b != a and rem <= 3:
                    score = (rem > 0, abs(min(a, b) / max(a, b) - 2 / 3))
                    if best is None or score < best[0]:
                        best = (score, a, b, rem)
            if best is None:
                return None
            _, a, b, rem = best
            objs = [{"kind": "mapper", "shape": [a, b] if rng.random() < 0.5 else [b, a], "sub": 1, "reg": "1"}]
            if rem + k_func:
                objs.append({"kind": "func", "p": rem + k_func, "seed": seed + 1, "signed": True, "reg": None,
                             "override": False})
            n = max(150, min(600, size // 3))
        elif dim == "kernel":
            cands = [(a, b) for a in range(1, 40, 2) for b in range(1, 40, 2) if a * b == size and a != b]
            if not cands:
                cands = [(a, b) for a in range(3, 40, 2) for b in range(3, 40, 2)
                         if a != b and a * b <= size and (a + 2) * b > size and abs(a - b) <= 6]
                if not cands:
                    return None
            kh, kw = rng.choice(cands)
            n = 90
            objs += extra
        elif dim == "objs":
            if size < 2 or size > 96:
                return None
            n = 80
            objs = [{"kind": "mapper", "shape": [3, 3], "sub": 1, "reg": "1"}] + [
                {"kind": "func", "p": 1, "seed": seed + 1 + k, "signed": k % 2 == 0,
                 "reg": None, "override": k % 3 == 0} for k in range(size - 1)]
        if len(objs) > 1 and rng.random() < 0.5:
            objs = objs[1:] + objs[:1]  # func lists BEFORE the mapper: blocks land in the other triangle
        my, mx = max(kh // 2, 1), max(kw // 2, 1)
        if block is None:
            if H is None:
                # a non-square block hugging the top-left margin exactly (footprints touch the frame edge)
                need = n * 11 // 10 + 12  # room for the hole pattern
                bw = rng.choice([29, 37, 41, 53]) if n > 400 else rng.choice([7, 9, 11])
                bh = -(-need // bw)
                H, W = bh + 2 * my + rng.choice([0, 1, 3]), bw + 2 * mx + rng.choice([0, 2, 5])
            else:
                bw = min(W - 2 * mx, 13)
                bh = -(-(n * 11 // 10 + 12) // bw)
                if bh > H - 2 * my or bw < 3:
                    return None
            block = [my, mx, bh, bw]
        P = sum(o["shape"][0] * o["shape"][1] if o["kind"] == "mapper" else o["p"] for o in objs)
        sub_total = n * max(o.get("sub", 1) for o in objs) ** 2
        # without numba the w-tilde tables cost ~1.3e-6 s per PAIR of unmasked pixels (+ the kernel overlaps)
        cost_w = n * n * 1.3e-6 + n * (2 * kh - 1) * (2 * kw - 1) * kh * kw * 2.0e-6 + n * P * 4.0e-6
        forms = [False] + ([True] if cost_w <= self.W_TILDE_MAX_S and P <= 700 else [])
        cost = (0.4 + n * 6.0e-4 + H * W * 2.0e-5 + sub_total * 3.0e-5 + n * P * 3.0e-6 * (kh * kw / 9.0)
                + (P / 1000.0) ** 3 * 6.0 + len(objs) * 0.02)
        if True in forms:
            cost += cost_w
        slots = rng.choice([list(CORE), ["curvature_matrix", "regularization_matrix"],
                            ["operated_mapping_matrix", "curvature_matrix"],
                            ["regularization_matrix", "log_det_regularization_matrix_term", "w_tilde"]])
        return {"tag": f"large_{dim}", "kind": "large", "dim": dim, "size": size, "hint": c,
                "spec": {"h": H, "w": W, "block": block, "n": n, "holes": True,
                         "pixel_scales": rng.choice([[1.0, 0.5], [0.25, 0.75], [2.0, 2.0]]),
                         "psf": {"kh": kh, "kw": kw, "signed": signed}, "seed": seed, "objs": objs},
                "forms": forms, "settings_w": False, "pos": False, "diag_value": "1/100", "pre_use_w": None,
                "slots": slots, "source": "same", "wt_kind": "dataset",
                "history": [list(ACCESSES), ["curvature_reg_matrix", "reconstruction", "curvature_matrix",
                                             "data_vector", "mapped_reconstructed_data",
                                             "log_det_curvature_reg_matrix_term"]],
                "_cost": cost}

    def generate_large(self, hints, rng):
        """for every new integer constant c of the anchored source: worlds whose size in EVERY dimension the
        inversions loop over — unmasked pixels (rows of the mapping matrix), total sub-pixels, frame pixels H·W
        (non-square), total parameters (mesh pixels + func-list columns), kernel pixels, number of linear
        objects — is c + c//3 + 1 (a non-multiple above), 2c + 1, c + 1, c, c − 1; sizes above c first, cheap
        before expensive, within an estimated budget of pure-Python time.  No model comparison: the oracle
        states the normal equations directly with numpy (see _run_large)."""
        plans = []
        for c in sorted(set(int(x) for x in hints)):
            for pr, size in ((0, c + c // 3 + 1), (1, 2 * c + 1), (2, c + 1), (3, c), (3, c - 1)):
                for dim in self.LARGE_DIMS:
                    case = self._large_case(dim, size, c, rng)
                    if case is not None and case["_cost"] <= self.LARGE_CASE_S:
                        plans.append((pr, case["_cost"], len(plans), case))
        plans.sort(key=lambda t: t[:3])
        total = 0.0
        last = []
        for pr, cost, _k, case in plans:
            if total + cost > self.LARGE_TOTAL_S:
                continue
            total += cost
            yield {k: v for k, v in case.items() if k != "_cost"}
            if pr == 0 and case["dim"] == "pixels" and True not in case["forms"]:
                # the w-tilde formalism ALONE at the non-multiple size above c: its tables cost n^2 without
                # numba, so it runs last and only while it is affordable at all
                n = case["spec"]["n"]
                if n * n * 1.3e-6 <= self.LARGE_W_CASE_S:
                    last.append({**{k: v for k, v in case.items() if k != "_cost"}, "tag": "large_pixels_w_tilde",
                                 "forms": [True], "history": case["history"][1:]})
        yield from last

    def _run_large(self, aa, case):
        from autoarray import exc

        L = LargeWorld(aa, case["spec"])
        diag = _frac(case["diag_value"])
        A, D, F = L.reference(diag)
        P = L.P
        keep = [i for i in range(P) if i not in set(L.no_reg_idx)]
        has_reg = any(L.regs)
        obs = {"kind": "large", "n": L.n, "frame": [case["spec"]["h"], case["spec"]["w"]], "params": P,
               "sub_pixels": L.n * max(o.get("sub", 1) for o in case["spec"]["objs"]) ** 2,
               "kernel": [case["spec"]["psf"]["kh"], case["spec"]["psf"]["kw"]], "objs": len(L.objs),
               "forms": {}, "filled": [], "eff_w": False, "pre_use_w": None}

        def inf(a):
            a = np.asarray(a, dtype=np.float64)
            return float(np.max(np.abs(a))) if a.size else 0.0

        for w_form in case["forms"]:
            fo = {"checks": [], "steps": [], "classes": []}
            obs["forms"]["w" if w_form else "m"] = fo
            st = settings_of(aa, w_form, case)
            try:
                inv = aa.Inversion(dataset=L.ds, linear_obj_list=L.objs, settings=st)
                fo["classes"].append(type(inv).__name__)
                v = {a: np.array(getattr(inv, a), dtype=np.float64, copy=True) for a in ACCESSES}
            except exc.InversionException:
                fo["err"] = "inversion_exception"
                continue

            def chk(name, err, scale, tol=1e-9):
                fo["checks"].append([name, float(err), float(tol * max(1.0, scale))])

            Hm = v["regularization_matrix"].reshape(P, P) if v["regularization_matrix"].size == P * P \
                else np.zeros((P, P))
            s = v["reconstruction"]
            FH = F + Hm if has_reg else F
            chk("operated_mapping_matrix = true convolution of the mapping matrices",
                inf(v["operated_mapping_matrix"] - A), inf(A))
            chk("data_vector = A^T (d / sigma^2)", inf(v["data_vector"] - D), inf(D))
            chk("curvature_matrix = A^T diag(sigma^-2) A (+ diagonal term)", inf(v["curvature_matrix"] - F), inf(F))
            chk("curvature_reg_matrix = F + H", inf(v["curvature_reg_matrix"] - FH), inf(FH))
            rowsum = float(np.max(np.sum(np.abs(FH), axis=1)))
            chk("reconstruction solves (F + H) s = D (backward error)", inf(FH @ s - D),
                rowsum * inf(s) + inf(D))
            chk("mapped_reconstructed_data = A s", inf(v["mapped_reconstructed_data"] - A @ s),
                float(np.max(np.sum(np.abs(A), axis=1))) * inf(s))
            if has_reg:
                Hr, sr = Hm[np.ix_(keep, keep)], s[keep]
                chk("regularization_term = s^T H s", abs(float(v["regularization_term"]) - float(sr @ Hr @ sr)),
                    float(np.abs(sr) @ np.abs(Hr) @ np.abs(sr)))
                if len(keep) <= 400:
                    FHr = FH[np.ix_(keep, keep)]
                    ev = np.linalg.eigvalsh((FHr + FHr.T) / 2.0)
                    if ev[0] > 0 and ev[-1] / ev[0] < 1.0e4:
                        ld = float(np.sum(np.log(ev)))
                        chk("log_det_curvature_reg_matrix_term = log det (F + H)",
                            abs(float(v["log_det_curvature_reg_matrix_term"]) - ld), abs(ld))
            # preload transparency at this size: slots taken from the fresh reads, shared by successive inversions
            vals = {}
            for sname in case["slots"]:
                if sname == "w_tilde":
                    if w_form:
                        vals[sname] = L.ds.w_tilde
                elif sname == "log_det_regularization_matrix_term":
                    vals[sname] = float(v[sname])
                elif sname == "operated_mapping_matrix":
                    vals[sname] = np.array(inv.operated_mapping_matrix, copy=True)
                elif sname in ("curvature_matrix", "regularization_matrix"):
                    vals[sname] = v[sname].reshape(P, P).copy()
            pre = aa.Preloads(**vals)
            fo["filled"] = sorted(vals)
            obs["filled"] = sorted(set(obs["filled"]) | set(vals))
            fp0 = {sn: fingerprint(sn, x) for sn, x in vals.items() if sn in ARRAY_SLOTS}
            for accs in case["history"]:
                step = {"mismatch": [], "changed": []}
                try:
                    inv2 = aa.Inversion(dataset=L.ds, linear_obj_list=L.objs, settings=st, preloads=pre)
                    for a in accs:
                        got = np.array(getattr(inv2, a), dtype=np.float64, copy=True)
                        if got.shape != v[a].shape or got.tobytes() != v[a].tobytes():
                            dlt = inf(got - v[a]) if got.shape == v[a].shape else float("inf")
                            step["mismatch"].append([a, dlt])
                except exc.InversionException:
                    step["mismatch"].append(["inversion_exception", float("inf")])
                step["changed"] = sorted(sn for sn in fp0 if fingerprint(sn, vals[sn]) != fp0[sn])
                fo["steps"].append(step)
        return obs

    def _oracle_large(self, case, obs):
        around = f" around the new constant {case['hint']}" if case.get("hint") != case.get("size") else ""
        where = (f"world with {case['dim']} = {case['size']}{around} ("
                 f"{obs['n']} unmasked pixels, frame {obs['frame']}, {obs['params']} parameters, "
                 f"{obs['sub_pixels']} sub-pixels, kernel {obs['kernel']}, {obs['objs']} linear objects), judged by the "
                 f"direct numpy statement of the normal equations: ")
        forms = obs["forms"]
        if len(forms) == 2 and ("err" in forms["m"]) != ("err" in forms["w"]):
            return False, where + "(c) one formalism raises InversionException, the other returns values"
        for key, fo in forms.items():
            name = "w-tilde" if key == "w" else "mapping"
            want = "InversionImagingWTilde" if key == "w" else "InversionImagingMapping"
            if fo["classes"] and fo["classes"] != [want]:
                return False, where + f"factory built {fo['classes']}, expected {want}"
            if "err" in fo:
                continue
            for nm, err, tol in fo["checks"]:
                if not err <= tol:
                    return False, where + (f"(c) {name} formalism: {nm} violated, |Δ|={err:.3e} > {tol:.3e} — the "
                                           f"value differs from what both formalisms must compute")
            for i, st in enumerate(fo["steps"]):
                if st["changed"]:
                    return False, where + (f"(b) {name} formalism: after inversion {i + 1} the preloaded array(s) "
                                           f"{st['changed']} have different bytes than before")
                if st["mismatch"]:
                    a, dlt = st["mismatch"][0]
                    return False, where + (f"(a) {name} formalism: {a} with preloads {fo.get('filled')} (inversion "
                                           f"{i + 1}) is not bit-identical to the preload-free value (max |Δ|={dlt:.3e})")
        return True, ""

    # ------------------------------------------------------------------ reference runs (no preloads)
    def _reference(self, case, w_form):
        """outputs and Ext samples of the preload-free inversion in formalism `w_form`
        (None when that formalism is not available or the inversion fails)."""
        import json

        key = (json.dumps(case["world"], sort_keys=True), w_form, case["pos"], case.get("diag_value"),
               case.get("p_initial"))
        if key in self._ref_cache:
            return self._ref_cache[key]
        res = self._reference_uncached(case, w_form)
        if len(self._ref_cache) > 64:
            self._ref_cache.clear()
        self._ref_cache[key] = res
        return res

    def _reference_uncached(self, case, w_form):
        aa = load_autoarray()
        from autoarray import exc
        from autoarray.inversion.inversion import inversion_util

        w = case["world"]
        wc = world_cfg(w)
        if w_form and wc["all_func_lists"]:
            return None
        T = Tables()
        dim = wc["dim"]
        mranges = ranges(wc, w, "mapper")
        franges = ranges(wc, w, "func")

        def fresh(preloads=None):
            wd = World(aa, w)
            st = wd.settings(w_form, case)
            kw = {} if preloads is None else {"preloads": preloads(wd)}
            inv = aa.Inversion(dataset=wd.ds, linear_obj_list=wd.objs, settings=st, **kw)
            return wd, inv

        def lf_digest(inv):
            return digest(*[np.asarray(v) for v in inv.linear_func_operated_mapping_matrix_dict.values()])

        def common_rows(inv, lf0):
            """rows every run contributes: what the kernels returned on this run's arrays"""
            out = dict(zip(ACCESSES, read_all(inv, ACCESSES)))
            D, H, FH, s = out["data_vector"], out["regularization_matrix"], out["curvature_reg_matrix"], \
                out["reconstruction"]
            T.add("solve", FH, D, s)
            T.add("mapped_w" if w_form else "mapped_mapping", lf0, s, out["mapped_reconstructed_data"])
            if wc["has_reg"]:
                Hred = bits_of(inv.regularization_matrix_reduced)
                FHred = bits_of(inv.curvature_reg_matrix_reduced)
                sred = bits_of(inv.reconstruction_reduced)
                if not wc["all_reg"]:
                    T.add("reduce", H, Hred)
                    T.add("reduce", FH, FHred)
                    T.add("reduce_vec", s, sred)
                T.add("reg_term", Hred, sred, out["regularization_term"][0])
                T.add("log_det_curv_reg", FHred, out["log_det_curvature_reg_matrix_term"][0])
                T.add("log_det_reg", Hred, out["log_det_regularization_matrix_term"][0])
            return out

        try:
            wd, R0 = fresh()
            if type(R0).__name__ != ("InversionImagingWTilde" if w_form else "InversionImagingMapping"):
                raise RuntimeError(f"reference inversion has class {type(R0).__name__}")
            lf0 = lf_digest(R0)
            base = common_rows(R0, lf0)
        except exc.InversionException:
            return None
        T.const("lf_compute", lf0)
        T.const("reg_compute", base["regularization_matrix"])
        omm0 = base["operated_mapping_matrix"]
        T.const("omm_plain", omm0)
        T.add("omm_of_lf", lf0, omm0)
        coarse = None
        # slot values as a fresh inversion yields them (the Preloads owns copies)
        wd_s, src = fresh()
        slots = {
            "curvature_matrix": np.array(src.curvature_matrix, copy=True),
            "regularization_matrix": np.array(src.regularization_matrix, copy=True),
            "log_det_regularization_matrix_term": float(src.log_det_regularization_matrix_term),
            "operated_mapping_matrix": np.array(src.operated_mapping_matrix, copy=True),
        }
        try:
            wd_p, priv = fresh()
            slots["linear_func_operated_mapping_matrix_dict"] = [
                np.array(v, copy=True) for v in priv.linear_func_operated_mapping_matrix_dict.values()]
            slots["data_linear_func_matrix_dict"] = [
                np.array(v, copy=True) for v in priv.data_linear_func_matrix_dict.values()]
            slots["mapper_operated_mapping_matrix_dict"] = [
                np.array(v, copy=True) for v in priv.mapper_operated_mapping_matrix_dict.values()]
            dvm = fresh()[1]._data_vector_mapper
            slots["data_vector_mapper"] = None if dvm is None else np.array(dvm, copy=True)
            if w_form or not wc["no_reg_idx"]:
                cmd = fresh()[1]._curvature_matrix_mapper_diag
                slots["curvature_matrix_mapper_diag"] = None if cmd is None else np.array(cmd, copy=True)
            else:
                # mapping formalism with an unregularized object: the helper itself is not usable
                # (IndexError / misplaced diagonal addition) and the slot is never consulted there — left empty
                slots["curvature_matrix_mapper_diag"] = None
        except (AttributeError, NotImplementedError) as e:
            coarse = f"private accessor unavailable: {e}"
        dlf0 = digest(*slots.get("data_linear_func_matrix_dict", []))
        momd0 = digest(*slots.get("mapper_operated_mapping_matrix_dict", []))
        T.add("dlf_of_lf", lf0, dlf0)
        T.const("momd_compute", momd0)

        if not w_form:
            Fraw = inversion_util.curvature_matrix_via_mapping_matrix_from(
                mapping_matrix=np.array(src.operated_mapping_matrix), noise_map=np.array(wd_s.ds.noise_map))
            T.add("curv_of_omm", omm0, bits_of(Fraw))
            T.add("dv_of_omm", omm0, base["data_vector"])
        elif coarse is None:
            wt = wd.ds.w_tilde
            wt0 = digest(*wt_arrays(wt))
            T.const("wt_compute", wt0)
            T.add("wt_check", wt0, True)
            T.const("dv_w", bits_of(slots["data_vector_mapper"]))
            T.add("diag_of_wt", wt0, bits_of(slots["curvature_matrix_mapper_diag"]))
            Dv = floats_of(base["data_vector"])
            T.add("dv_func_entries", lf0, [[i, fbits(Dv[i])] for (a, b) in franges for i in range(a, b)])
            try:
                if wc["n_mappers"] > 1:
                    M = np.array(fresh()[1]._curvature_matrix_multi_mapper)
                    offw = []
                    for i, ri in enumerate(mranges):
                        for rj in mranges[i + 1:]:
                            offw += writes_of(M, dim, [ri], [rj])
                    T.add("off_diag_writes", wt0, offw)
                variants = [("default", None)]
                if wc["has_func_list"]:
                    variants += [
                        ("dlf", lambda wdx: aa.Preloads(data_linear_func_matrix_dict=dict(
                            enumerate(np.array(v, copy=True) for v in slots["data_linear_func_matrix_dict"])))),
                        ("momd", lambda wdx: aa.Preloads(mapper_operated_mapping_matrix_dict=dict(
                            enumerate(np.array(v, copy=True) for v in slots["mapper_operated_mapping_matrix_dict"])))),
                    ]
                for vname, pre in variants:
                    wdv, Rv = fresh(pre)
                    if wc["has_func_list"]:
                        P = np.array(Rv._curvature_matrix_func_list_and_mapper)
                        offw = writes_of(P, dim, mranges, franges)
                        if vname == "default":
                            T.add("func_off_default", lf0, offw)
                            T.add("func_diag_writes", lf0, writes_of(P, dim, franges, franges))
                        elif vname == "dlf":
                            T.add("func_off_via_dlf", dlf0, offw)
                        else:
                            T.add("func_off_via_momd", momd0, lf0, offw)
                    elif wc["n_mappers"] == 1:
                        P = np.array(Rv._curvature_matrix_mapper_diag)
                    else:
                        P = np.array(Rv._curvature_matrix_multi_mapper)
                    T.add("mirror", bits_of(P),
                          bits_of(inversion_util.curvature_matrix_mirrored_from(curvature_matrix=np.array(P))))
                    if vname != "default":
                        wdv2, Rv2 = fresh(pre)
                        common_rows(Rv2, lf0)
            except (AttributeError, NotImplementedError) as e:
                coarse = f"private accessor unavailable: {e}"
            except exc.InversionException:
                coarse = "alternative-route reference inversion failed"
        return {"base": base, "tables": T.t, "slots": slots, "coarse": coarse}

    # ------------------------------------------------------------------ implementation
    def _make_preloads(self, aa, case, wd, refs, eff_w):
        """the Preloads object of the case + the python values by slot name"""
        from autoarray.dataset.imaging.w_tilde import WTildeImaging
        from autoarray.inversion.inversion.imaging import inversion_imaging_util

        if case.get("via") == "setters":
            return self._preloads_via_setters(aa, case)
        vals = {}
        ref_same = refs[eff_w]
        for s in case["slots"]:
            if s == "w_tilde":
                if case["wt_kind"] == "dataset":
                    vals[s] = wd.ds.w_tilde
                else:
                    noise_native = np.array(wd.ds.noise_map.native)
                    if case["wt_kind"] == "foreign":
                        noise_native = noise_native * 2.0
                    cp, ix, ln = inversion_imaging_util.w_tilde_curvature_preload_imaging_from(
                        noise_map_native=noise_native, kernel_native=np.array(wd.ds.psf.native),
                        native_index_for_slim_index=np.array(wd.ds.mask.derive_indexes.native_for_slim))
                    nv = wd.ds.noise_map[0] * (2.0 if case["wt_kind"] == "foreign" else 1.0)
                    vals[s] = WTildeImaging(curvature_preload=cp, indexes=ix.astype("int"),
                                            lengths=ln.astype("int"), noise_map_value=nv)
                continue
            src = ref_same
            if case["source"] == "other" and s == "curvature_matrix" and refs.get(not eff_w):
                src = refs[not eff_w]
            v = src["slots"].get(s)
            if v is None:
                continue
            if isinstance(v, list):
                # dict slots: keyed by foreign objects, re-keyed by position in the inversion
                vals[s] = {i: np.array(a, copy=True) for i, a in enumerate(v)}
            elif isinstance(v, float):
                vals[s] = v
            else:
                vals[s] = np.array(v, copy=True)
        kwargs = dict(vals)
        if case["pre_use_w"] is not None:
            kwargs["use_w_tilde"] = case["pre_use_w"]
        return aa.Preloads(**kwargs), vals, []

    def _preloads_via_setters(self, aa, case):
        """Preloads filled by its own set_* methods from two fits of two separately built, equal
        worlds whose inversions have been evaluated completely beforehand (the normal order of use)."""
        fits = []
        for _ in range(2):
            wd = World(aa, case["world"])
            inv = aa.Inversion(dataset=wd.ds, linear_obj_list=wd.objs,
                               settings=wd.settings(case["settings_w"], case))
            read_all(inv, ACCESSES)
            fits.append(aa.m.MockFitImaging(dataset=wd.ds, noise_map=wd.ds.noise_map, inversion=inv))
        pre = aa.Preloads()
        errors = []
        for m in case["setters"]:
            try:
                getattr(pre, m)(fit_0=fits[0], fit_1=fits[1])
            except (IndexError, NotImplementedError) as e:
                # preloads.set_curvature_matrix probes mapping.py `_curvature_matrix_mapper_diag`, which
                # raises IndexError for mapper + unregularized func list (outside this property: nothing
                # is preloaded then); recorded, not judged
                errors.append(f"{m}: {type(e).__name__}")
        vals = {s: getattr(pre, s) for s in ALL_SLOTS if getattr(pre, s, None) is not None}
        self._keep_alive = fits
        return pre, vals, errors

    def run_impl(self, case):
        aa = load_autoarray()
        from autoarray import exc

        if case.get("kind") == "relocated_grid":
            return self._run_relocated(aa, case)
        if case.get("kind") == "large":
            return self._run_large(aa, case)
        if case.get("kind") == "reuse":
            return self._run_reuse(aa, case)
        w = case["world"]
        wc = world_cfg(w)
        refs = {False: self._reference(case, False)}
        refs[True] = self._reference(case, True) if not wc["all_func_lists"] else None
        base = {("w" if k else "m"): (v["base"] if v else None) for k, v in refs.items()}
        if refs[False] is None and refs[True] is None:
            raise Skip("preload-free reference inversions raise InversionException")
        wd = World(aa, w)
        # which formalism the factory should pick is only known once the Preloads object exists
        # (its setters may set use_w_tilde); slot values come from the formalism that will run
        pre_use_w = case["pre_use_w"]
        if case.get("via") == "setters":
            pre, vals, setter_errors = self._make_preloads(aa, case, wd, refs, None)
            pre_use_w = pre.use_w_tilde
            eff_w = factory_choice(wc, case["settings_w"], pre_use_w)
        else:
            eff_w = factory_choice(wc, case["settings_w"], pre_use_w)
            if refs[eff_w] is None:
                return {"eff_w": eff_w, "pre_use_w": pre_use_w, "classes": [], "filled": [],
                        "steps": [], "base": base, "setter_errors": [], "_model": None}
            pre, vals, setter_errors = self._make_preloads(aa, case, wd, refs, eff_w)
        if refs[eff_w] is None:
            return {"eff_w": eff_w, "pre_use_w": pre_use_w, "classes": [], "filled": sorted(vals),
                    "steps": [], "base": base, "setter_errors": setter_errors, "_model": None}
        st = wd.settings(case["settings_w"], case)
        fp0 = {s: fingerprint(s, v) for s, v in vals.items() if s in ARRAY_SLOTS}
        heap, pre_refs = [], {}
        for s in ALL_SLOTS:
            if s not in vals:
                continue
            if s == "log_det_regularization_matrix_term":
                pre_refs[s] = fbits(vals[s])
            else:
                pre_refs[s] = len(heap)
                heap.append(slot_cell(s, vals[s]))
        steps = []
        classes = []
        for accs in case["history"]:
            try:
                inv = make_inversion(aa, wd, case, st, preloads=pre)
                classes.append(type(inv).__name__)
                out = [read(inv, a) for a in accs]
            except exc.InversionException:
                out = "inversion_exception"
            changed = sorted(s for s in fp0 if fingerprint(s, vals[s]) != fp0[s])
            steps.append({"out": out, "changed": changed})
        return {
            "eff_w": eff_w,
            "pre_use_w": pre_use_w,
            "classes": sorted(set(classes)),
            "filled": sorted(vals),
            "setter_errors": setter_errors,
            "steps": steps,
            "base": base,
            "_model": {"heap": heap, "preloads": pre_refs, "coarse": refs[eff_w]["coarse"],
                       "tables": self._merged_tables(refs)},
        }

    # -- Preloads.relocated_grid: consulted by Mesh.relocated_grid_from while the mapper is built ------
    def _run_relocated(self, aa, case):
        from autoarray import exc

        w = case["world"]

        def build(preloads_for=None):
            """world whose FIRST mapper is built through a border relocator on a distorted source grid"""
            wd = World(aa, w)
            o = w["objs"][0]
            ovs = aa.OverSamplerUniform(mask=wd.mask, sub_size=o.get("sub", 1))
            g = np.array(ovs.over_sampled_grid, copy=True)
            for idx, f in case["distort"]:
                g[idx % len(g)] = g[idx % len(g)] * _frac(f) + 0.25
            grid = aa.Grid2DIrregular(values=g)
            br = aa.BorderRelocator(mask=wd.mask, sub_size=o.get("sub", 1))
            relocated = br.relocated_grid_from(grid=grid)
            kw = {}
            pre = None
            if preloads_for is not None:
                pre = preloads_for(relocated)
                kw["preloads"] = pre
            mesh = aa.mesh.Rectangular(shape=tuple(o["shape"]))
            mg = mesh.mapper_grids_from(mask=wd.mask, border_relocator=br,
                                        source_plane_data_grid=grid, **kw)
            wd.objs[0] = aa.Mapper(mapper_grids=mg, over_sampler=ovs,
                                   regularization=aa.reg.Constant(coefficient=_frac(o["reg"])))
            return wd, relocated, mesh, br, grid, ovs

        st_of = lambda wd: wd.settings(case["settings_w"], case)
        try:
            wd0, rel0, *_ = build()
            base = dict(zip(ACCESSES, read_all(
                aa.Inversion(dataset=wd0.ds, linear_obj_list=wd0.objs, settings=st_of(wd0)), ACCESSES)))
        except exc.InversionException:
            raise Skip("preload-free reference inversion raises InversionException")
        moved = bool(np.any(np.array(rel0) != np.array(build()[4])))
        holder = {}

        def mk(relocated):
            holder["arr"] = aa.Grid2DIrregular(values=np.array(relocated, copy=True))
            holder["pre"] = aa.Preloads(relocated_grid=holder["arr"])
            return holder["pre"]

        wd, _, mesh, br, grid, ovs = build(mk)
        fp0 = hashlib.sha1(np.ascontiguousarray(np.array(holder["arr"])).tobytes()).hexdigest()
        steps = []
        o = w["objs"][0]
        for accs in case["history"]:
            # the shared Preloads object is used again for every mapper construction + inversion
            mg = mesh.mapper_grids_from(mask=wd.mask, border_relocator=br, source_plane_data_grid=grid,
                                        preloads=holder["pre"])
            wd.objs[0] = aa.Mapper(mapper_grids=mg, over_sampler=ovs,
                                   regularization=aa.reg.Constant(coefficient=_frac(o["reg"])))
            try:
                inv = aa.Inversion(dataset=wd.ds, linear_obj_list=wd.objs, settings=st_of(wd))
                out = [read(inv, a) for a in accs]
            except exc.InversionException:
                out = "inversion_exception"
            fp = hashlib.sha1(np.ascontiguousarray(np.array(holder["arr"])).tobytes()).hexdigest()
            steps.append({"out": out, "changed": ["relocated_grid"] if fp != fp0 else []})
        return {"kind": "relocated_grid", "filled": ["relocated_grid"], "moved": moved, "steps": steps,
                "base": base}

    @staticmethod
    def _merged_tables(refs):
        out = {}
        for r in refs.values():
            if not r:
                continue
            for k, v in r["tables"].items():
                if isinstance(v, list) and v and isinstance(v[0], list) and k not in (
                        "lf_compute", "reg_compute", "omm_plain", "momd_compute", "wt_compute", "dv_w"):
                    rows = out.setdefault(k, [])
                    for row in v:
                        if row not in rows:
                            rows.append(row)
                else:
                    out.setdefault(k, v)
        return out

    # ------------------------------------------------------------------ model
    def model_requests(self, case, obs):
        if "err" in obs:
            raise Skip("implementation error observation")
        if obs.get("kind") == "relocated_grid":
            return []  # mapper-level preload: outside Model.Preload, judged by the oracle only
        if obs.get("kind") == "large":
            return []  # sizes the driver is not meant for: the oracle alone judges (normal equations, numpy)
        if obs.get("kind") == "reuse":
            # one request per phase: the model predicts every read of the phase for a FRESH machine whose heap
            # holds the Preloads' arrays as they are at the start of the phase, in that phase's world
            reqs = []
            for ph, po in zip(case["phases"], obs["phases"]):
                if po["_model"]["coarse"]:
                    raise Skip(po["_model"]["coarse"])
                reqs.append(self._history_request(self._phase_case(case, ph, po["w"]), po, po["_model"]))
            return reqs
        mdl = obs["_model"]
        if mdl is None:
            return []
        if mdl["coarse"]:
            raise Skip(mdl["coarse"])
        return [self._history_request(case, obs, mdl)]

    def _history_request(self, case, obs, mdl):
        wc = world_cfg(case["world"])
        cfg = {k: v for k, v in wc.items() if not k.startswith("_")}
        cfg["settings_use_w_tilde"] = case["settings_w"]
        aa = load_autoarray()
        st = settings_of(aa, case["settings_w"], case)
        cfg["diag_value"] = fbits(st.no_regularization_add_to_curvature_diag_value)
        pre = dict(mdl["preloads"])
        if obs["pre_use_w"] is not None:
            pre["use_w_tilde"] = bool(obs["pre_use_w"])
        ext = dict(mdl["tables"])
        if case["wt_kind"] == "foreign" and "w_tilde" in mdl["preloads"]:
            ext["wt_check"] = list(ext.get("wt_check", [])) + [[mdl["heap"][mdl["preloads"]["w_tilde"]], False]]
        return {"op": "c15.history", "cfg": cfg, "policy": POLICY, "ext": ext, "heap": mdl["heap"],
                "preloads": pre, "history": case["history"]}

    def model_obs(self, case, responses):
        if case.get("kind") == "reuse":
            return {"phases": [({"err": r["err"]} if "err" in r else r["ok"]) for r in responses]}
        r = responses[0]
        if "err" in r:
            return {"err": r["err"]}
        return r["ok"]

    def compare(self, case, obs, mobs, cmp):
        if obs.get("kind") == "reuse":
            for k, (ph, po, mo) in enumerate(zip(case["phases"], obs["phases"], mobs["phases"])):
                d = self._compare_one(self._phase_case(case, ph, po["w"]), {**po, "eff_w": obs["eff_w"]}, mo, cmp)
                if d:
                    return f"reuse history phase {k + 1} (world {po['w'].upper()}): {d}"
            return None
        return self._compare_one(case, obs, mobs, cmp)

    def _compare_one(self, case, obs, mobs, cmp):
        if obs.get("_model") is None:
            return None
        if "err" in mobs:
            return f"model driver error {mobs['err']}"
        if obs["eff_w"] != mobs["use_w_tilde"]:
            return f"formalism: impl runs {obs['classes']} model use_w_tilde={mobs['use_w_tilde']}"
        want_cls = "InversionImagingWTilde" if mobs["use_w_tilde"] else "InversionImagingMapping"
        if obs["classes"] and obs["classes"] != [want_cls]:
            return f"formalism: impl classes {obs['classes']} model {want_cls}"
        mdl = obs["_model"]
        names = [s for s in ALL_SLOTS if s in mdl["preloads"] and s != "log_det_regularization_matrix_term"]
        m_changed = sorted(s for s in names
                           if mobs["heap_after"][mdl["preloads"][s]] != mdl["heap"][mdl["preloads"][s]])
        last_changed = obs["steps"][-1]["changed"] if obs["steps"] else []
        if last_changed != m_changed:
            return f"preload buffers changed: impl={last_changed} model={m_changed}"
        exact_case = self._exact(case, obs)
        for i, (st, mo) in enumerate(zip(obs["steps"], mobs["outputs"])):
            if isinstance(st["out"], str) or isinstance(mo, str):
                if st["out"] != mo:
                    return f"step {i}: impl={st['out'] if isinstance(st['out'], str) else 'values'} model={mo if isinstance(mo, str) else 'values'}"
                cmp.exact += 1
                continue
            for a, vi, vm in zip(case["history"][i], st["out"], mo):
                if NAN_BITS in vm and NAN_BITS not in vi:
                    if exact_case:
                        return f"step {i} {a}: model has no sample for the kernel arguments reached (Ext table miss)"
                    continue
                if vi != vm:
                    fi, fm = floats_of(vi), floats_of(vm)
                    if len(fi) == len(fm):
                        d = float(np.max(np.abs(fi - fm))) if len(fi) else 0.0
                        return f"step {i} {a}: impl and model differ in bit pattern (max |Δ|={d:.3e})"
                    return f"step {i} {a}: length impl={len(fi)} model={len(fm)}"
                cmp.exact += 1
        return None

    # ------------------------------------------------------------------ oracle
    @staticmethod
    def _exact(case, obs):
        return case["source"] == "same" and not (set(obs["filled"]) & ALT_ROUTE) \
            and case["wt_kind"] != "foreign"

    @staticmethod
    def _close(a, b, rtol=1e-9):
        fa, fb = floats_of(a), floats_of(b)
        if fa.shape != fb.shape:
            return False, float("inf")
        if fa.size == 0:
            return True, 0.0
        scale = max(1.0, float(np.max(np.abs(fb))))
        d = float(np.max(np.abs(fa - fb)))
        return d <= rtol * scale, d

    def _well_conditioned(self, base):
        FH = floats_of(base["curvature_reg_matrix"])
        n = int(round(len(FH) ** 0.5))
        if n * n != len(FH) or n == 0:
            return False
        try:
            return float(np.linalg.cond(FH.reshape(n, n))) < 1e5
        except Exception:
            return False

    def oracle(self, case, obs):
        if "err" in obs:
            return False, f"implementation raised {obs.get('err')}: {obs.get('msg', '')}"
        if obs.get("kind") == "relocated_grid":
            return self._oracle_steps(case, obs, obs["base"], True, "relocated_grid", False)
        if obs.get("kind") == "large":
            return self._oracle_large(case, obs)
        if obs.get("kind") == "reuse":
            return self._oracle_reuse(case, obs)
        wc = world_cfg(case["world"])
        eff_w = factory_choice(wc, case["settings_w"], obs["pre_use_w"])
        key = "w" if eff_w else "m"
        base = obs["base"][key]
        bm, bw = obs["base"]["m"], obs["base"]["w"]
        # (c) first: one formalism refusing inputs the other one inverts is a difference in values
        if not wc["all_func_lists"] and (bm is None) != (bw is None):
            bad = "w-tilde" if bw is None else "mapping"
            return False, (f"(c) the preload-free {bad} inversion raises InversionException while the other "
                           f"formalism returns values for the same inputs")
        want_cls = "InversionImagingWTilde" if eff_w else "InversionImagingMapping"
        if case["wt_kind"] == "foreign" and eff_w and "w_tilde" in obs["filled"]:
            # not "computed from an identical dataset": the property is silent; the guard is expected
            return True, "foreign w_tilde"
        if obs["classes"] and obs["classes"] != [want_cls]:
            return False, f"factory built {obs['classes']}, expected {want_cls}"
        exact = self._exact(case, obs)
        ok, detail = self._oracle_steps(case, obs, base, exact, key,
                                        (not pos_eff(case)) and self._well_conditioned(base))
        if not ok:
            return ok, detail
        # (c) the factory's choice changes no value (to rounding): both preload-free formalisms agree
        if bm is not None and bw is not None:
            solver_ok = (not pos_eff(case)) and self._well_conditioned(bm) and self._well_conditioned(bw)
            for a in ACCESSES:
                if a == "operated_mapping_matrix":
                    continue
                if (a in BEHIND_SOLVER or a in BEHIND_CHOLESKY) and not solver_ok:
                    continue
                ok, d = self._close(bw[a], bm[a])
                if not ok:
                    return False, f"(c) {a} differs between the two formalisms by {d:.3e} (> 1e-9 relative)"
        return True, ""

    def _oracle_steps(self, case, obs, base, exact, key, tolerant_solver_ok):
        first = {}
        for i, st in enumerate(obs["steps"]):
            if st["changed"]:
                return False, (f"(b) after inversion {i + 1} of {len(obs['steps'])} sharing one Preloads the "
                               f"preloaded array(s) {st['changed']} have different bytes than before")
            if isinstance(st["out"], str):
                return False, (f"(a) inversion {i + 1} with preloads {obs['filled']} raised {st['out']}, "
                               f"the preload-free one does not")
            for a, v in zip(case["history"][i], st["out"]):
                b = base[a]
                if exact:
                    if v != b:
                        _, d = self._close(v, b, 0.0)
                        return False, (f"(a) {a} with preloads {obs['filled']} (formalism {key}, inversion {i + 1}) "
                                       f"is not bit-identical to the preload-free value (max |Δ|={d:.3e})")
                else:
                    if (a in BEHIND_SOLVER or a in BEHIND_CHOLESKY) and not tolerant_solver_ok:
                        continue
                    ok, d = self._close(v, b)
                    if not ok:
                        return False, (f"(a) {a} with preloads {obs['filled']} (formalism {key}, inversion {i + 1}) "
                                       f"differs from the preload-free value by {d:.3e} (> 1e-9 relative)")
            # (b) identical outcome every time: same read -> same bits, at every position of the history
            for a, v in zip(case["history"][i], st["out"]):
                if a in first and first[a] != v:
                    return False, f"(b) {a} differs between two reads of the history (inversion {i + 1})"
                first.setdefault(a, v)
        return True, ""

    # ------------------------------------------------------------------ misc
    def nontrivial(self, case, obs):
        if "err" in obs:
            return False
        if obs.get("kind") == "large":
            return any(fo.get("checks") and fo.get("steps") for fo in obs["forms"].values())
        if "err" in obs or len(case["history"]) < 2 or not obs.get("steps"):
            return False
        if obs.get("kind") == "relocated_grid":
            return bool(obs["moved"])
        consulted_w = {"w_tilde", "curvature_matrix", "regularization_matrix",
                       "log_det_regularization_matrix_term", "data_vector_mapper",
                       "curvature_matrix_mapper_diag", "linear_func_operated_mapping_matrix_dict",
                       "data_linear_func_matrix_dict", "mapper_operated_mapping_matrix_dict",
                       "operated_mapping_matrix"}
        consulted_m = consulted_w - {"w_tilde", "curvature_matrix_mapper_diag", "data_linear_func_matrix_dict",
                                     "mapper_operated_mapping_matrix_dict"}
        return bool(set(obs["filled"]) & (consulted_w if obs["eff_w"] else consulted_m))

    def _shrink_reuse(self, case):
        for key in ("readonly", "derive"):
            if case.get(key):
                yield {**case, key: False}
        phs = case["phases"]

        def with_phases(p):
            return {**case, "phases": p, "history": [a for ph in p for a in ph["history"]]}

        for i, ph in enumerate(phs):
            for key in ("fault", "decoy"):
                if ph.get(key):
                    yield with_phases([({k: v for k, v in q.items() if k != key} if j == i else q)
                                       for j, q in enumerate(phs)])
        if len(phs) > 1:
            yield with_phases(phs[:-1])
            yield with_phases(phs[1:])
        for i, ph in enumerate(phs):
            if len(ph["history"]) > 1:
                yield with_phases([({**q, "history": q["history"][:-1]} if j == i else q) for j, q in enumerate(phs)])
            for a_i, accs in enumerate(ph["history"]):
                if len(accs) > 1:
                    for r in range(len(accs)):
                        h = [list(a) for a in ph["history"]]
                        del h[a_i][r]
                        yield with_phases([({**q, "history": h} if j == i else q) for j, q in enumerate(phs)])
        for s in case["slots"]:
            yield {**case, "slots": [x for x in case["slots"] if x != s]}
        if case["objs_mode"] == "same":
            yield {**case, "objs_mode": "rebuild"}
        if case["refresh"] != "assign":
            yield {**case, "refresh": "assign"}
        if case["pos"] is not False:
            yield {**case, "pos": False}
        if case.get("diag_value") is not None:
            yield {**case, "diag_value": None}
        if case.get("entry"):
            yield {**case, "entry": None}

    def shrink(self, case):
        if case.get("kind") == "large":
            # the size is the point; only the preload part can go
            if len(case["forms"]) > 1:
                for f in case["forms"]:
                    yield {**case, "forms": [f]}
            if len(case["history"]) > 1:
                yield {**case, "history": case["history"][:1]}
            for s in case["slots"]:
                yield {**case, "slots": [x for x in case["slots"] if x != s]}
            return
        if case.get("kind") == "reuse":
            yield from self._shrink_reuse(case)
            return
        # fewer slots, shorter history, fewer reads, canonical settings
        for s in case["slots"]:
            if case.get("kind") != "relocated_grid":
                yield {**case, "slots": [x for x in case["slots"] if x != s]}
        for m in case.get("setters", []):
            yield {**case, "setters": [x for x in case["setters"] if x != m]}
        if len(case["history"]) > 1:
            yield {**case, "history": case["history"][:-1]}
            yield {**case, "history": case["history"][1:]}
        for i, accs in enumerate(case["history"]):
            if len(accs) > 1:
                for j in range(len(accs)):
                    h = [list(a) for a in case["history"]]
                    del h[i][j]
                    yield {**case, "history": h}
        if case["pre_use_w"] is not None:
            yield {**case, "pre_use_w": None}
        if case["pos"] is not False:
            yield {**case, "pos": False}
        if case.get("diag_value") is not None:
            yield {**case, "diag_value": None}
        if case.get("entry"):
            yield {**case, "entry": None}
        w = case["world"]
        if w.get("int_inputs") or w.get("container"):
            yield {**case, "world": {**w, "int_inputs": False, "container": None}}
        if len(w["objs"]) > 1:
            for i in range(1 if case.get("kind") == "relocated_grid" else 0, len(w["objs"])):
                objs = [o for k, o in enumerate(w["objs"]) if k != i]
                yield {**case, "world": {**w, "objs": objs}}

    def known_finding(self, case, obs):
        return None

    def theorems_for(self, case):
        t = ["C15.impl_refines_spec", "C15.history_preloads_unchanged_outputs_identical"]
        if case["slots"]:
            t.append("C15.slot_transparency")
        if case["pre_use_w"] is not None:
            t.append("C15.formalism_choice_no_value")
        if case.get("kind") == "reuse":
            t.append("C15.outputs_independent_of_history")
        if case.get("kind") == "large":
            t.append("C15.formalisms_agree_on_all_outputs")
        return t

    def sample_view(self, case):
        if case.get("kind") == "large":
            return dict(case)  # compact by construction: block, seeds and shapes, never the arrays
        w = case["world"]
        v = {k: x for k, x in case.items() if k != "world"}
        v["world"] = w
        return v


CHECK = C15()
