"""C16 — FITS output followed by input reproduces values, orientation and pixel scale.

Routes exercised on the real code (temp directories created at run time under the system temp dir):
  Array2D / Kernel2D / Mask2D / Array1D / Mask1D   hdu_for_output -> from_primary_hdu
                                                   output_to_fits -> from_fits (absolute, relative and
                                                   bare-file-name paths; Mask2D also invert / resized)
  multi-HDU files assembled from hdu_for_output objects -> from_fits(hdu=k)
  Imaging.output_to_fits -> Imaging.from_fits
  histories of output_to_fits calls (existing / absent targets and directories, both overwrite flags)
under both settings of general.fits.flip_for_ds9.
"""
from __future__ import annotations

import atexit
import gc
import os
import shutil
import tempfile
from fractions import Fraction

import numpy as np

import gen
from common import PropertyCheck, Skip, load_autoarray, mask_json, q, qlist

_ROOT = None


def _root():
    global _ROOT
    if _ROOT is None or not os.path.isdir(_ROOT):
        _ROOT = tempfile.mkdtemp(prefix="verif_c16_")
        atexit.register(shutil.rmtree, _ROOT, ignore_errors=True)
    return _ROOT


class _Sandbox:
    """fresh directory, made the working directory; flip flag set; everything restored afterwards."""

    def __init__(self, flip):
        self.flip = bool(flip)

    def __enter__(self):
        from autoconf import conf

        self.conf = conf
        self.old_flip = conf.instance["general"]["fits"]["flip_for_ds9"]
        conf.instance["general"]["fits"]["flip_for_ds9"] = self.flip
        self.cwd = os.getcwd()
        self.dir = tempfile.mkdtemp(prefix="case_", dir=_root())
        os.chdir(self.dir)
        return self

    def __exit__(self, *a):
        os.chdir(self.cwd)
        self.conf.instance["general"]["fits"]["flip_for_ds9"] = self.old_flip
        gc.collect()  # astropy file handles opened by the readers are closed by their finalisers
        shutil.rmtree(self.dir, ignore_errors=True)
        return False

    def path(self, comps, style):
        rel = os.path.join(*comps)
        return os.path.join(self.dir, rel) if style == "abs" else rel


def _f(x):
    return float(Fraction(x))


def _as_form(vals, form):
    """one and the same list of real numbers as different containers / dtypes (round-3 hardening)"""
    f = [float(Fraction(v)) for v in vals]
    if form == "int64":
        return np.array(f).astype("int64")
    if form == "int_list":
        return [int(v) for v in f]
    if form == "float_list":
        return f
    if form == "float32":
        return np.array(f, dtype="float32")
    return np.array(f, dtype="float64")


def _bits2d(mj):
    return np.array([c == "1" for c in mj["bits"]], dtype=bool).reshape(mj["h"], mj["w"])


def _cards(header):
    """the pixel-scale cards of an astropy header / dict, in order"""
    if header is None:
        return None
    return [[k, q(v)] for k, v in dict(header).items() if str(k).startswith("PIXSCALE")]


def _data_json(data):
    d = np.asarray(data)
    if d.ndim == 1:
        return qlist(d.astype("float64"))
    return [qlist(r) for r in d.astype("float64")]


def _read2d(b):
    return {
        "shape": [int(v) for v in b.shape_native],
        "native": qlist(np.asarray(b.native.array, dtype="float64").ravel()),
        "slim": qlist(np.asarray(b.slim.array, dtype="float64").ravel()),
        "mask_bits": "".join("1" if v else "0" for v in np.asarray(b.mask).ravel()),
        "scales": qlist(b.pixel_scales),
    }


def _mask_obs(m):
    arr = np.asarray(m)
    return {"h": int(arr.shape[0]), "w": int(arr.shape[1]),
            "bits": "".join("1" if v else "0" for v in arr.ravel())}


def _err_kind(e):
    if isinstance(e, FileNotFoundError):
        return "FileNotFoundError"
    if isinstance(e, (IsADirectoryError, NotADirectoryError)):
        return type(e).__name__
    if isinstance(e, OSError):
        return "exists_no_overwrite"
    raise e


# psf-like kernels whose entries are dyadic and sum to exactly 1 (normalisation is then exact)
_K1 = [Fraction(1, 8), Fraction(5, 8), Fraction(2, 8)]
_K2 = [Fraction(3, 8), Fraction(1, 8), Fraction(4, 8)]
_K5 = [Fraction(1, 16), Fraction(2, 16), Fraction(9, 16), Fraction(3, 16), Fraction(1, 16)]


def _unit_kernel(kh, kw):
    col = {1: [Fraction(1)], 3: _K1, 5: _K5}[kh]
    row = {1: [Fraction(1)], 3: _K2, 5: _K5}[kw]
    return [[a * b for b in row] for a in col]


SPECIAL = [Fraction(-1, 2 ** 40), Fraction(1, 2 ** 200), Fraction(3 * 2 ** 90), Fraction(-5 * 2 ** 300),
           Fraction(1.5e300), Fraction(-2.5e-300), Fraction(0.1), Fraction(-1e-17), Fraction(5e-324),
           Fraction(0), Fraction(-7), Fraction(123456789.123456789)]

SCALES_EXTRA = [Fraction(0.05), Fraction(0.03), Fraction(1, 1024), Fraction(7, 2), Fraction(0.1)]


class C16(PropertyCheck):
    pid = "C16"
    title = "FITS round trip"
    nontrivial_rule = (
        "round-trip cases are non-trivial when the content is not invariant under a vertical flip, or the "
        "array is held in native form with non-zero values under the mask, "
        "(>= 2 rows with different content) or the shape is degenerate (1xN / Nx1) or the object is "
        "1-D; history cases when at least one call targets an existing path; distinct = distinct case"
    )
    exhaustive_note = {
        "quick": "every shape 1..4 x 1..4 x flip x {array,kernel,mask} (one structured content each); "
                 "every 1-D mask of length <= 4 x flip",
        "thorough": "every shape 1..6 x 1..6 x flip x {array,kernel,mask}; every 1-D mask of length <= 7 x flip",
    }
    trusted_extra = [
        "astropy.io.fits (PrimaryHDU, HDUList, writeto, open): modelled as 'image data and header cards are "
        "stored and returned unchanged'; exercised on every case, never proved",
        "the operating system's filesystem (os.path.exists / os.makedirs / os.remove): modelled by the state "
        "machine Model.Fits.FS; exercised in fresh temp directories, never proved",
    ]
    modelled_functions = [
        "autoarray/structures/arrays/array_2d_util.py:hdu_for_output_from",
        "autoarray/structures/arrays/array_2d_util.py:numpy_array_2d_to_fits",
        "autoarray/structures/arrays/array_2d_util.py:numpy_array_2d_via_fits_from",
        "autoarray/structures/arrays/array_2d_util.py:header_obj_from",
        "autoarray/structures/arrays/array_1d_util.py:hdu_for_output_from",
        "autoarray/structures/arrays/array_1d_util.py:numpy_array_1d_to_fits",
        "autoarray/structures/arrays/array_1d_util.py:numpy_array_1d_via_fits_from",
        "autoarray/structures/arrays/array_1d_util.py:convert_array_1d",
        "autoarray/abstract_ndarray.py:AbstractNDArray.flip_hdu_for_ds9",
        "autoarray/abstract_ndarray.py:AbstractNDArray.pixel_scales_from_header",
        "autoarray/mask/abstract_mask.py:Mask.pixel_scale_header",
        "autoarray/structures/arrays/uniform_2d.py:AbstractArray2D.native",
        "autoarray/structures/arrays/uniform_2d.py:AbstractArray2D.hdu_for_output",
        "autoarray/structures/arrays/uniform_2d.py:AbstractArray2D.output_to_fits",
        "autoarray/structures/arrays/uniform_2d.py:Array2D.no_mask",
        "autoarray/structures/arrays/uniform_2d.py:Array2D.from_fits",
        "autoarray/structures/arrays/uniform_2d.py:Array2D.from_primary_hdu",
        "autoarray/structures/arrays/kernel_2d.py:Kernel2D.from_fits",
        "autoarray/structures/arrays/kernel_2d.py:Kernel2D.from_primary_hdu",
        "autoarray/structures/arrays/uniform_1d.py:Array1D.native",
        "autoarray/structures/arrays/uniform_1d.py:Array1D.hdu_for_output",
        "autoarray/structures/arrays/uniform_1d.py:Array1D.output_to_fits",
        "autoarray/structures/arrays/uniform_1d.py:Array1D.from_fits",
        "autoarray/structures/arrays/uniform_1d.py:Array1D.from_primary_hdu",
        "autoarray/mask/mask_2d.py:Mask2D.hdu_for_output",
        "autoarray/mask/mask_2d.py:Mask2D.output_to_fits",
        "autoarray/mask/mask_2d.py:Mask2D.from_fits",
        "autoarray/mask/mask_2d.py:Mask2D.from_primary_hdu",
        "autoarray/mask/mask_1d.py:Mask1D.hdu_for_output",
        "autoarray/mask/mask_1d.py:Mask1D.output_to_fits",
        "autoarray/mask/mask_1d.py:Mask1D.from_fits",
        "autoarray/mask/mask_1d.py:Mask1D.from_primary_hdu",
        "autoarray/dataset/imaging/dataset.py:Imaging.output_to_fits",
        "autoarray/dataset/imaging/dataset.py:Imaging.from_fits",
    ]
    assumptions = [
        "values are finite float64 numbers (NaN / inf are outside the property's 'real values')",
        "target paths are regular files or absent and their parents are directories or absent (a directory "
        "as target, or a regular file as parent, is outside the property)",
    ]

    # ------------------------------------------------------------------ generation
    def _values(self, rng, n, style=None):
        # every value is an exact double, so the "p/q" strings denote exactly what is written
        return [Fraction(float(v)) for v in self._values_raw(rng, n, style)]

    def _values_raw(self, rng, n, style=None):
        if n == 0:
            return []
        style = style or rng.choice(["distinct", "distinct", "dyadic", "special", "mixed"])
        if style == "distinct":
            return [Fraction(v) for v in gen.distinct_ints(rng, n)]
        if style == "dyadic":
            return [Fraction(v, 8) for v in gen.distinct_ints(rng, n, hi=40 + 3 * n)]
        if style == "special":
            return [rng.choice(SPECIAL) + (k if rng.random() < 0.3 else 0) for k in range(n)]
        vals = [Fraction(v) for v in gen.distinct_ints(rng, n)]
        for _ in range(max(1, n // 3)):
            vals[rng.randrange(n)] = rng.choice(SPECIAL)
        return vals

    def _scales(self, rng, aniso=None):
        pool = gen.SCALES + SCALES_EXTRA
        if aniso is None:
            aniso = rng.random() < 0.5
        sy = rng.choice(pool)
        sx = rng.choice([s for s in pool if s != sy]) if aniso else sy
        return [q(sy), q(sx)]

    def _junk_arr_case(self, rng, m, tag, kind=None, flip=None, mode=None):
        """a MASKED array held in NATIVE form whose underlying ndarray is non-zero at masked pixels:
        `arith`  = arithmetic on a native-stored array (`a - c`: masked cells become -c);
        `skip_mask` = built with `store_native=True, skip_mask=True` from a native array with junk.
        The file / HDU must nevertheless hold zeros at the masked pixels."""
        kind = kind or rng.choice(["array2d", "array2d", "kernel2d"])
        mode = mode or ("arith" if kind == "kernel2d" else rng.choice(["arith", "skip_mask"]))
        if kind == "kernel2d":
            mode = "arith"  # Kernel2D's constructor swallows skip_mask
        n = sum(1 for r in m for b in r if not b)
        c = self._arr_case(rng, m, tag, kind=kind, flip=flip)
        # small dyadic values: (v + c) - c == v exactly in double precision
        c["values"] = qlist(self._values(rng, n, rng.choice(["distinct", "dyadic"])))
        c["store_native"] = True
        c["junk"] = mode
        c["junk_shift"] = q(rng.choice([Fraction(2), Fraction(-3, 2), Fraction(1, 4), Fraction(-7)]))
        c["junk_values"] = qlist([Fraction(rng.choice([77, -5, 1000, 3])) + Fraction(i, 2)
                                  for i in range(len(m) * len(m[0]) - n)])
        return c

    @staticmethod
    def _stored_native(case):
        """the ndarray a junk case actually holds (row-major), as exact rationals"""
        bits = case["mask"]["bits"] if "mask" in case else case["bits"]
        vals = iter(Fraction(v) for v in case["values"])
        if case["junk"] == "arith":
            shift = Fraction(case["junk_shift"])
            return [Fraction(0) - shift if b == "1" else next(vals) for b in bits]
        junk = iter(Fraction(v) for v in case["junk_values"])
        return [next(junk) if b == "1" else next(vals) for b in bits]

    def _arr_case(self, rng, m, tag, kind=None, flip=None, **kw):
        h, w = len(m), len(m[0])
        n = sum(1 for r in m for b in r if not b)
        kind = kind or rng.choice(["array2d", "kernel2d"])
        c = {"tag": tag, "kind": kind, "mask": mask_json(m), "values": qlist(self._values(rng, n)),
             "scales": self._scales(rng), "flip": rng.random() < 0.5 if flip is None else flip,
             "store_native": rng.random() < 0.4, "path_style": rng.choice(["abs", "rel", "bare", "nested"]),
             "origin": [q(gen.dyadic(rng, -4, 4, 2)), q(gen.dyadic(rng, -4, 4, 2))]}
        c.update(kw)
        return c

    def _form_arr_case(self, rng, m, tag, kind=None, flip=None):
        """the array's values supplied as an integer-dtype ndarray, a plain Python int / float list,
        float32, another structure, or through the `no_mask` / `full` constructors; scales as a bare
        float or int; optional arguments given explicitly with their falsy defaults"""
        n = sum(1 for r in m for b in r if not b)
        c = self._arr_case(rng, m, tag, kind=kind, flip=flip)
        form = rng.choice(["int64", "int_list", "float_list", "float32", "wrapped", "native_list"]
                          + (["no_mask", "full"] if not any(b for r in m for b in r) else []))
        c["in_form"] = form
        c["store_native"] = False
        if form in ("int64", "int_list"):
            c["values"] = qlist(gen.distinct_ints(rng, n)) if n else []
        elif form == "float32":
            c["values"] = qlist([Fraction(v, 8) for v in gen.distinct_ints(rng, n)]) if n else []
        elif form == "full":
            c["values"] = qlist([rng.choice([Fraction(0), Fraction(-3, 2), Fraction(7)])] * n)
        if rng.random() < 0.5:
            s = rng.choice([Fraction(1), Fraction(2), Fraction(3), Fraction(1, 2), Fraction(0.05)])
            c["scales"] = [q(s), q(s)]
            c["scales_form"] = "float"  # (a bare int is not a `ty.PixelScales`: convert_pixel_scales_2d rejects it)
        c["explicit_defaults"] = rng.random() < 0.7
        if rng.random() < 0.3:
            c["origin"] = ["0", "0"]
        return c

    def _mask_case(self, rng, m, tag, flip=None):
        h, w = len(m), len(m[0])
        c = {"tag": tag, "kind": "mask2d", "mask": mask_json(m), "scales": self._scales(rng),
             "flip": rng.random() < 0.5 if flip is None else flip, "invert": rng.random() < 0.5,
             "path_style": rng.choice(["abs", "rel", "bare", "nested"])}
        if rng.random() < 0.6:
            c["resized"] = [max(1, h + rng.randint(-2, 3)), max(1, w + rng.randint(-2, 3))]
        return c

    def _structured_mask(self, rng, h, w):
        """a mask with both values where possible and no vertical symmetry"""
        m = [[rng.random() < 0.35 for _ in range(w)] for _ in range(h)]
        if all(b for r in m for b in r):
            m[rng.randrange(h)][rng.randrange(w)] = False
        return m

    def generate(self, tier, rng):
        side = 4 if tier == "quick" else 6
        # 1. every small shape × flip × kind
        for h in range(1, side + 1):
            for w in range(1, side + 1):
                for flip in (False, True):
                    m = self._structured_mask(rng, h, w)
                    yield self._arr_case(rng, m, "shape_exh_array", kind="array2d", flip=flip)
                    yield self._arr_case(rng, gen.full(h, w, False), "shape_exh_kernel", kind="kernel2d",
                                         flip=flip)
                    yield self._mask_case(rng, self._structured_mask(rng, h, w), "shape_exh_mask", flip=flip)
                    if h * w >= 2:
                        mj = self._structured_mask(rng, h, w)
                        if not any(b for r in mj for b in r):
                            mj[rng.randrange(h)][rng.randrange(w)] = True
                        if all(b for r in mj for b in r):
                            mj[0][0] = False
                        yield self._junk_arr_case(rng, mj, "shape_exh_native_junk", flip=flip,
                                                  mode=["arith", "skip_mask"][(h + w + flip) % 2],
                                                  kind="array2d" if (h * w + flip) % 3 else "kernel2d")
        # 1b. degenerate: no unmasked pixel at all (values = []), both flips; all-zero content
        for (h, w) in ((1, 1), (2, 3), (3, 1)):
            for flip in (False, True):
                yield self._arr_case(rng, gen.full(h, w, True), "all_masked_array", kind="array2d", flip=flip)
                c = self._arr_case(rng, gen.full(h, w, False), "all_zero_array", flip=flip)
                c["values"] = ["0"] * (h * w)
                yield c
                yield self._mask_case(rng, gen.full(h, w, True), "all_masked_mask", flip=flip)
                yield self._mask_case(rng, gen.full(h, w, False), "all_unmasked_mask", flip=flip)
        # 2. random larger shapes, structured masks
        n = 60 if tier == "quick" else 500
        for _ in range(n):
            h, w = rng.randint(1, 9), rng.randint(1, 9)
            m, mk = gen.random_mask(rng, h, w)
            yield self._arr_case(rng, m, f"rand_array_{mk}")
            if rng.random() < 0.6:
                mf, mkf = gen.random_mask(rng, rng.randint(1, 6), rng.randint(1, 6),
                                          kind=rng.choice([None, None, "all"]))
                yield self._form_arr_case(rng, mf, f"form_array_{mkf}")
            if any(b for r in m for b in r) and rng.random() < 0.5:
                yield self._junk_arr_case(rng, m, f"rand_native_junk_{mk}")
            m2, mk2 = gen.random_mask(rng, rng.randint(1, 9), rng.randint(1, 9))
            yield self._mask_case(rng, m2, f"rand_mask_{mk2}")
        # 3. 1-D
        n1 = 4 if tier == "quick" else 7
        for ln in range(1, n1 + 1):
            for bits in range((1 << ln) - 1):
                mask = [bool((bits >> i) & 1) for i in range(ln)]
                nun = mask.count(False)
                for flip in (False, True):
                    yield {"tag": "1d_exh_array", "kind": "array1d", "flip": flip,
                           "bits": "".join("1" if b else "0" for b in mask),
                           "values": qlist(self._values(rng, nun)), "scale": self._scales(rng, False)[0],
                           "store_native": rng.random() < 0.4,
                           "path_style": rng.choice(["abs", "rel", "bare", "nested"])}
                    yield {"tag": "1d_exh_mask", "kind": "mask1d", "flip": flip,
                           "bits": "".join("1" if b else "0" for b in mask),
                           "scale": self._scales(rng, False)[0],
                           "path_style": rng.choice(["abs", "rel", "bare", "nested"])}
        for ln in range(1, n1 + 2):
            for form in ("int64", "int_list", "float_list", "float32", "no_mask"):
                mask = [False] * ln if form == "no_mask" else [rng.random() < 0.4 for _ in range(ln)]
                nun = mask.count(False)
                vals = gen.distinct_ints(rng, nun) if nun else []
                if form == "float32":
                    vals = [Fraction(v, 8) for v in vals]
                yield {"tag": "1d_form_array", "kind": "array1d", "flip": rng.random() < 0.5,
                       "bits": "".join("1" if b else "0" for b in mask), "values": qlist(vals),
                       "scale": self._scales(rng, False)[0], "store_native": False, "in_form": form,
                       "scale_form": rng.choice(["float", "tuple"]), "explicit_defaults": rng.random() < 0.7,
                       "path_style": rng.choice(["abs", "rel", "bare", "nested"])}
        for ln in range(2, n1 + 2):
            for _ in range(2 if tier == "quick" else 6):
                mask = [rng.random() < 0.5 for _ in range(ln)]
                if all(mask):
                    mask[rng.randrange(ln)] = False
                if not any(mask):
                    mask[rng.randrange(ln)] = True
                nun = mask.count(False)
                yield {"tag": "1d_native_junk", "kind": "array1d", "flip": rng.random() < 0.5,
                       "bits": "".join("1" if b else "0" for b in mask),
                       "values": qlist(self._values(rng, nun, "distinct")),
                       "scale": self._scales(rng, False)[0], "store_native": True,
                       "junk": rng.choice(["arith", "direct"]),
                       "junk_shift": q(rng.choice([Fraction(2), Fraction(-3, 2), Fraction(1, 4)])),
                       "junk_values": qlist([Fraction(77 + i) for i in range(ln - nun)]),
                       "path_style": rng.choice(["abs", "rel", "bare", "nested"])}
        for _ in range(20 if tier == "quick" else 150):
            ln = rng.randint(5, 14)
            mask = [rng.random() < 0.4 for _ in range(ln)]
            if all(mask):
                mask[rng.randrange(ln)] = False
            yield {"tag": "1d_rand_array", "kind": "array1d", "flip": rng.random() < 0.5,
                   "bits": "".join("1" if b else "0" for b in mask),
                   "values": qlist(self._values(rng, mask.count(False))),
                   "scale": self._scales(rng, False)[0], "store_native": rng.random() < 0.4,
                   "path_style": rng.choice(["abs", "rel", "bare", "nested"])}
        # 4. multi-HDU files
        for _ in range(25 if tier == "quick" else 200):
            k = rng.randint(2, 4)
            arrays = []
            for _ in range(k):
                h, w = rng.randint(1, 5), rng.randint(1, 5)
                m, _mk = gen.random_mask(rng, h, w)
                nun = sum(1 for r in m for b in r if not b)
                arrays.append({"mask": mask_json(m), "values": qlist(self._values(rng, nun)),
                               "scales": self._scales(rng)})
            yield {"tag": "multi_hdu", "kind": "multi_hdu", "flip": rng.random() < 0.5, "arrays": arrays,
                   "read": rng.randrange(k), "scales": self._scales(rng),
                   "reader": rng.choice(["array2d", "kernel2d"])}
        # 5. Imaging
        for _ in range(12 if tier == "quick" else 80):
            h, w = rng.randint(1, 6), rng.randint(1, 6)
            kh, kw = rng.choice([1, 3, 5]), rng.choice([1, 3, 5])
            yield {"tag": "imaging", "kind": "imaging", "flip": rng.random() < 0.5, "shape": [h, w],
                   "data": qlist(self._values(rng, h * w)),
                   "noise": qlist([Fraction(v, 4) for v in gen.distinct_ints(rng, h * w, signed=False)]),
                   "psf_shape": [kh, kw], "scales": self._scales(rng),
                   "path_style": rng.choice(["abs", "rel", "bare", "nested"]),
                   "with_psf": rng.random() < 0.8, "victim": rng.choice(["data", "psf", "noise"])}
        # 6. histories of output_to_fits calls
        for _ in range(80 if tier == "quick" else 800):
            yield self._history_case(rng)

    PATHS = [["a.fits"], ["b.fits"], ["d1", "a.fits"], ["d1", "b.fits"], ["d1", "d2", "a.fits"],
             ["d3", "d4", "d5", "c.fits"], ["d1", "d2", "c.fits"], ["d6", "a.fits"]]

    def _history_case(self, rng):
        pool = rng.sample(self.PATHS, rng.randint(2, 4))
        init_dirs = []
        for d in ([["d1"]], [["d1"], ["d1", "d2"]], [], [["d6"]], [["d3"]]):
            if rng.random() < 0.3:
                init_dirs = d
                break
        steps = []
        cid = 1
        init_files = []
        for p in pool:
            if rng.random() < 0.25 and all(p[:k] in init_dirs for k in range(1, len(p))):
                init_files.append([p, cid])
                cid += 1
        for _ in range(rng.randint(2, 7)):
            steps.append({"path": rng.choice(pool), "overwrite": rng.random() < 0.5, "content": cid,
                          "writer": rng.choice(["array2d", "array2d", "mask2d", "kernel2d", "array1d", "mask1d"])})
            cid += 1
        return {"tag": "fs_history", "kind": "fs_history", "flip": rng.random() < 0.5,
                "dirs": init_dirs, "files": init_files, "steps": steps,
                "path_style": rng.choice(["abs", "rel"])}

    # ------------------------------------------------------------------ implementation
    def _paths(self, sb, style, name="x.fits"):
        if style == "bare":
            return name
        if style == "nested":
            return sb.path(["sub1", "sub2", name], "rel")
        return sb.path(["out", name], style)

    def run_impl(self, case):
        aa = load_autoarray()
        kind = case["kind"]
        with _Sandbox(case["flip"]) as sb:
            return getattr(self, "_impl_" + kind)(aa, case, sb)

    def _build_array(self, aa, case):
        m = _bits2d(case["mask"])
        sc = (_f(case["scales"][0]), _f(case["scales"][1]))
        origin = tuple(_f(v) for v in case.get("origin", ["0", "0"]))
        mask = aa.Mask2D(mask=m, pixel_scales=sc, origin=origin)
        vals = np.array([_f(v) for v in case["values"]], dtype="float64")
        cls = aa.Kernel2D if case["kind"] == "kernel2d" else aa.Array2D
        if case.get("junk"):
            held = np.array([_f(v) for v in self._stored_native(case)], dtype="float64").reshape(m.shape)
            if case["junk"] == "arith":
                shift = _f(case["junk_shift"])
                nat = np.full(m.shape, 55.0)
                nat[~m] = vals + shift
                a = cls(values=nat, mask=mask, store_native=True) - shift
            else:
                a = cls(values=held.copy(), mask=mask, store_native=True, skip_mask=True)
            if not np.array_equal(np.asarray(a.array, dtype="float64"), held):
                raise Skip("could not build a native-stored array with non-zero values under the mask")
            return a, sc
        if case.get("store_native"):
            nat = np.full(m.shape, 77.0)  # junk in masked cells must not reach the file
            nat[~m] = vals
            return cls(values=nat, mask=mask, store_native=True), sc
        form = case.get("in_form")
        if form:
            ps = sc
            if case.get("scales_form") == "float":
                ps = sc[0]
            elif case.get("scales_form") == "int":
                ps = int(sc[0])
            if form in ("no_mask", "full"):
                h, w = m.shape
                if form == "full":
                    fv = _f(case["values"][0]) if case["values"] else 0.0
                    return cls.full(fill_value=fv, shape_native=(h, w), pixel_scales=ps, origin=origin), sc
                nat = [[_f(v) for v in case["values"][y * w:(y + 1) * w]] for y in range(h)]
                return cls.no_mask(values=nat, pixel_scales=ps, origin=origin), sc
            mask = aa.Mask2D(mask=m.tolist() if case.get("explicit_defaults") else m, pixel_scales=ps,
                             origin=origin)
            if form == "wrapped":
                return cls(values=cls(values=vals, mask=mask), mask=mask), sc
            if form == "native_list":
                nat = np.zeros(m.shape)
                nat[~m] = vals
                return cls(values=nat.tolist(), mask=mask), sc
            return cls(values=_as_form(case["values"], form), mask=mask), sc
        return cls(values=vals, mask=mask), sc

    def _impl_array2d(self, aa, case, sb):
        a, sc = self._build_array(aa, case)
        cls = aa.Kernel2D if case["kind"] == "kernel2d" else aa.Array2D
        hdu = a.hdu_for_output
        obs = {"hdu": {"data": _data_json(hdu.data), "header": _cards(hdu.header)}}
        obs["from_hdu"] = _read2d(cls.from_primary_hdu(hdu))
        path = self._paths(sb, case["path_style"])
        if case.get("explicit_defaults"):
            a.output_to_fits(file_path=path, overwrite=False)
            kw = {"origin": (0.0, 0.0)}
            if case["kind"] == "kernel2d":
                kw["normalize"] = False
            b = cls.from_fits(file_path=path, pixel_scales=sc, hdu=0, **kw)
        else:
            a.output_to_fits(file_path=path)
            b = cls.from_fits(file_path=path, pixel_scales=sc, hdu=0)
        obs["from_file"] = _read2d(b)
        obs["file_headers"] = {"sci": _cards(b.header.header_sci_obj), "hdu": _cards(b.header.header_hdu_obj)}
        return obs

    _impl_kernel2d = _impl_array2d

    def _impl_mask2d(self, aa, case, sb):
        m = _bits2d(case["mask"])
        sc = (_f(case["scales"][0]), _f(case["scales"][1]))
        mask = aa.Mask2D(mask=m, pixel_scales=sc)
        hdu = mask.hdu_for_output
        obs = {"hdu": {"data": _data_json(hdu.data), "header": _cards(hdu.header)}}
        back = aa.Mask2D.from_primary_hdu(hdu)
        obs["from_hdu"] = {"mask": _mask_obs(back), "scales": qlist(back.pixel_scales)}
        path = self._paths(sb, case["path_style"], "mask.fits")
        mask.output_to_fits(file_path=path)
        b = aa.Mask2D.from_fits(file_path=path, pixel_scales=sc, invert=case.get("invert", False), hdu=0,
                                origin=(0.0, 0.0), resized_mask_shape=None)
        obs["from_file"] = _mask_obs(b)
        obs["from_file_scales"] = qlist(b.pixel_scales)
        if case.get("resized"):
            shp = tuple(case["resized"])
            r = aa.Mask2D.from_fits(file_path=path, pixel_scales=sc, invert=case.get("invert", False),
                                    resized_mask_shape=shp)
            obs["resized"] = _mask_obs(r)
            ref = aa.Mask2D(mask=(~m if case.get("invert") else m), pixel_scales=sc).resized_from(new_shape=shp)
            obs["resized_ref"] = _mask_obs(ref)
        return obs

    @staticmethod
    def _stored_native_1d(case):
        vals = iter(Fraction(v) for v in case["values"])
        if case["junk"] == "arith":
            shift = Fraction(case["junk_shift"])
            return [Fraction(0) - shift if b == "1" else next(vals) for b in case["bits"]]
        junk = iter(Fraction(v) for v in case["junk_values"])
        return [next(junk) if b == "1" else next(vals) for b in case["bits"]]

    def _impl_array1d(self, aa, case, sb):
        mask = np.array([c == "1" for c in case["bits"]], dtype=bool)
        s = _f(case["scale"])
        m1 = aa.Mask1D(mask=mask, pixel_scales=s)
        vals = np.array([_f(v) for v in case["values"]], dtype="float64")
        if case.get("junk"):
            held = np.array([_f(v) for v in self._stored_native_1d(case)], dtype="float64")
            if case["junk"] == "arith":
                shift = _f(case["junk_shift"])
                nat = np.zeros(mask.shape)
                nat[~mask] = vals + shift
                a = aa.Array1D(values=nat, mask=m1, store_native=True) - shift
            else:
                a = aa.Array1D(values=held.copy(), mask=m1, store_native=True)
        elif case.get("store_native"):
            nat = np.zeros(mask.shape)
            nat[~mask] = vals
            a = aa.Array1D(values=nat, mask=m1, store_native=True)
        elif case.get("in_form"):
            form = case["in_form"]
            ps = (s,) if case.get("scale_form") == "tuple" else s
            if form == "no_mask":
                a = aa.Array1D.no_mask(values=[_f(v) for v in case["values"]], pixel_scales=ps)
            else:
                m1 = aa.Mask1D(mask=mask.tolist() if case.get("explicit_defaults") else mask, pixel_scales=ps)
                a = aa.Array1D(values=_as_form(case["values"], form), mask=m1)
        else:
            a = aa.Array1D(values=vals, mask=m1)
        hdu = a.hdu_for_output
        obs = {"hdu": {"data": _data_json(hdu.data), "header": _cards(hdu.header)}}
        b = aa.Array1D.from_primary_hdu(hdu)
        obs["from_hdu"] = {"native": qlist(np.asarray(b.native.array, dtype="float64")),
                           "scales": qlist(b.pixel_scales)}
        path = self._paths(sb, case["path_style"], "a1.fits")
        a.output_to_fits(file_path=path)
        c = aa.Array1D.from_fits(file_path=path, pixel_scales=s)
        obs["from_file"] = qlist(np.asarray(c.native.array, dtype="float64"))
        obs["file_headers"] = _cards(c.header.header_sci_obj)
        return obs

    def _impl_mask1d(self, aa, case, sb):
        mask = np.array([c == "1" for c in case["bits"]], dtype=bool)
        s = _f(case["scale"])
        m1 = aa.Mask1D(mask=mask, pixel_scales=s)
        hdu = m1.hdu_for_output
        obs = {"hdu": {"data": _data_json(hdu.data), "header": _cards(hdu.header)}}
        b = aa.Mask1D.from_primary_hdu(hdu)
        obs["from_hdu"] = {"bits": "".join("1" if v else "0" for v in np.asarray(b)),
                           "scales": qlist(b.pixel_scales)}
        path = self._paths(sb, case["path_style"], "m1.fits")
        m1.output_to_fits(file_path=path)
        c = aa.Mask1D.from_fits(file_path=path, pixel_scales=s)
        obs["from_file"] = "".join("1" if v else "0" for v in np.asarray(c))
        return obs

    def _impl_multi_hdu(self, aa, case, sb):
        from astropy.io import fits

        hl = fits.HDUList()
        for a in case["arrays"]:
            arr, _sc = self._build_array(aa, {**a, "kind": "array2d"})
            hl.append(arr.hdu_for_output)
        path = sb.path(["multi.fits"], "abs")
        hl.writeto(path)
        sc = (_f(case["scales"][0]), _f(case["scales"][1]))
        cls = aa.Kernel2D if case["reader"] == "kernel2d" else aa.Array2D
        b = cls.from_fits(file_path=path, pixel_scales=sc, hdu=case["read"])
        return {"read": _read2d(b), "sci": _cards(b.header.header_sci_obj),
                "hdu": _cards(b.header.header_hdu_obj)}

    def _impl_imaging(self, aa, case, sb):
        h, w = case["shape"]
        sc = (_f(case["scales"][0]), _f(case["scales"][1]))
        data = aa.Array2D.no_mask(np.array([_f(v) for v in case["data"]]).reshape(h, w), pixel_scales=sc)
        noise = aa.Array2D.no_mask(np.array([_f(v) for v in case["noise"]]).reshape(h, w), pixel_scales=sc)
        psf = None
        if case["with_psf"]:
            kh, kw = case["psf_shape"]
            psf = aa.Kernel2D.no_mask(np.array([[float(v) for v in r] for r in _unit_kernel(kh, kw)]),
                                      pixel_scales=sc)
        im = aa.Imaging(data=data, noise_map=noise, psf=psf)
        st = case["path_style"]
        dp = self._paths(sb, st, "data.fits")
        npth = self._paths(sb, st, "noise_map.fits")
        pp = self._paths(sb, st, "psf.fits") if psf is not None else None
        im.output_to_fits(data_path=dp, psf_path=pp, noise_map_path=npth)
        # second call without overwrite: only the `victim` file still exists, so the call must fail
        # at exactly that component (data, psf, noise map are written in this order)
        victim = case.get("victim", "data")
        if victim == "psf" and psf is None:
            victim = "data"
        for name, pth in (("data", dp), ("psf", pp), ("noise", npth)):
            if pth is not None and name != victim:
                os.remove(pth)
        second = None
        try:
            im.output_to_fits(data_path=dp, psf_path=pp, noise_map_path=npth)
        except Exception as e:
            second = _err_kind(e)
        im.output_to_fits(data_path=dp, psf_path=pp, noise_map_path=npth, overwrite=True)
        im2 = aa.Imaging.from_fits(pixel_scales=sc, data_path=dp, noise_map_path=npth, psf_path=pp)
        obs = {"second_write": second, "data": _read2d(im2.data), "noise": _read2d(im2.noise_map)}
        if psf is not None:
            obs["psf"] = _read2d(im2.psf)
        return obs

    # content of history step `cid` written through writer `w`: small, asymmetric, encodes cid
    def _content(self, aa, cid, writer):
        if writer in ("array2d", "kernel2d"):
            vals = np.array([[cid, cid + 0.5, -cid], [cid + 0.25, 0.0, 1.0]])
            cls = aa.Kernel2D if writer == "kernel2d" else aa.Array2D
            return cls.no_mask(vals, pixel_scales=(1.0, 2.0))
        if writer == "mask2d":
            m = np.ones((2, cid + 1), dtype=bool)
            m[0, 0] = False
            return aa.Mask2D(mask=m, pixel_scales=1.0)
        if writer == "array1d":
            return aa.Array1D.no_mask([cid, cid + 0.5, 3.0], pixel_scales=0.5)
        m = np.ones(cid + 2, dtype=bool)
        m[1] = False
        return aa.Mask1D(mask=m, pixel_scales=0.5)

    def _expected_file_data(self, aa, cid, writer, flip):
        obj = self._content(aa, cid, writer)
        if writer in ("array2d", "kernel2d"):
            d = np.asarray(obj.native.array, dtype="float64")
            return np.flipud(d) if flip else d
        if writer == "mask2d":
            d = np.asarray(obj).astype("float64")
            return np.flipud(d) if flip else d
        if writer == "array1d":
            return np.asarray(obj.native.array, dtype="float64")
        return np.asarray(obj).astype("float64")

    def _impl_fs_history(self, aa, case, sb):
        from astropy.io import fits

        style = case["path_style"]
        writers = {}
        for d in case["dirs"]:
            os.makedirs(sb.path(d, "abs"), exist_ok=True)
        for p, cid in case["files"]:
            writers[cid] = "array2d"
            self._content(aa, cid, "array2d").output_to_fits(file_path=sb.path(p, "abs"))
        results = []
        for s in case["steps"]:
            writers[s["content"]] = s["writer"]
            obj = self._content(aa, s["content"], s["writer"])
            try:
                obj.output_to_fits(file_path=sb.path(s["path"], style), overwrite=s["overwrite"])
                results.append(None)
            except Exception as e:
                results.append(_err_kind(e))
        files, dirs = [], []
        for root, dnames, fnames in os.walk(sb.dir):
            rel = os.path.relpath(root, sb.dir)
            comps = [] if rel == "." else rel.split(os.sep)
            for d in dnames:
                dirs.append(comps + [d])
            for fn in fnames:
                with fits.open(os.path.join(root, fn)) as hl:
                    got = np.array(hl[0].data, dtype="float64")
                    n_hdus = len(hl)
                ident = "unknown"
                for cid, wkind in writers.items():
                    exp = self._expected_file_data(aa, cid, wkind, case["flip"])
                    if n_hdus == 1 and exp.shape == got.shape and np.array_equal(exp, got):
                        ident = cid
                        break
                files.append([comps + [fn], ident])
        return {"results": results, "files": sorted(files, key=lambda e: e[0]), "dirs": sorted(dirs)}

    # ------------------------------------------------------------------ model
    def model_requests(self, case, impl_obs):
        kind = case["kind"]
        if kind in ("array2d", "kernel2d"):
            req = {"op": "c16.array2d", "mask": case["mask"], "values": case["values"],
                   "scales": case["scales"], "flip": case["flip"]}
            if case.get("junk"):
                req["stored_native"] = qlist(self._stored_native(case))
            return [req]
        if kind == "mask2d":
            return [{"op": "c16.mask2d", "mask": case["mask"], "scales": case["scales"], "flip": case["flip"],
                     "invert": case.get("invert", False)}]
        if kind == "array1d":
            req = {"op": "c16.array1d", "bits": case["bits"], "values": case["values"], "scale": case["scale"]}
            if case.get("junk"):
                req["stored_native"] = qlist(self._stored_native_1d(case))
            return [req]
        if kind == "mask1d":
            return [{"op": "c16.mask1d", "bits": case["bits"], "scale": case["scale"]}]
        if kind == "multi_hdu":
            return [{"op": "c16.multi_hdu", "flip": case["flip"], "arrays": case["arrays"],
                     "read": case["read"], "scales": case["scales"]}]
        if kind == "imaging":
            h, w = case["shape"]
            full = {"h": h, "w": w, "bits": "0" * (h * w)}
            reqs = [{"op": "c16.array2d", "mask": full, "values": case[k], "scales": case["scales"],
                     "flip": case["flip"]} for k in ("data", "noise")]
            if case["with_psf"]:
                kh, kw = case["psf_shape"]
                reqs.append({"op": "c16.array2d", "mask": {"h": kh, "w": kw, "bits": "0" * (kh * kw)},
                             "values": qlist([v for r in _unit_kernel(kh, kw) for v in r]),
                             "scales": case["scales"], "flip": case["flip"]})
            # the second (non-overwriting) call: a history on a state where only the victim file exists
            victim = case.get("victim", "data")
            if victim == "psf" and not case["with_psf"]:
                victim = "data"
            order = ["data"] + (["psf"] if case["with_psf"] else []) + ["noise"]
            reqs.append({"op": "c16.fs_history", "files": [[[victim + ".fits"], 1]],
                         "steps": [{"path": [n + ".fits"], "overwrite": False, "content": 2 + i}
                                   for i, n in enumerate(order)]})
            return reqs
        if kind == "fs_history":
            return [{"op": "c16.fs_history", "dirs": case["dirs"], "files": case["files"],
                     "steps": [{"path": s["path"], "overwrite": s["overwrite"], "content": s["content"]}
                               for s in case["steps"]]}]
        raise ValueError(kind)

    def model_obs(self, case, responses):
        for r in responses:
            if "err" in r:
                return {"err": r["err"]}
        kind = case["kind"]
        r = responses[0]["ok"]
        if kind in ("array2d", "kernel2d"):
            return r
        if kind == "mask2d":
            return r
        if kind in ("array1d", "mask1d", "multi_hdu"):
            return r
        if kind == "imaging":
            out = {"second_write": next((r for r in responses[-1]["ok"]["results"] if r is not None), None),
                   "data": responses[0]["ok"]["from_file"], "noise": responses[1]["ok"]["from_file"]}
            if case["with_psf"]:
                out["psf"] = responses[2]["ok"]["from_file"]
            return out
        if kind == "fs_history":
            return {"results": r["results"], "files": sorted(r["files"], key=lambda e: e[0]),
                    "dirs": sorted(r["dirs"])}
        raise ValueError(kind)

    def compare(self, case, impl_obs, model_obs, cmp):
        if isinstance(impl_obs, dict) and "err" in impl_obs and len(impl_obs) <= 2:
            return cmp.diff(impl_obs, model_obs)
        kind = case["kind"]
        io = dict(impl_obs)
        if kind == "mask2d":
            for k in ("resized", "resized_ref", "from_file_scales"):
                io.pop(k, None)
        if kind == "array1d":
            io.pop("file_headers", None)
        if kind == "fs_history":
            # the sandbox directories of path styles ("out", "sub1"…) do not occur in histories
            pass
        return cmp.diff(io, model_obs)

    # ------------------------------------------------------------------ oracle
    @staticmethod
    def _scales_from_cards(cards):
        d = {k: Fraction(v) for k, v in cards}
        if "PIXSCALE" in d:
            return [d["PIXSCALE"], d["PIXSCALE"]]
        if "PIXSCALEY" in d and "PIXSCALEX" in d:
            return [d["PIXSCALEY"], d["PIXSCALEX"]]
        return None

    @staticmethod
    def _native_expected(mj, values):
        bits = [c == "1" for c in mj["bits"]]
        it = iter(values)
        return [Fraction(0) if b else Fraction(next(it)) for b in bits]

    def _check_read2d(self, name, r, h, w, exp_native, scales):
        if r["shape"] != [h, w]:
            return f"{name}: shape {r['shape']} != {[h, w]}"
        if [Fraction(v) for v in r["native"]] != exp_native:
            return f"{name}: native values differ from the written ones (zeros at masked pixels)"
        if [Fraction(v) for v in r["slim"]] != exp_native:
            return f"{name}: slim values of the unmasked read-back array differ"
        if "1" in r["mask_bits"]:
            return f"{name}: read-back array is masked"
        if scales is not None and [Fraction(v) for v in r["scales"]] != scales:
            return f"{name}: pixel scales {r['scales']} != written {[str(s) for s in scales]}"
        return None

    def oracle(self, case, obs):
        if isinstance(obs, dict) and "err" in obs and len(obs) <= 2:
            return False, f"implementation raised {obs}"
        kind = case["kind"]
        flip = case["flip"]
        if kind in ("array2d", "kernel2d"):
            mj = case["mask"]
            h, w = mj["h"], mj["w"]
            exp = self._native_expected(mj, case["values"])
            scales = [Fraction(v) for v in case["scales"]]
            rows = [exp[y * w:(y + 1) * w] for y in range(h)]
            want = rows[::-1] if flip else rows
            got = [[Fraction(v) for v in r] for r in obs["hdu"]["data"]]
            if got != want:
                return False, "HDU data is not the native array " + ("flipped upside-down" if flip else "as is")
            hs = self._scales_from_cards(obs["hdu"]["header"])
            if hs != scales:
                return False, f"HDU header encodes pixel scales {hs}, object has {scales}"
            for name in ("from_hdu", "from_file"):
                d = self._check_read2d(name, obs[name], h, w, exp, scales)
                if d:
                    return False, d
            for k in ("sci", "hdu"):
                if self._scales_from_cards(obs["file_headers"][k]) != scales:
                    return False, f"header ({k}) of the file does not carry the pixel scales written"
            return True, ""
        if kind == "mask2d":
            mj = case["mask"]
            h, w = mj["h"], mj["w"]
            scales = [Fraction(v) for v in case["scales"]]
            bits = [c == "1" for c in mj["bits"]]
            rows = [[Fraction(1 if b else 0) for b in bits[y * w:(y + 1) * w]] for y in range(h)]
            want = rows[::-1] if flip else rows
            if [[Fraction(v) for v in r] for r in obs["hdu"]["data"]] != want:
                return False, "mask HDU data is not the mask (as floats) " + ("flipped" if flip else "as is")
            if self._scales_from_cards(obs["hdu"]["header"]) != scales:
                return False, "mask HDU header does not carry the pixel scales"
            if obs["from_hdu"]["mask"] != {"h": h, "w": w, "bits": mj["bits"]}:
                return False, "mask read back from the HDU differs"
            if [Fraction(v) for v in obs["from_hdu"]["scales"]] != scales:
                return False, f"mask read back from the HDU has pixel scales {obs['from_hdu']['scales']}"
            inv = case.get("invert", False)
            eb = "".join(("0" if c == "1" else "1") if inv else c for c in mj["bits"])
            if obs["from_file"] != {"h": h, "w": w, "bits": eb}:
                return False, f"mask read back from the file differs (invert={inv})"
            if "resized" in obs and obs["resized"] != obs["resized_ref"]:
                return False, "from_fits(resized_mask_shape=S) != resized_from(S) of the written mask"
            return True, ""
        if kind == "array1d":
            mask = [c == "1" for c in case["bits"]]
            it = iter(case["values"])
            exp = [Fraction(0) if b else Fraction(next(it)) for b in mask]
            s = Fraction(case["scale"])
            if [Fraction(v) for v in obs["hdu"]["data"]] != exp:
                return False, "1-D HDU data is not the native 1-D array with zeros at masked entries (1-D data are never flipped)"
            if [Fraction(v) for v in obs["from_hdu"]["native"]] != exp:
                return False, "1-D array read back from the HDU differs"
            if [Fraction(v) for v in obs["from_hdu"]["scales"]] != [s]:
                return False, "1-D pixel scale read back from the HDU header differs"
            if [Fraction(v) for v in obs["from_file"]] != exp:
                return False, "1-D array read back from the file differs"
            if (self._scales_from_cards(obs["file_headers"]) or [None])[0] != s:
                return False, "1-D file header does not carry the pixel scale"
            return True, ""
        if kind == "mask1d":
            s = Fraction(case["scale"])
            exp = [Fraction(1 if c == "1" else 0) for c in case["bits"]]
            if [Fraction(v) for v in obs["hdu"]["data"]] != exp:
                return False, "1-D mask HDU data differs from the mask"
            if obs["from_hdu"]["bits"] != case["bits"] or obs["from_file"] != case["bits"]:
                return False, "1-D mask read back differs"
            if [Fraction(v) for v in obs["from_hdu"]["scales"]] != [s]:
                return False, "1-D mask pixel scale read back from the header differs"
            return True, ""
        if kind == "multi_hdu":
            a = case["arrays"][case["read"]]
            mj = a["mask"]
            exp = self._native_expected(mj, a["values"])
            d = self._check_read2d("read", obs["read"], mj["h"], mj["w"], exp,
                                   [Fraction(v) for v in case["scales"]])
            if d:
                return False, d
            if self._scales_from_cards(obs["hdu"]) != [Fraction(v) for v in a["scales"]]:
                return False, "header of the HDU read does not carry that array's pixel scales"
            if self._scales_from_cards(obs["sci"]) != [Fraction(v) for v in case["arrays"][0]["scales"]]:
                return False, "header of HDU 0 does not carry the first array's pixel scales"
            return True, ""
        if kind == "imaging":
            h, w = case["shape"]
            scales = [Fraction(v) for v in case["scales"]]
            if obs["second_write"] != "exists_no_overwrite":
                return False, f"second write without overwrite did not fail (got {obs['second_write']})"
            for k, vals in (("data", case["data"]), ("noise", case["noise"])):
                d = self._check_read2d(k, obs[k], h, w, [Fraction(v) for v in vals], scales)
                if d:
                    return False, d
            if case["with_psf"]:
                kh, kw = case["psf_shape"]
                d = self._check_read2d("psf", obs["psf"], kh, kw,
                                       [v for r in _unit_kernel(kh, kw) for v in r], scales)
                if d:
                    return False, d
            return True, ""
        if kind == "fs_history":
            files = {tuple(p): c for p, c in case["files"]}
            dirs = {tuple(d) for d in case["dirs"]}
            for s, res in zip(case["steps"], obs["results"]):
                p = tuple(s["path"])
                existed = p in files
                if existed and not s["overwrite"]:
                    if res != "exists_no_overwrite":
                        return False, f"write to existing {'/'.join(p)} without overwrite did not fail ({res})"
                    continue
                if res is not None:
                    return False, (f"write to {'/'.join(p)} (existed={existed}, overwrite={s['overwrite']}) "
                                   f"failed with {res}")
                files[p] = s["content"]
                for k in range(1, len(p)):
                    dirs.add(p[:k])
            got_files = {tuple(p): c for p, c in obs["files"]}
            if got_files != files:
                return False, f"files after the history {got_files} != expected {files}"
            if {tuple(d) for d in obs["dirs"]} != dirs:
                return False, f"directories after the history {obs['dirs']} != expected {sorted(dirs)}"
            return True, ""
        return True, ""

    # ------------------------------------------------------------------ bookkeeping
    def nontrivial(self, case, obs):
        kind = case["kind"]
        if case.get("junk"):
            return True
        if kind in ("array2d", "kernel2d", "mask2d"):
            mj = case["mask"]
            h, w = mj["h"], mj["w"]
            if h == 1 or w == 1:
                return True
            if kind == "mask2d":
                rows = [mj["bits"][y * w:(y + 1) * w] for y in range(h)]
            else:
                nat = self._native_expected(mj, case["values"])
                rows = [nat[y * w:(y + 1) * w] for y in range(h)]
            return rows != rows[::-1]
        if kind == "fs_history":
            seen = {tuple(p) for p, _ in case["files"]}
            for s in case["steps"]:
                if tuple(s["path"]) in seen:
                    return True
                seen.add(tuple(s["path"]))
            return False
        return True

    def known_finding(self, case, obs):
        return None

    def shrink(self, case):
        kind = case["kind"]
        if kind == "fs_history":
            steps = case["steps"]
            for i in range(len(steps)):
                if len(steps) > 1:
                    yield {**case, "steps": steps[:i] + steps[i + 1:]}
            if case["files"]:
                yield {**case, "files": case["files"][1:]}
            if case["dirs"] and not case["files"]:
                yield {**case, "dirs": []}
            return
        if kind in ("array2d", "kernel2d"):
            mj = case["mask"]
            h, w = mj["h"], mj["w"]
            if "1" in mj["bits"]:
                # unmask everything (keeps the shape), values renumbered
                yield {**case, "mask": {"h": h, "w": w, "bits": "0" * (h * w)},
                       "values": qlist(range(1, h * w + 1))}
            if h > 1 and "1" not in mj["bits"]:
                yield {**case, "mask": {"h": h - 1, "w": w, "bits": "0" * ((h - 1) * w)},
                       "values": case["values"][: (h - 1) * w]}
            if w > 1 and "1" not in mj["bits"]:
                vals = [v for i, v in enumerate(case["values"]) if i % w != w - 1]
                yield {**case, "mask": {"h": h, "w": w - 1, "bits": "0" * (h * (w - 1))}, "values": vals}
            if case.get("store_native"):
                yield {**case, "store_native": False}
            if case.get("path_style") != "abs":
                yield {**case, "path_style": "abs"}

    def theorems_for(self, case):
        kind = case["kind"]
        return {
            "fs_history": ["C16.history_semantics", "C16.output_overwrite_semantics", "C16.output_error_iff",
                           "C16.bare_name_cwd"],
            "mask2d": ["C16.mask2d_hdu_roundtrip", "C16.mask2d_file_roundtrip"],
            "array1d": ["C16.array1d_roundtrip", "C16.native_stored_1d_written_zero_filled"], "mask1d": ["C16.mask1d_roundtrip"],
        }.get(kind, ["C16.native_stored_written_zero_filled", "C16.array2d_hdu_roundtrip", "C16.array2d_file_roundtrip", "C16.scales_header_roundtrip",
                      "C16.flip_undone", "C16.output_is_flipped", "C16.masked_pixels_read_zero",
                      "C16.output_to_fits_then_from_fits"])

    def sample_view(self, case):
        return {k: v for k, v in case.items() if not k.startswith("_")}


CHECK = C16()
