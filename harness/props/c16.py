"""C16 — FITS output followed by input reproduces values, orientation and pixel scale.

Routes exercised on the real code (temp directories created at run time under the system temp dir):
  Array2D / Kernel2D / Mask2D / Array1D / Mask1D   hdu_for_output -> from_primary_hdu
                                                   output_to_fits -> from_fits (absolute, relative and
                                                   bare-file-name paths; Mask2D also invert / resized)
  multi-HDU files assembled from hdu_for_output objects -> from_fits(hdu=k)
  Imaging.output_to_fits -> Imaging.from_fits
  histories of output_to_fits calls (existing / absent targets and directories, both overwrite flags)
under both settings of general.fits.flip_for_ds9.
"""
from __future__ import annotations

import atexit
import gc
import hashlib
import os
import shutil
import tempfile
from fractions import Fraction

import numpy as np

import gen
from common import PropertyCheck, Skip, load_autoarray, mask_json, q, qlist

_ROOT = None


def _root():
    global _ROOT
    if _ROOT is None or not os.path.isdir(_ROOT):
        _ROOT = tempfile.mkdtemp(prefix="verif_c16_")
        atexit.register(shutil.rmtree, _ROOT, ignore_errors=True)
    return _ROOT


class _Sandbox:
    """fresh directory, made the working directory; flip flag set; everything restored afterwards."""

    def __init__(self, flip):
        self.flip = bool(flip)

    def __enter__(self):
        from autoconf import conf

        self.conf = conf
        self.old_flip = conf.instance["general"]["fits"]["flip_for_ds9"]
        self.old_nbo = conf.instance["general"]["structures"]["native_binned_only"]
        self.old_configs = None
        conf.instance["general"]["fits"]["flip_for_ds9"] = self.flip
        self.cwd = os.getcwd()
        self.dir = tempfile.mkdtemp(prefix="case_", dir=_root())
        os.chdir(self.dir)
        return self

    _exits = 0

    def __exit__(self, *a):
        os.chdir(self.cwd)
        # (round 5) configuration pushed during the case: back to the pinned list of config directories (the
        # setter invalidates the merged dictionary), then the two values this module touches — also when the
        # case raised
        if self.old_configs is not None:
            self.conf.instance.configs = self.old_configs
        self.conf.instance["general"]["fits"]["flip_for_ds9"] = self.old_flip
        self.conf.instance["general"]["structures"]["native_binned_only"] = self.old_nbo
        # astropy file handles opened by the readers are closed by their finalisers (HDUList objects sit in
        # reference cycles): a full collection every few cases keeps the number of open handles small
        # without paying ~30 ms per case
        _Sandbox._exits += 1
        if _Sandbox._exits % 16 == 0:
            gc.collect()
        shutil.rmtree(self.dir, ignore_errors=True)
        return False

    def set_flip(self, flip):
        self.conf.instance["general"]["fits"]["flip_for_ds9"] = bool(flip)

    def set_conf(self, flip, nbo, via):
        """(round 5, R5-D) put both configuration values the anchored code reads in force, either by item
        assignment on the live configuration (what `autoconf.conf.with_config` does) or by pushing a
        configuration directory (`conf.instance.push`, which rebuilds the merged dictionary: every section
        object handed out before is stale afterwards)"""
        flip, nbo = bool(flip), bool(nbo)
        if via == "push":
            d = os.path.join(_root(), f"conf_{int(flip)}{int(nbo)}")
            if not os.path.isdir(d):
                os.makedirs(d, exist_ok=True)
                with open(os.path.join(d, "general.yaml"), "w") as f:
                    f.write(f"fits:\n  flip_for_ds9: {str(flip).lower()}\n"
                            f"structures:\n  native_binned_only: {str(nbo).lower()}\n")
            if self.old_configs is None:
                self.old_configs = list(self.conf.instance.configs)
            # the directory may already be in the list (further down): start from the pinned list so that it
            # becomes the first one again
            self.conf.instance.configs = list(self.old_configs)
            self.conf.instance.push(new_path=d)
        else:
            self.conf.instance["general"]["fits"]["flip_for_ds9"] = flip
            self.conf.instance["general"]["structures"]["native_binned_only"] = nbo
        got = (self.conf.instance["general"]["fits"]["flip_for_ds9"],
               self.conf.instance["general"]["structures"]["native_binned_only"])
        if got != (flip, nbo):
            raise RuntimeError(f"harness: configuration not in force after set_conf({flip},{nbo},{via}): {got}")

    def path(self, comps, style):
        rel = os.path.join(*comps)
        return os.path.join(self.dir, rel) if style == "abs" else rel


def _f(x):
    return float(Fraction(x))


def _as_form(vals, form):
    """one and the same list of real numbers as different containers / dtypes (round-3 hardening)"""
    f = [float(Fraction(v)) for v in vals]
    if form == "int64":
        return np.array(f).astype("int64")
    if form == "int_list":
        return [int(v) for v in f]
    if form == "float_list":
        return f
    if form == "float32":
        return np.array(f, dtype="float32")
    return np.array(f, dtype="float64")


# (round 5, R5-C) one and the same ndarray in another memory layout / dtype / container.  Every form denotes
# the same numbers; the integer / float32 forms are only generated for values those dtypes hold exactly.
LAYOUT_FLOAT = ["fortran", "transposed", "strided", "negstride", "readonly", "bigendian", "list"]
LAYOUT_DTYPE = ["float32", "int64", "int32", "int16", "uint8", "uint16", "bigendian_f4", "bigendian_i4"]
MASK_FORMS_2D = ["fortran", "transposed", "strided", "negstride", "readonly", "int64", "uint8", "float64", "list",
                 "invert_ctor", "mask_obj", "mask_obj_origin0"]
MASK_FORMS_1D = ["strided", "negstride", "readonly", "int64", "uint8", "float64", "list", "invert_ctor"]


def _layout(arr, form):
    arr = np.asarray(arr)
    if form in (None, "plain"):
        return arr.copy()
    if form == "fortran":
        return np.asfortranarray(arr)
    if form == "transposed":  # a transposed VIEW of a C-contiguous buffer
        return arr.T.copy().T
    if form == "strided":  # every second element of a larger buffer filled with other numbers
        big = np.full(tuple(2 * s + 1 for s in arr.shape), 1 if arr.dtype == bool else 55, dtype=arr.dtype)
        view = big[tuple(slice(1, 2 * s + 1, 2) for s in arr.shape)]
        view[...] = arr
        return view
    if form == "negstride":
        rev = tuple(slice(None, None, -1) for _ in arr.shape)
        return arr[rev].copy()[rev]
    if form == "readonly":
        c = arr.copy()
        c.setflags(write=False)
        return c
    if form == "bigendian":
        return arr.astype(">f8")
    if form == "bigendian_f4":
        return arr.astype(">f4")
    if form == "bigendian_i4":
        return arr.astype(">i4")
    if form == "list":
        return arr.tolist()
    return arr.astype(form)


def _scribble(x, how, seen=None):
    """(round 5, R5-B) overwrite, in place, everything mutable reachable from an object the API returned or was
    given: ndarrays (also the ones inside autoarray structures, their masks and header objects), astropy HDUs
    (data and PIXSCALE cards), dicts.  Never raises; read-only buffers are left alone."""
    seen = seen if seen is not None else set()
    if x is None or isinstance(x, (str, bytes, int, float, bool, tuple)) or id(x) in seen:
        return
    seen.add(id(x))
    try:
        if isinstance(x, np.ndarray):
            if x.flags.writeable and x.size:
                if x.dtype == bool:
                    x[...] = ~x
                elif x.dtype.kind == "f":
                    if how == "nan":
                        x[...] = np.nan
                    else:
                        x += 1.0
                elif x.dtype.kind in "iu":
                    x[...] = 7 if how == "nan" else x + 1
            return
        if isinstance(x, (list,)):
            for v in x:
                _scribble(v, how, seen)
            return
        if hasattr(x, "header") and hasattr(x, "data") and not hasattr(x, "_array"):  # an astropy HDU
            d = x.data
            if d is not None:
                _scribble(np.asarray(d) if not isinstance(d, np.ndarray) else d, how, seen)
            for k in [k for k in x.header if str(k).startswith("PIXSCALE")]:
                x.header[k] = 12345.6789
            return
        if isinstance(x, dict) or type(x).__name__ == "Header" and hasattr(x, "cards"):
            for k in list(x.keys()):
                if str(k).startswith("PIXSCALE"):
                    x[k] = 12345.6789
            return
        if hasattr(x, "_array"):  # an autoarray structure / mask
            _scribble(x._array, how, seen)
            for name in ("mask", "header"):
                _scribble(getattr(x, name, None), how, seen)
            return
        for name in ("header_sci_obj", "header_hdu_obj"):  # autoarray's Header wrapper
            if hasattr(x, name):
                _scribble(getattr(x, name), how, seen)
    except Exception:
        pass


def _bits2d(mj):
    return np.array([c == "1" for c in mj["bits"]], dtype=bool).reshape(mj["h"], mj["w"])


def _cards(header):
    """the pixel-scale cards of an astropy header / dict, in order"""
    if header is None:
        return None
    return [[k, q(v)] for k, v in dict(header).items() if str(k).startswith("PIXSCALE")]


def _data_json(data):
    d = np.asarray(data)
    if d.ndim == 1:
        return qlist(d.astype("float64"))
    return [qlist(r) for r in d.astype("float64")]


def _read2d(b):
    return {
        "shape": [int(v) for v in b.shape_native],
        "native": qlist(np.asarray(b.native.array, dtype="float64").ravel()),
        "slim": qlist(np.asarray(b.slim.array, dtype="float64").ravel()),
        "mask_bits": "".join("1" if v else "0" for v in np.asarray(b.mask).ravel()),
        "scales": qlist(b.pixel_scales),
    }


def _mask_obs(m):
    arr = np.asarray(m)
    return {"h": int(arr.shape[0]), "w": int(arr.shape[1]),
            "bits": "".join("1" if v else "0" for v in arr.ravel())}


def _err_kind(e):
    if isinstance(e, FileNotFoundError):
        return "FileNotFoundError"
    if isinstance(e, (IsADirectoryError, NotADirectoryError)):
        return type(e).__name__
    if isinstance(e, OSError):
        return "exists_no_overwrite"
    raise e


# psf-like kernels whose entries are dyadic and sum to exactly 1 (normalisation is then exact)
_K1 = [Fraction(1, 8), Fraction(5, 8), Fraction(2, 8)]
_K2 = [Fraction(3, 8), Fraction(1, 8), Fraction(4, 8)]
_K5 = [Fraction(1, 16), Fraction(2, 16), Fraction(9, 16), Fraction(3, 16), Fraction(1, 16)]


def _unit_kernel(kh, kw):
    col = {1: [Fraction(1)], 3: _K1, 5: _K5}[kh]
    row = {1: [Fraction(1)], 3: _K2, 5: _K5}[kw]
    return [[a * b for b in row] for a in col]


SPECIAL = [Fraction(-1, 2 ** 40), Fraction(1, 2 ** 200), Fraction(3 * 2 ** 90), Fraction(-5 * 2 ** 300),
           Fraction(1.5e300), Fraction(-2.5e-300), Fraction(0.1), Fraction(-1e-17), Fraction(5e-324),
           Fraction(0), Fraction(-7), Fraction(123456789.123456789)]

SCALES_EXTRA = [Fraction(0.05), Fraction(0.03), Fraction(1, 1024), Fraction(7, 2), Fraction(0.1)]
# results of ordinary float arithmetic, tiny and large scales (all exact doubles)
SCALES_ODD = [Fraction(0.1 * 3), Fraction(0.1 + 0.2), Fraction(1.0 / 3.0), Fraction(0.07 * 7), Fraction(2e-9),
              Fraction(1, 2 ** 20), Fraction(1.0e6), Fraction(206264.80624709636)]

# round 4 (near-duplicate parameters): ways two numbers can be "equal for np.isclose / a 1e-8 test" and yet
# be different numbers.  (name, function(base, sign) -> (a, b))
def _card_safe(x):
    """astropy writes a float header value with at most 20 characters (longer reprs are cut): only such pixel
    scales survive the FILE header digit for digit (the in-memory HDU keeps the float itself)"""
    return len(repr(float(x))) <= 20


NEAR_KINDS = ["ulp", "ulp4", "abs1e-10", "abs4e-9", "abs9e-9", "abs2e-8", "rel1e-6", "rel1e-5", "rel2^-20",
              "float_arith", "tiny_abs", "big_ulp"]


def _near_pair(kind, base, sign=1):
    """two positive doubles, different, as close as `kind` says"""
    up = np.inf if sign > 0 else -np.inf
    if kind == "ulp":
        return base, float(np.nextafter(base, up))
    if kind == "ulp4":
        b = base
        for _ in range(4):
            b = float(np.nextafter(b, up))
        return base, b
    if kind.startswith("abs"):
        base = max(base, 0.01)
        return base, base + sign * float(kind[3:])
    if kind == "rel1e-6":
        return base, base * (1 + sign * 1e-6)
    if kind == "rel1e-5":
        return base, base * (1 + sign * 1e-5)
    if kind == "rel2^-20":
        return base, base * (1 + sign * 2.0 ** -20)
    if kind == "float_arith":
        return [(0.1 * 3, 0.3), (0.1 + 0.2, 0.3), (0.07 * 7, 0.49), (1.1 * 1.1, 1.21)][(1 if sign > 0 else 0)
                                                                                     + 2 * (base > 1)]
    if kind == "tiny_abs":  # relative difference large, absolute difference < 1e-8
        return (3e-9, 2.5e-9) if sign > 0 else (2e-9, 1e-9)
    if kind == "big_ulp":
        return 1.0e6 * max(base, 0.25), float(np.nextafter(1.0e6 * max(base, 0.25), up))
    raise ValueError(kind)


class _Invalid(Exception):
    """a history step that cannot be taken in the state reached (only met while shrinking)"""


class _HistSim:
    """Reference bookkeeping for a history case (round 4): the abstract state of the evolving object (mask,
    numbers held, storage form, pixel scales), the flip flag in force, what every path and the last HDU hold.
    `apply(step)` returns what the property demands the step to show: exactly what a freshly built object in
    the current state would write / what was written comes back, orientation and pixel scale included.
    numpy float64 arithmetic and Fractions only; never the library."""

    def __init__(self, case):
        self.obj = case["obj"]
        self.is_mask = self.obj in ("mask2d", "mask1d")
        self.is_2d = self.obj in ("array2d", "kernel2d", "mask2d")
        self.flip = bool(case["flip"])
        if self.is_2d:
            mj = case["mask"]
            self.mask = np.array([c == "1" for c in mj["bits"]], dtype=bool).reshape(mj["h"], mj["w"])
        else:
            self.mask = np.array([c == "1" for c in case["bits"]], dtype=bool)
        self.scales = [float(Fraction(v)) for v in case["scales"]]
        self.native = False
        self.held = None
        if not self.is_mask:
            vals = np.array([float(Fraction(v)) for v in case["values"]], dtype="float64")
            self._store(vals, bool(case.get("store_native")))
        self.files = {}
        self.last_hdu = None
        self.last_read = None

    # ---- state helpers
    def _store(self, slim_vals, native):
        if native:
            nat = np.zeros(self.mask.shape)
            nat[~self.mask] = slim_vals
            self.held, self.native = nat, True
        else:
            self.held, self.native = np.array(slim_vals, dtype="float64"), False

    def written_native(self):
        if self.is_mask:
            return self.mask.astype("float64")
        if self.native:
            return np.where(self.mask, 0.0, self.held)
        nat = np.zeros(self.mask.shape)
        if int((~self.mask).sum()) != self.held.size:
            raise _Invalid("slim length")
        nat[~self.mask] = self.held
        return nat

    def slim_values(self):
        return qlist(self.written_native()[~self.mask]) if not self.is_mask else []

    def scales_q(self):
        return qlist(self.scales)

    def held_size(self):
        return int(self.held.size)

    def mask_size(self):
        return int(self.mask.size)

    def user_scales(self, rng):
        if rng.random() < 0.65:
            return self.scales_q()
        if self.is_2d:
            return list(rng.choice([["1", "1"], ["1/2", "2"], ["3/4", "3/4"], ["1/4", "3"]]))
        return [rng.choice(["1", "1/2", "3"])]

    def random_mask_key(self, rng):
        if self.is_2d:
            return [rng.randrange(self.mask.shape[0]), rng.randrange(self.mask.shape[1])]
        return rng.randrange(self.mask.shape[0])

    def random_key(self, rng):
        if self.held.ndim == 2:
            return [rng.randrange(self.held.shape[0]), rng.randrange(self.held.shape[1])]
        return rng.randrange(self.held.shape[0])

    def random_masked_key(self, rng):
        if not self.native or not self.mask.any():
            return None
        pos = np.argwhere(self.mask)
        p = pos[rng.randrange(len(pos))]
        return [int(v) for v in p] if self.is_2d else int(p[0])

    def _snapshot(self):
        s = {"mask": self.mask.copy(), "scales": list(self.scales), "native": self.native}
        if not self.is_mask:
            s["held"] = self.held.copy()
        return s

    def _rec(self):
        nat = self.written_native()
        data = np.flipud(nat) if (self.flip and self.is_2d) else nat
        return {"data": np.array(data, dtype="float64"), "scales": list(self.scales), "flipw": self.flip,
                "state": self._snapshot()}

    def _hdu_obs(self, rec):
        return {"data": _data_json(rec["data"]), "header": qlist(rec["scales"])}

    def _read(self, rec, user_scales=None, invert=False):
        data = rec["data"]
        nat = np.flipud(data) if (self.flip and self.is_2d) else data
        scales = list(rec["scales"]) if user_scales is None else [float(Fraction(v)) for v in user_scales]
        if self.is_2d and len(scales) == 1:
            scales = scales * 2
        if self.obj in ("array2d", "kernel2d"):
            h, w = nat.shape
            obs = {"shape": [h, w], "native": qlist(nat.ravel()), "slim": qlist(nat.ravel()),
                   "mask_bits": "0" * (h * w), "scales": qlist(scales)}
            st = {"mask": np.zeros((h, w), dtype=bool), "scales": scales, "native": False,
                  "held": np.array(nat.ravel(), dtype="float64")}
        elif self.obj == "mask2d":
            b = nat != 0
            if invert:
                b = ~b
            h, w = b.shape
            obs = {"mask": {"h": h, "w": w, "bits": "".join("1" if v else "0" for v in b.ravel())},
                   "scales": qlist(scales)}
            st = {"mask": b.copy(), "scales": scales, "native": False}
        elif self.obj == "array1d":
            obs = {"native": qlist(nat), "scales": qlist(scales)}
            st = {"mask": np.zeros(nat.shape, dtype=bool), "scales": scales, "native": False,
                  "held": np.array(nat, dtype="float64")}
        else:
            b = nat != 0
            obs = {"bits": "".join("1" if v else "0" for v in b), "scales": qlist(scales)}
            st = {"mask": b.copy(), "scales": scales, "native": False}
        if user_scales is not None and not self.is_mask:
            obs["file_header"] = qlist(rec["scales"])
        self.last_read = st
        return obs

    # ---- one step
    def apply(self, st):
        op = st["op"]
        if op == "hdu":
            self.last_hdu = self._rec()
            return self._hdu_obs(self.last_hdu)
        if op == "hdu_data":
            if self.last_hdu is None:
                raise _Invalid("no hdu")
            return self._hdu_obs(self.last_hdu)
        if op == "read_hdu":
            if self.last_hdu is None:
                raise _Invalid("no hdu")
            return self._read(self.last_hdu)
        if op == "write":
            key = "/".join(st["path"])
            if key in self.files and not st["overwrite"]:
                return "exists_no_overwrite"
            self.files[key] = self._rec()
            return "written"
        if op == "write_hdu":
            if self.last_hdu is None:
                raise _Invalid("no hdu")
            self.files["/".join(st["path"])] = self.last_hdu
            return "written"
        if op == "read":
            rec = self.files.get("/".join(st["path"]))
            if rec is None:
                raise _Invalid("no such file")
            return self._read(rec, user_scales=st["scales"], invert=bool(st.get("invert")))
        if op == "bad_read":
            if st["what"] == "missing":
                return "FileNotFoundError"
            if "/".join(st["path"]) not in self.files:
                raise _Invalid("no such file")
            return "IndexError"
        if op == "set_flip":
            self.flip = bool(st["flip"])
            return None
        if op == "set_conf":
            # (round 5) both configuration values set at once (by item assignment or by a pushed config
            # directory).  `native_binned_only` changes how NEW objects are stored, never what is written
            self.flip = bool(st["flip"])
            return None
        if op == "decoy":
            return None
        if op == "edit":
            if self.is_mask:
                raise _Invalid("edit on a mask")
            k = st["key"]
            try:
                if isinstance(k, list):
                    if self.held.ndim != 2:
                        raise _Invalid("key")
                    self.held[k[0], k[1]] = float(Fraction(st["value"]))
                else:
                    if self.held.ndim != 1:
                        raise _Invalid("key")
                    self.held[k] = float(Fraction(st["value"]))
            except IndexError:
                raise _Invalid("key")
            return None
        if op == "edit_where":
            if self.is_mask or len(st["bits"]) != self.held.size:
                raise _Invalid("key")
            key = np.array([c == "1" for c in st["bits"]], dtype=bool).reshape(self.held.shape)
            self.held = np.where(key, float(Fraction(st["value"])), self.held)
            return None
        if op == "edit_mask":
            if not self.is_mask and not self.native:
                raise _Invalid("mask edit under a slim-stored array")
            k = st["key"]
            try:
                if isinstance(k, list):
                    self.mask[k[0], k[1]] = bool(st["value"])
                else:
                    self.mask[k] = bool(st["value"])
            except IndexError:
                raise _Invalid("key")
            return None
        if op == "derive":
            if self.is_mask:
                raise _Invalid("derive on a mask")
            how = st["how"]
            c = float(Fraction(st["c"])) if "c" in st else None
            if how in ("add", "radd"):
                self.held = self.held + c
            elif how == "sub":
                self.held = self.held - c
            elif how == "mul":
                self.held = self.held * c
            elif how == "neg":
                self.held = -self.held
            elif how in ("native", "native_add"):
                self.held, self.native = self.written_native(), True
                if how == "native_add":
                    self.held = self.held + c
            elif how == "slim":
                self.held, self.native = self.written_native()[~self.mask], False
            elif how == "copy":
                pass
            elif how == "with_new_array":
                if len(st["new"]) != self.held.size:
                    raise _Invalid("size")
                self.held = np.array([float(Fraction(v)) for v in st["new"]],
                                     dtype="float64").reshape(self.held.shape)
            elif how == "apply_mask":
                if not self.is_2d or len(st["bits"]) != self.mask.size:
                    raise _Invalid("apply_mask")
                nat = self.written_native()
                self.mask = np.array([c == "1" for c in st["bits"]], dtype=bool).reshape(self.mask.shape)
                self.held, self.native = nat[~self.mask], False
                self.scales = [float(Fraction(v)) for v in st["scales"]]
            else:
                raise _Invalid(how)
            return None
        if op == "twin":
            if "scales" in st:
                self.scales = [float(Fraction(v)) for v in st["scales"]]
            if self.is_mask:
                if "flip_bit" in st:
                    k = st["flip_bit"]
                    try:
                        if isinstance(k, list):
                            self.mask[k[0], k[1]] = not self.mask[k[0], k[1]]
                        else:
                            self.mask[k] = not self.mask[k]
                    except IndexError:
                        raise _Invalid("key")
                self.mask = self.mask.copy()
                return None
            if "values" in st:
                vals = np.array([float(Fraction(v)) for v in st["values"]], dtype="float64")
                if vals.size != int((~self.mask).sum()):
                    raise _Invalid("size")
            else:
                vals = self.written_native()[~self.mask]
            self.mask = self.mask if st.get("share_mask") else self.mask.copy()
            self._store(vals, self.native or self.held.shape == self.mask.shape)
            return None
        if op == "adopt":
            if self.last_read is None:
                raise _Invalid("nothing read")
            s = self.last_read
            self.mask, self.scales, self.native = s["mask"].copy(), list(s["scales"]), s["native"]
            if not self.is_mask:
                self.held = s["held"].copy()
            return None
        raise _Invalid(op)

    @classmethod
    def valid(cls, case):
        try:
            sim = cls(case)
            for st in case["steps"]:
                sim.apply(st)
            return True
        except (_Invalid, KeyError, ValueError, IndexError):
            return False

    # ---- the Lean model's request for a fresh object in a recorded state
    def model_request(self, rec, flip_now, read_step):
        s = rec["state"]
        mask = s["mask"]
        if self.is_mask:
            if self.is_2d:
                r = {"op": "c16.mask2d", "mask": mask_json(mask.tolist()), "scales": qlist(rec["scales"]),
                     "flip": rec["flipw"], "flip_read": bool(flip_now)}
                if read_step is not None and read_step.get("invert"):
                    r["invert"] = True
                return r
            return {"op": "c16.mask1d", "bits": "".join("1" if v else "0" for v in mask),
                    "scale": q(rec["scales"][0])}
        if s["native"]:
            nat = np.where(mask, 0.0, s["held"])
        else:
            nat = np.zeros(mask.shape)
            nat[~mask] = s["held"]
        if self.is_2d:
            r = {"op": "c16.array2d", "mask": mask_json(mask.tolist()), "values": qlist(nat[~mask]),
                 "scales": qlist(rec["scales"]), "flip": rec["flipw"], "flip_read": bool(flip_now)}
            if s["native"]:
                r["stored_native"] = qlist(s["held"].ravel())
            if read_step is not None:
                sc = list(read_step["scales"])
                r["read_scales"] = sc * 2 if len(sc) == 1 else sc
            return r
        r = {"op": "c16.array1d", "bits": "".join("1" if v else "0" for v in mask), "values": qlist(nat[~mask]),
             "scale": q(rec["scales"][0])}
        if s["native"]:
            r["stored_native"] = qlist(s["held"])
        return r


def _hist_diff(got, want):
    """None when the observation of a history step is what the property demands, else what differs"""
    if not isinstance(want, dict):
        return None if got == want else f"outcome {got!r}, expected {want!r}"
    if not isinstance(got, dict):
        return f"outcome {got!r}, expected an observation"
    for k, w in want.items():
        g = got.get(k)
        if k in ("header", "file_header"):
            dec = C16._scales_from_cards(g) if g is not None else None
            ws = [Fraction(v) for v in w]
            if dec is None or dec[: len(ws)] != ws:
                return (f"the {k} encodes pixel scales {[float(v) for v in dec] if dec else dec}, "
                        f"written {[float(v) for v in ws]}")
            continue
        if g != w:
            if k in ("data", "native", "slim"):
                return f"{k} differs: got {str(g)[:160]} expected {str(w)[:160]}"
            return f"{k} is {str(g)[:120]}, expected {str(w)[:120]}"
    return None


class C16(PropertyCheck):
    pid = "C16"
    title = "FITS round trip"
    nontrivial_rule = (
        "round-trip cases are non-trivial when the content is not invariant under a vertical flip, or the "
        "array is held in native form with non-zero values under the mask, "
        "(>= 2 rows with different content) or the shape is degenerate (1xN / Nx1) or the object is "
        "1-D; history cases when at least one call targets an existing path; reuse histories (round 4) with "
        ">= 2 observing steps; distinct = distinct case"
    )
    exhaustive_note = {
        "quick": "every shape 1..4 x 1..4 x flip x {array,kernel,mask} (one structured content each); "
                 "every 1-D mask of length <= 4 x flip",
        "thorough": "every shape 1..6 x 1..6 x flip x {array,kernel,mask}; every 1-D mask of length <= 7 x flip",
    }
    trusted_extra = [
        "astropy.io.fits (PrimaryHDU, HDUList, writeto, open): modelled as 'image data and header cards are "
        "stored and returned unchanged'; exercised on every case, never proved",
        "the operating system's filesystem (os.path.exists / os.makedirs / os.remove): modelled by the state "
        "machine Model.Fits.FS; exercised in fresh temp directories, never proved",
    ]
    modelled_functions = [
        "autoarray/structures/arrays/array_2d_util.py:hdu_for_output_from",
        "autoarray/structures/arrays/array_2d_util.py:numpy_array_2d_to_fits",
        "autoarray/structures/arrays/array_2d_util.py:numpy_array_2d_via_fits_from",
        "autoarray/structures/arrays/array_2d_util.py:header_obj_from",
        "autoarray/structures/arrays/array_1d_util.py:hdu_for_output_from",
        "autoarray/structures/arrays/array_1d_util.py:numpy_array_1d_to_fits",
        "autoarray/structures/arrays/array_1d_util.py:numpy_array_1d_via_fits_from",
        "autoarray/structures/arrays/array_1d_util.py:convert_array_1d",
        "autoarray/abstract_ndarray.py:AbstractNDArray.flip_hdu_for_ds9",
        "autoarray/abstract_ndarray.py:AbstractNDArray.pixel_scales_from_header",
        "autoarray/mask/abstract_mask.py:Mask.pixel_scale_header",
        "autoarray/structures/arrays/uniform_2d.py:AbstractArray2D.native",
        "autoarray/structures/arrays/uniform_2d.py:AbstractArray2D.hdu_for_output",
        "autoarray/structures/arrays/uniform_2d.py:AbstractArray2D.output_to_fits",
        "autoarray/structures/arrays/uniform_2d.py:Array2D.no_mask",
        "autoarray/structures/arrays/uniform_2d.py:Array2D.from_fits",
        "autoarray/structures/arrays/uniform_2d.py:Array2D.from_primary_hdu",
        "autoarray/structures/arrays/kernel_2d.py:Kernel2D.from_fits",
        "autoarray/structures/arrays/kernel_2d.py:Kernel2D.from_primary_hdu",
        "autoarray/structures/arrays/uniform_1d.py:Array1D.native",
        "autoarray/structures/arrays/uniform_1d.py:Array1D.hdu_for_output",
        "autoarray/structures/arrays/uniform_1d.py:Array1D.output_to_fits",
        "autoarray/structures/arrays/uniform_1d.py:Array1D.from_fits",
        "autoarray/structures/arrays/uniform_1d.py:Array1D.from_primary_hdu",
        "autoarray/mask/mask_2d.py:Mask2D.hdu_for_output",
        "autoarray/mask/mask_2d.py:Mask2D.output_to_fits",
        "autoarray/mask/mask_2d.py:Mask2D.from_fits",
        "autoarray/mask/mask_2d.py:Mask2D.from_primary_hdu",
        "autoarray/mask/mask_1d.py:Mask1D.hdu_for_output",
        "autoarray/mask/mask_1d.py:Mask1D.output_to_fits",
        "autoarray/mask/mask_1d.py:Mask1D.from_fits",
        "autoarray/mask/mask_1d.py:Mask1D.from_primary_hdu",
        "autoarray/dataset/imaging/dataset.py:Imaging.output_to_fits",
        "autoarray/dataset/imaging/dataset.py:Imaging.from_fits",
    ]
    assumptions = [
        "values are finite float64 numbers (NaN / inf are outside the property's 'real values')",
        "target paths are regular files or absent and their parents are directories or absent (a directory "
        "as target, or a regular file as parent, is outside the property)",
        "pixel scales are doubles whose shortest decimal form has at most 20 characters: astropy cuts longer "
        "float values when it formats a header card, so e.g. 0.0009765624999999999 comes back from a FILE's header "
        "one digit short (the in-memory HDU route is exact for every double; from_fits takes the scales from the "
        "caller, not from the header)",
    ]

    # ------------------------------------------------------------------ generation
    def _values(self, rng, n, style=None):
        # every value is an exact double, so the "p/q" strings denote exactly what is written
        return [Fraction(float(v)) for v in self._values_raw(rng, n, style)]

    def _values_raw(self, rng, n, style=None):
        if n == 0:
            return []
        style = style or rng.choice(["distinct", "distinct", "dyadic", "special", "mixed", "neardup"])
        if style == "neardup":
            # round 4: all values inside np.allclose's tolerance of one another (and of a constant array),
            # pairwise different: consecutive doubles / steps of 1e-9 relative
            b = float(rng.choice([1.0, -3.5, 0.1, 1.0e-9, 123456.789, -0.30000000000000004]))
            out = []
            for _ in range(n):
                out.append(Fraction(b))
                b = float(np.nextafter(b, np.inf)) if rng.random() < 0.6 else b * (1 + 3e-10) + 0.0
                if Fraction(b) == out[-1]:
                    b = float(np.nextafter(b, np.inf))
            rng.shuffle(out)
            return out
        if style == "distinct":
            return [Fraction(v) for v in gen.distinct_ints(rng, n)]
        if style == "dyadic":
            return [Fraction(v, 8) for v in gen.distinct_ints(rng, n, hi=40 + 3 * n)]
        if style == "special":
            return [rng.choice(SPECIAL) + (k if rng.random() < 0.3 else 0) for k in range(n)]
        vals = [Fraction(v) for v in gen.distinct_ints(rng, n)]
        for _ in range(max(1, n // 3)):
            vals[rng.randrange(n)] = rng.choice(SPECIAL)
        return vals

    def _scales(self, rng, aniso=None):
        pool = gen.SCALES + SCALES_EXTRA
        if aniso is None:
            aniso = rng.random() < 0.5
            if rng.random() < 0.22:
                # round 4: NEARLY isotropic — the two scales differ by far less than any "close enough"
                # tolerance (1 ulp … 1e-5 relative, < 1e-8 absolute) but are different numbers
                return self._near_scales(rng)
        sy = rng.choice(pool + (SCALES_ODD if rng.random() < 0.3 else []))
        sx = rng.choice([s for s in pool if s != sy]) if aniso else sy
        return [q(sy), q(sx)]

    def _near_scales(self, rng, kind=None, sign=None, swap=None):
        kind = kind or rng.choice(NEAR_KINDS)
        sign = sign if sign is not None else rng.choice([1, -1])
        swap = swap if swap is not None else rng.random() < 0.5
        pool = [float(v) for v in gen.SCALES + SCALES_EXTRA + SCALES_ODD]
        rng.shuffle(pool)
        for base in pool + [0.3, 0.25]:
            a, b = _near_pair(kind, base, sign)
            if a != b and a > 0 and b > 0 and _card_safe(a) and _card_safe(b):
                break
        else:
            a, b = 0.3, 0.1 * 3
        return [q(b), q(a)] if swap else [q(a), q(b)]

    @staticmethod
    def _safe_near(rng, x):
        """a different positive double close to x (inside np.isclose's tolerance) that a FITS card can hold"""
        kinds = ["rel1e-6", "rel1e-5", "ulp", "abs1e-10", "abs4e-9", "rel2^-20"]
        rng.shuffle(kinds)
        for kind in kinds:
            for sign in rng.sample([1, -1], 2):
                y = _near_pair(kind, x, sign)[1] if not kind.startswith("abs") else x + sign * float(kind[3:])
                if y > 0 and y != x and _card_safe(y):
                    return y
        return x * (1 + 2.0 ** -20)

    def _junk_arr_case(self, rng, m, tag, kind=None, flip=None, mode=None):
        """a MASKED array held in NATIVE form whose underlying ndarray is non-zero at masked pixels:
        `arith`  = arithmetic on a native-stored array (`a - c`: masked cells become -c);
        `skip_mask` = built with `store_native=True, skip_mask=True` from a native array with junk.
        The file / HDU must nevertheless hold zeros at the masked pixels."""
        kind = kind or rng.choice(["array2d", "array2d", "kernel2d"])
        mode = mode or ("arith" if kind == "kernel2d" else rng.choice(["arith", "skip_mask"]))
        if kind == "kernel2d":
            mode = "arith"  # Kernel2D's constructor swallows skip_mask
        n = sum(1 for r in m for b in r if not b)
        c = self._arr_case(rng, m, tag, kind=kind, flip=flip)
        # small dyadic values: (v + c) - c == v exactly in double precision
        c["values"] = qlist(self._values(rng, n, rng.choice(["distinct", "dyadic"])))
        c["store_native"] = True
        c["junk"] = mode
        c["junk_shift"] = q(rng.choice([Fraction(2), Fraction(-3, 2), Fraction(1, 4), Fraction(-7)]))
        c["junk_values"] = qlist([Fraction(rng.choice([77, -5, 1000, 3])) + Fraction(i, 2)
                                  for i in range(len(m) * len(m[0]) - n)])
        return c

    @staticmethod
    def _stored_native(case):
        """the ndarray a junk case actually holds (row-major), as exact rationals"""
        bits = case["mask"]["bits"] if "mask" in case else case["bits"]
        vals = iter(Fraction(v) for v in case["values"])
        if case["junk"] == "arith":
            shift = Fraction(case["junk_shift"])
            return [Fraction(0) - shift if b == "1" else next(vals) for b in bits]
        junk = iter(Fraction(v) for v in case["junk_values"])
        return [next(junk) if b == "1" else next(vals) for b in bits]

    def _arr_case(self, rng, m, tag, kind=None, flip=None, **kw):
        h, w = len(m), len(m[0])
        n = sum(1 for r in m for b in r if not b)
        kind = kind or rng.choice(["array2d", "kernel2d"])
        c = {"tag": tag, "kind": kind, "mask": mask_json(m), "values": qlist(self._values(rng, n)),
             "scales": self._scales(rng), "flip": rng.random() < 0.5 if flip is None else flip,
             "store_native": rng.random() < 0.4, "path_style": rng.choice(["abs", "rel", "bare", "nested"]),
             "origin": [q(gen.dyadic(rng, -4, 4, 2)), q(gen.dyadic(rng, -4, 4, 2))]}
        c.update(kw)
        return c

    def _form_arr_case(self, rng, m, tag, kind=None, flip=None):
        """the array's values supplied as an integer-dtype ndarray, a plain Python int / float list,
        float32, another structure, or through the `no_mask` / `full` constructors; scales as a bare
        float or int; optional arguments given explicitly with their falsy defaults"""
        n = sum(1 for r in m for b in r if not b)
        c = self._arr_case(rng, m, tag, kind=kind, flip=flip)
        form = rng.choice(["int64", "int_list", "float_list", "float32", "wrapped", "native_list"]
                          + (["no_mask", "full"] if not any(b for r in m for b in r) else []))
        c["in_form"] = form
        c["store_native"] = False
        if form in ("int64", "int_list"):
            c["values"] = qlist(gen.distinct_ints(rng, n)) if n else []
        elif form == "float32":
            c["values"] = qlist([Fraction(v, 8) for v in gen.distinct_ints(rng, n)]) if n else []
        elif form == "full":
            c["values"] = qlist([rng.choice([Fraction(0), Fraction(-3, 2), Fraction(7)])] * n)
        if rng.random() < 0.5:
            s = rng.choice([Fraction(1), Fraction(2), Fraction(3), Fraction(1, 2), Fraction(0.05)])
            c["scales"] = [q(s), q(s)]
            c["scales_form"] = "float"  # (a bare int is not a `ty.PixelScales`: convert_pixel_scales_2d rejects it)
        c["explicit_defaults"] = rng.random() < 0.7
        if rng.random() < 0.3:
            c["origin"] = ["0", "0"]
        return c

    def _mask_case(self, rng, m, tag, flip=None):
        h, w = len(m), len(m[0])
        c = {"tag": tag, "kind": "mask2d", "mask": mask_json(m), "scales": self._scales(rng),
             "flip": rng.random() < 0.5 if flip is None else flip, "invert": rng.random() < 0.5,
             "path_style": rng.choice(["abs", "rel", "bare", "nested"])}
        if rng.random() < 0.6:
            c["resized"] = [max(1, h + rng.randint(-2, 3)), max(1, w + rng.randint(-2, 3))]
        return c

    def _structured_mask(self, rng, h, w):
        """a mask with both values where possible and no vertical symmetry"""
        m = [[rng.random() < 0.35 for _ in range(w)] for _ in range(h)]
        if all(b for r in m for b in r):
            m[rng.randrange(h)][rng.randrange(w)] = False
        return m

    def generate(self, tier, rng):
        side = 4 if tier == "quick" else 6
        # 1. every small shape × flip × kind
        for h in range(1, side + 1):
            for w in range(1, side + 1):
                for flip in (False, True):
                    m = self._structured_mask(rng, h, w)
                    yield self._arr_case(rng, m, "shape_exh_array", kind="array2d", flip=flip)
                    yield self._arr_case(rng, gen.full(h, w, False), "shape_exh_kernel", kind="kernel2d",
                                         flip=flip)
                    yield self._mask_case(rng, self._structured_mask(rng, h, w), "shape_exh_mask", flip=flip)
                    if h * w >= 2:
                        mj = self._structured_mask(rng, h, w)
                        if not any(b for r in mj for b in r):
                            mj[rng.randrange(h)][rng.randrange(w)] = True
                        if all(b for r in mj for b in r):
                            mj[0][0] = False
                        yield self._junk_arr_case(rng, mj, "shape_exh_native_junk", flip=flip,
                                                  mode=["arith", "skip_mask"][(h + w + flip) % 2],
                                                  kind="array2d" if (h * w + flip) % 3 else "kernel2d")
        # 1b. degenerate: no unmasked pixel at all (values = []), both flips; all-zero content
        for (h, w) in ((1, 1), (2, 3), (3, 1)):
            for flip in (False, True):
                yield self._arr_case(rng, gen.full(h, w, True), "all_masked_array", kind="array2d", flip=flip)
                c = self._arr_case(rng, gen.full(h, w, False), "all_zero_array", flip=flip)
                c["values"] = ["0"] * (h * w)
                yield c
                yield self._mask_case(rng, gen.full(h, w, True), "all_masked_mask", flip=flip)
                yield self._mask_case(rng, gen.full(h, w, False), "all_unmasked_mask", flip=flip)
        # 2. random larger shapes, structured masks
        n = 60 if tier == "quick" else 500
        for _ in range(n):
            h, w = rng.randint(1, 9), rng.randint(1, 9)
            m, mk = gen.random_mask(rng, h, w)
            yield self._arr_case(rng, m, f"rand_array_{mk}")
            if rng.random() < 0.6:
                mf, mkf = gen.random_mask(rng, rng.randint(1, 6), rng.randint(1, 6),
                                          kind=rng.choice([None, None, "all"]))
                yield self._form_arr_case(rng, mf, f"form_array_{mkf}")
            if any(b for r in m for b in r) and rng.random() < 0.5:
                yield self._junk_arr_case(rng, m, f"rand_native_junk_{mk}")
            m2, mk2 = gen.random_mask(rng, rng.randint(1, 9), rng.randint(1, 9))
            yield self._mask_case(rng, m2, f"rand_mask_{mk2}")
        # 3. 1-D
        n1 = 4 if tier == "quick" else 7
        for ln in range(1, n1 + 1):
            for bits in range((1 << ln) - 1):
                mask = [bool((bits >> i) & 1) for i in range(ln)]
                nun = mask.count(False)
                for flip in (False, True):
                    yield {"tag": "1d_exh_array", "kind": "array1d", "flip": flip,
                           "bits": "".join("1" if b else "0" for b in mask),
                           "values": qlist(self._values(rng, nun)), "scale": self._scales(rng, False)[0],
                           "store_native": rng.random() < 0.4,
                           "path_style": rng.choice(["abs", "rel", "bare", "nested"])}
                    yield {"tag": "1d_exh_mask", "kind": "mask1d", "flip": flip,
                           "bits": "".join("1" if b else "0" for b in mask),
                           "scale": self._scales(rng, False)[0],
                           "path_style": rng.choice(["abs", "rel", "bare", "nested"])}
        for ln in range(1, n1 + 2):
            for form in ("int64", "int_list", "float_list", "float32", "no_mask"):
                mask = [False] * ln if form == "no_mask" else [rng.random() < 0.4 for _ in range(ln)]
                nun = mask.count(False)
                vals = gen.distinct_ints(rng, nun) if nun else []
                if form == "float32":
                    vals = [Fraction(v, 8) for v in vals]
                yield {"tag": "1d_form_array", "kind": "array1d", "flip": rng.random() < 0.5,
                       "bits": "".join("1" if b else "0" for b in mask), "values": qlist(vals),
                       "scale": self._scales(rng, False)[0], "store_native": False, "in_form": form,
                       "scale_form": rng.choice(["float", "tuple"]), "explicit_defaults": rng.random() < 0.7,
                       "path_style": rng.choice(["abs", "rel", "bare", "nested"])}
        for ln in range(2, n1 + 2):
            for _ in range(2 if tier == "quick" else 6):
                mask = [rng.random() < 0.5 for _ in range(ln)]
                if all(mask):
                    mask[rng.randrange(ln)] = False
                if not any(mask):
                    mask[rng.randrange(ln)] = True
                nun = mask.count(False)
                yield {"tag": "1d_native_junk", "kind": "array1d", "flip": rng.random() < 0.5,
                       "bits": "".join("1" if b else "0" for b in mask),
                       "values": qlist(self._values(rng, nun, "distinct")),
                       "scale": self._scales(rng, False)[0], "store_native": True,
                       "junk": rng.choice(["arith", "direct"]),
                       "junk_shift": q(rng.choice([Fraction(2), Fraction(-3, 2), Fraction(1, 4)])),
                       "junk_values": qlist([Fraction(77 + i) for i in range(ln - nun)]),
                       "path_style": rng.choice(["abs", "rel", "bare", "nested"])}
        for _ in range(20 if tier == "quick" else 150):
            ln = rng.randint(5, 14)
            mask = [rng.random() < 0.4 for _ in range(ln)]
            if all(mask):
                mask[rng.randrange(ln)] = False
            yield {"tag": "1d_rand_array", "kind": "array1d", "flip": rng.random() < 0.5,
                   "bits": "".join("1" if b else "0" for b in mask),
                   "values": qlist(self._values(rng, mask.count(False))),
                   "scale": self._scales(rng, False)[0], "store_native": rng.random() < 0.4,
                   "path_style": rng.choice(["abs", "rel", "bare", "nested"])}
        # 4. multi-HDU files
        for _ in range(25 if tier == "quick" else 200):
            k = rng.randint(2, 4)
            arrays = []
            for _ in range(k):
                h, w = rng.randint(1, 5), rng.randint(1, 5)
                m, _mk = gen.random_mask(rng, h, w)
                nun = sum(1 for r in m for b in r if not b)
                arrays.append({"mask": mask_json(m), "values": qlist(self._values(rng, nun)),
                               "scales": self._scales(rng)})
            yield {"tag": "multi_hdu", "kind": "multi_hdu", "flip": rng.random() < 0.5, "arrays": arrays,
                   "read": rng.randrange(k), "scales": self._scales(rng),
                   "reader": rng.choice(["array2d", "kernel2d"])}
        # 5. Imaging
        for _ in range(12 if tier == "quick" else 80):
            h, w = rng.randint(1, 6), rng.randint(1, 6)
            kh, kw = rng.choice([1, 3, 5]), rng.choice([1, 3, 5])
            yield {"tag": "imaging", "kind": "imaging", "flip": rng.random() < 0.5, "shape": [h, w],
                   "data": qlist(self._values(rng, h * w)),
                   "noise": qlist([Fraction(v, 4) for v in gen.distinct_ints(rng, h * w, signed=False)]),
                   "psf_shape": [kh, kw], "scales": self._scales(rng),
                   "path_style": rng.choice(["abs", "rel", "bare", "nested"]),
                   "with_psf": rng.random() < 0.8, "victim": rng.choice(["data", "psf", "noise"]),
                   # round 4: the dataset's arrays are edited in place between the failed and the overwriting call
                   **({"edit": {"data": [rng.randrange(h * w), q(Fraction(rng.randint(-99, 99), 4))],
                                "noise": [rng.randrange(h * w), q(Fraction(rng.randint(1, 99), 4))]}}
                      if rng.random() < 0.6 else {})}
        # 6. histories of output_to_fits calls
        for _ in range(80 if tier == "quick" else 800):
            yield self._history_case(rng)
        # 7. (round 4) nearly isotropic pixel scales: every way of being "close", both signs, on every writer
        k = 0
        for kind in NEAR_KINDS:
            for sign in (1, -1):
                for obj in ("array2d", "kernel2d", "mask2d"):
                    k += 1
                    h, w = rng.randint(1, 3), rng.randint(2, 3)
                    sc = self._near_scales(rng, kind=kind, sign=sign, swap=bool(k % 2))
                    if obj == "mask2d":
                        c = self._mask_case(rng, self._structured_mask(rng, h, w), "near_iso_mask", flip=bool(k & 2))
                    else:
                        c = self._arr_case(rng, self._structured_mask(rng, h, w) if obj == "array2d"
                                           else gen.full(h, w, False), "near_iso_" + obj, kind=obj, flip=bool(k & 2))
                    c["scales"] = sc
                    yield c
        for kind in NEAR_KINDS[::3]:
            arrays = []
            for j in range(2):
                m, _mk = gen.random_mask(rng, rng.randint(1, 3), rng.randint(1, 3))
                nun = sum(1 for r in m for b in r if not b)
                arrays.append({"mask": mask_json(m), "values": qlist(self._values(rng, nun)),
                               "scales": self._near_scales(rng, kind=kind)})
            yield {"tag": "near_iso_multi_hdu", "kind": "multi_hdu", "flip": rng.random() < 0.5, "arrays": arrays,
                   "read": rng.randrange(2), "scales": self._near_scales(rng), "reader": "array2d"}
        # 8. (round 4) reuse histories on real objects
        yield from self._gen_hist(tier, rng)
        # 9.-13. (round 5) decades / near-degenerate ingredients, memory layouts and containers, rarely combined
        # options, ownership histories, always-on large cases
        yield from self._gen_decades(tier, rng)
        yield from self._gen_layouts(tier, rng)
        yield from self._gen_options(tier, rng)
        yield from self._gen_own(tier, rng)
        yield from self._gen_always_big(tier, rng)

    # ================================================================== round 5: DECADES stream (R5-A, R5-E)
    # Ordinary cases with the values (the whole world) or one ingredient multiplied by 2^k — exact, so every
    # comparison stays exact —, k over the decades 2^-45 … 2^45 and, since nothing here is ever squared, out to
    # 2^±1000 (≈ 1e±301); nearly-uniform / nearly-zero / nearly flip-symmetric contents (relative differences
    # 2^-20 … 2^-44: far outside 1e-9, inside the default tolerances of np.allclose / np.isclose); pixel
    # scales over the decimal decades 1e-150 … 1e150, isotropic, nearly isotropic and anisotropic; origins far
    # from zero.  A hidden absolute tolerance, an `allclose` shortcut or an overflow shows as a wrong value.
    DEC_K = [-45, -40, -33, -27, -20, -13, -7, 7, 13, 20, 27, 33, 40, 45]
    DEC_K_EXT = [-1000, -900, -600, -498, -300, -150, -100, 100, 150, 300, 498, 600, 900, 1000]
    FAR_ORIGINS = [["100000", "-300000"], [q(Fraction(2) ** 40), q(Fraction(1, 2 ** 40))], ["-72500000", "1"],
                   [q(Fraction(1.0e5) + Fraction(1, 2)), q(Fraction(-1.0e-5))]]
    DEC_EXPS = [-150, -45, -13, -9, -6, -3, 0, 3, 6, 9, 13, 45, 150]

    @staticmethod
    def _pow2(vals, k):
        """the numbers times 2^k as exact "p/q" strings; None if one of them is not a double any more"""
        f = Fraction(2) ** k
        out = []
        for v in vals:
            x = Fraction(v) * f
            try:
                if Fraction(float(x)) != x or (x != 0 and abs(float(x)) < 2.3e-308):
                    return None
            except OverflowError:
                return None
            out.append(q(x))
        return out

    def _dec_scale_case(self, c, k):
        """values (and what a junk case holds under its mask) of an array case times 2^k"""
        v = self._pow2(c["values"], k)
        if v is None:
            return None
        c = {**c, "values": v, "decade": k}
        if c.get("junk"):
            js, jv = self._pow2([c["junk_shift"]], k), self._pow2(c["junk_values"], k)
            if js is None or jv is None:
                return None
            c["junk_shift"], c["junk_values"] = js[0], jv
        return c

    def _dec_origin(self, rng, c):
        if rng.random() < 0.6:
            c["origin"] = list(rng.choice(self.FAR_ORIGINS))
        r = rng.random()
        if r < 0.4:
            c["read_origin"] = list(rng.choice(self.FAR_ORIGINS))
        elif r < 0.6:
            c["read_origin"] = ["0", "0"]
        return c

    def _near_uniform(self, rng, n, p=None):
        """n pairwise different doubles c·(1 + j·2^-p): equal for every default `allclose`, not equal"""
        p = p or rng.choice([20, 30, 40, 44])
        c = rng.choice([Fraction(3, 2), Fraction(-5), Fraction(1), Fraction(7, 4), Fraction(-1, 8)])
        js = rng.sample(range(0, max(n, 1) + 3), n)
        return [c * (1 + Fraction(j, 2 ** p)) for j in js]

    def _near_zero(self, rng, n):
        qq = rng.choice([30, 40, 60, 200])
        out = [Fraction(rng.choice([1, -1]) * (j + 1), 2 ** qq) for j in rng.sample(range(0, n + 3), n)]
        if n >= 3 and rng.random() < 0.5:
            out[rng.randrange(n)] = Fraction(0)
        return out

    def _decimal_scales(self, rng, e, kind):
        """pixel scales at the decimal decade 10^e whose shortest repr a FITS card holds digit for digit"""
        def d(mant):
            x = float(f"{mant}e{e}")
            return x if _card_safe(x) else None
        a = d(rng.choice(["1", "2.5", "7", "1.25"]))
        if kind == "iso":
            b = a
        elif kind == "aniso":
            b = d(rng.choice(["3", "1.5", "9.75"]))
        else:  # nearly isotropic: relative difference 1e-6 … 1e-12
            a = d("1")
            b = d(rng.choice(["1.000001", "1.00000001", "1.0000000001", "1.000000000001", "0.999999999"]))
        if a is None or b is None or (kind != "iso" and a == b):
            return None
        return [q(b), q(a)] if rng.random() < 0.5 else [q(a), q(b)]

    def _gen_decades(self, tier, rng):
        quick = tier == "quick"
        reps = 1 if quick else 4

        def small_mask(kind):
            h, w = rng.randint(1, 4), rng.randint(1, 4)
            if kind == "kernel2d" and rng.random() < 0.6:
                return gen.full(h, w, False)
            return self._structured_mask(rng, h, w)

        def arr(tag, kind=None, style=None, **kw):
            kind = kind or rng.choice(["array2d", "array2d", "kernel2d"])
            m = small_mask(kind)
            c = self._arr_case(rng, m, tag, kind=kind, **kw)
            n = sum(1 for r in m for b in r if not b)
            c["values"] = qlist(self._values(rng, n, style or rng.choice(["distinct", "dyadic"])))
            return self._dec_origin(rng, c)

        # 9a. the whole world / one ingredient times 2^k
        for ks, tag in ((self.DEC_K, "dec_world"), (self.DEC_K_EXT, "dec_ext")):
            for k in ks:
                for _ in range(reps):
                    c = self._dec_scale_case(arr(tag), k)
                    if c:
                        yield c
                    m = self._structured_mask(rng, rng.randint(1, 4), rng.randint(2, 4))
                    if not any(b for r in m for b in r):
                        m[0][0] = True
                    if all(b for r in m for b in r):
                        m[0][1] = False
                    c = self._dec_scale_case(self._dec_origin(rng, self._junk_arr_case(rng, m, tag + "_junk")), k)
                    if c:
                        yield c
                    ln = rng.randint(1, 6)
                    mask = [rng.random() < 0.35 for _ in range(ln)]
                    if all(mask):
                        mask[rng.randrange(ln)] = False
                    v = self._pow2(self._values(rng, mask.count(False), "dyadic"), k)
                    if v is not None:
                        yield {"tag": tag + "_1d", "kind": "array1d", "flip": rng.random() < 0.5, "decade": k,
                               "bits": "".join("1" if b else "0" for b in mask), "values": v,
                               "scale": self._scales(rng, False)[0], "store_native": rng.random() < 0.5,
                               "path_style": rng.choice(["abs", "rel", "bare", "nested"])}
        # 9b. every value at its own decade
        for _ in range(6 * reps):
            c = arr("dec_mixed")
            vals = []
            for v in c["values"]:
                vv = self._pow2([v], rng.choice(self.DEC_K + self.DEC_K_EXT + [0, 0]))
                vals.append(vv[0] if vv else v)
            c["values"] = vals
            yield c
        # 9c. nearly uniform / nearly zero / nearly flip-symmetric contents at several decades
        for k in [0, -40, -20, 20, 40, -900, 900]:
            for _ in range(reps):
                for what in ("uniform", "zero", "flipsym"):
                    kind = rng.choice(["array2d", "kernel2d"])
                    if what == "flipsym":
                        h, w = rng.choice([2, 3, 4]), rng.randint(1, 3)
                        half = [[Fraction(v, 4) for v in gen.distinct_ints(rng, w)] for _ in range((h + 1) // 2)]
                        rows = [half[min(y, h - 1 - y)][:] for y in range(h)]
                        y, x = rng.randrange(h), rng.randrange(w)
                        rows[y][x] = rows[y][x] * (1 + Fraction(rng.choice([1, -1]), 2 ** rng.choice([20, 30, 40])))
                        if h % 2 == 1 and y == h // 2:  # the middle row is its own mirror image
                            y2 = 0
                            rows[y2][x] = rows[y2][x] * (1 + Fraction(1, 2 ** 30))
                        c = self._arr_case(rng, gen.full(h, w, False), "dec_near_flipsym", kind=kind,
                                           flip=rng.random() < 0.7)
                        c["values"] = qlist([v for r in rows for v in r])
                    else:
                        m = small_mask(kind)
                        n = sum(1 for r in m for b in r if not b)
                        c = self._arr_case(rng, m, "dec_near_" + what, kind=kind)
                        c["values"] = qlist(self._near_uniform(rng, n) if what == "uniform"
                                            else self._near_zero(rng, n))
                    c = self._dec_scale_case(c, k if what != "zero" else (k if abs(k) < 100 else 0))
                    if c:
                        yield self._dec_origin(rng, c)
            ln = rng.randint(2, 7)
            mask = [rng.random() < 0.3 for _ in range(ln)]
            if all(mask):
                mask[0] = False
            v = self._pow2(self._near_uniform(rng, mask.count(False)) if rng.random() < 0.5
                           else self._near_zero(rng, mask.count(False)), k if abs(k) < 100 else 0)
            if v is not None:
                yield {"tag": "dec_near_1d", "kind": "array1d", "flip": rng.random() < 0.5,
                       "bits": "".join("1" if b else "0" for b in mask), "values": v,
                       "scale": self._scales(rng, False)[0], "store_native": rng.random() < 0.5,
                       "path_style": rng.choice(["abs", "rel", "bare", "nested"])}
        # 9d. pixel scales over the decimal decades
        k = 0
        for e in self.DEC_EXPS:
            for pk in ("iso", "near", "aniso"):
                for _ in range(reps):
                    sc = self._decimal_scales(rng, e, pk)
                    if sc is None:
                        continue
                    k += 1
                    obj = ["array2d", "mask2d", "kernel2d"][k % 3]
                    h, w = rng.randint(1, 3), rng.randint(1, 3)
                    if obj == "mask2d":
                        c = self._mask_case(rng, self._structured_mask(rng, h, w), "dec_scales_mask")
                    else:
                        c = self._dec_origin(rng, self._arr_case(
                            rng, self._structured_mask(rng, h, w) if obj == "array2d" else gen.full(h, w, False),
                            "dec_scales_" + obj, kind=obj))
                    c["scales"] = sc
                    yield c
            s1 = self._decimal_scales(rng, e, "iso")
            if s1:
                ln = rng.randint(1, 4)
                yield {"tag": "dec_scales_1d", "kind": rng.choice(["array1d", "mask1d"]), "flip": rng.random() < 0.5,
                       "bits": "0" * ln, "values": qlist(self._values(rng, ln, "dyadic")), "scale": s1[0],
                       "store_native": False, "path_style": "abs"}
        for e in (-150, -9, 9, 150):
            arrays = []
            for j in range(2):
                m, _mk = gen.random_mask(rng, rng.randint(1, 3), rng.randint(1, 3))
                nun = sum(1 for r in m for b in r if not b)
                arrays.append({"mask": mask_json(m), "values": qlist(self._values(rng, nun, "dyadic")),
                               "scales": self._decimal_scales(rng, e, "near") or ["1", "1"]})
            yield {"tag": "dec_scales_multi_hdu", "kind": "multi_hdu", "flip": rng.random() < 0.5, "arrays": arrays,
                   "read": rng.randrange(2), "scales": self._decimal_scales(rng, e, "aniso") or ["1", "2"],
                   "reader": "array2d"}
        # 9e. Imaging at the decades: data and noise map scaled independently, nearly uniform noise maps
        for kd, kn in [(-45, 45), (40, -33), (-1000, 900), (600, -600), (0, -20), (-498, -498)] * reps:
            h, w = rng.randint(1, 5), rng.randint(1, 5)
            kh, kw = rng.choice([1, 3]), rng.choice([1, 3])
            data = self._pow2(self._values(rng, h * w, "dyadic"), kd)
            noise = self._pow2(self._near_uniform(rng, h * w, p=rng.choice([20, 30, 40])) if rng.random() < 0.6
                               else [Fraction(v, 4) for v in gen.distinct_ints(rng, h * w, signed=False)], kn)
            if data is None or noise is None:
                continue
            noise = [q(abs(Fraction(v))) for v in noise]
            yield {"tag": "dec_imaging", "kind": "imaging", "flip": rng.random() < 0.5, "shape": [h, w],
                   "data": data, "noise": noise, "psf_shape": [kh, kw], "scales": self._scales(rng),
                   "path_style": rng.choice(["abs", "rel", "bare", "nested"]), "with_psf": rng.random() < 0.7,
                   "victim": rng.choice(["data", "psf", "noise"])}

    # ================================================================== round 5: LAYOUT stream (R5-C)
    def _layout_values(self, rng, n, vform):
        if vform in ("uint8", "uint16"):
            return [Fraction(v) for v in rng.sample(range(0, 201), n)] if n else []
        if vform in ("int64", "int32", "int16", "bigendian_i4"):
            return [Fraction(v) for v in gen.distinct_ints(rng, n)] if n else []
        return [Fraction(v, 8) for v in gen.distinct_ints(rng, n)] if n else []

    def _gen_layouts(self, tier, rng):
        reps = 1 if tier == "quick" else 3
        k = 0
        for _ in range(reps):
            for vform in LAYOUT_FLOAT + LAYOUT_DTYPE:
                for native_input in (True, False):
                    if not native_input and vform in ("fortran", "transposed"):
                        continue  # a 1-D slim vector has one layout
                    for store_native in (True, False):
                        k += 1
                        kind = "kernel2d" if k % 4 == 0 else "array2d"
                        h, w = rng.choice([(1, 1), (1, 3), (3, 1), (2, 3), (3, 2), (3, 4), (4, 3), (2, 2)])
                        m = self._structured_mask(rng, h, w)
                        n = sum(1 for r in m for b in r if not b)
                        c = self._arr_case(rng, m, f"lay_{kind}_{vform}", kind=kind, flip=bool(k % 2))
                        c["values"] = qlist(self._layout_values(rng, n, vform))
                        c["store_native"] = store_native
                        c["layout"] = {"v": vform, "m": MASK_FORMS_2D[k % len(MASK_FORMS_2D)] if k % 3 else None,
                                       "native_input": native_input}
                        if k % 7 == 0:
                            c["layout"]["ctor"] = "wrapped_native" if native_input else "skip_mask"
                        elif k % 11 == 0:
                            c["layout"]["ctor"] = "skip_mask"
                        if vform == "list" and not native_input and n == 0:
                            continue  # an empty python list has no dtype to speak of
                        if rng.random() < 0.3:
                            s = rng.choice([Fraction(1), Fraction(3, 2), Fraction(0.05)])
                            c["scales"] = [q(s), q(s)]
                            c["scales_form"] = "float"
                        c["via_open"] = True
                        yield c
            for i, mform in enumerate(MASK_FORMS_2D):
                for flip in (False, True):
                    h, w = rng.choice([(1, 1), (1, 3), (3, 1), (2, 3), (3, 2), (3, 4)])
                    c = self._mask_case(rng, self._structured_mask(rng, h, w), "lay_mask2d_" + mform, flip=flip)
                    c["mask_form"] = mform
                    c["via_open"] = True
                    yield c
            for vform in [f for f in LAYOUT_FLOAT + LAYOUT_DTYPE if f not in ("fortran", "transposed")]:
                for native_input in (True, False):
                    k += 1
                    ln = rng.randint(1, 6)
                    mask = [rng.random() < 0.4 for _ in range(ln)]
                    if all(mask):
                        mask[rng.randrange(ln)] = False
                    n = mask.count(False)
                    if vform == "list" and not native_input and n == 0:
                        continue
                    c = {"tag": "lay_array1d_" + vform, "kind": "array1d", "flip": bool(k % 2),
                         "bits": "".join("1" if b else "0" for b in mask),
                         "values": qlist(self._layout_values(rng, n, vform)),
                         "scale": self._scales(rng, False)[0], "store_native": bool(k % 3 == 0),
                         "layout": {"v": vform, "m": MASK_FORMS_1D[k % len(MASK_FORMS_1D)] if k % 2 else None,
                                    "native_input": native_input},
                         "scale_form": rng.choice(["float", "tuple"]), "via_open": True,
                         "path_style": rng.choice(["abs", "rel", "bare", "nested"])}
                    if k % 5 == 0:
                        c["layout"]["ctor"] = "wrapped"
                    yield c
            for mform in MASK_FORMS_1D:
                ln = rng.randint(1, 6)
                mask = [rng.random() < 0.5 for _ in range(ln)]
                yield {"tag": "lay_mask1d_" + mform, "kind": "mask1d", "flip": rng.random() < 0.5,
                       "bits": "".join("1" if b else "0" for b in mask), "scale": self._scales(rng, False)[0],
                       "mask_form": mform, "scale_form": rng.choice(["float", "tuple"]), "via_open": True,
                       "path_style": rng.choice(["abs", "rel", "bare", "nested"])}

    # ================================================================== round 5: OPTIONS stream (R5-F)
    # The optional parameters of the readers / constructors the property names, crossed with one another (full
    # cross where it is small, pairwise otherwise), including explicit falsy values; the parameter lists are
    # taken from the signatures at run time, so an option added later is at least passed at its default.
    @staticmethod
    def _pow2_sum_values(rng, n):
        """n non-zero dyadic values whose sum is a positive power of two (so that normalising them is exact)"""
        if n == 0:
            return []
        for _ in range(50):
            vals = [Fraction(rng.choice([1, 2, 3, 5, 6, 7, -1, -2, 9, 11]), 8) for _ in range(n - 1)]
            tot = rng.choice([Fraction(1, 2), Fraction(1), Fraction(2), Fraction(4), Fraction(8)])
            last = tot - sum(vals, Fraction(0))
            if last != 0:
                return vals + [last]
        return [Fraction(1)] + [Fraction(0)] * (n - 1)

    def _gen_options(self, tier, rng):
        quick = tier == "quick"
        # 11a. Mask2D.from_fits: hdu x invert x resized_mask_shape x origin x flip x constructor `invert`
        for hdu in (0, 1, 2):
            for invert in (None, False, True):
                for resized in (False, True):
                    for origin in (None, ["0", "0"], self.FAR_ORIGINS[hdu]):
                        for flip in (False, True):
                            if quick and rng.random() < 0.45:
                                continue
                            masks = []
                            for j in range(3):
                                h, w = rng.randint(1, 4), rng.randint(1, 4)
                                masks.append({"mask": mask_json(self._structured_mask(rng, h, w)),
                                              "scales": self._scales(rng), "ctor_invert": rng.random() < 0.4})
                            mh, mw = masks[hdu]["mask"]["h"], masks[hdu]["mask"]["w"]
                            opts = {"hdu": hdu}
                            if invert is not None:
                                opts["invert"] = invert
                            if origin is not None:
                                opts["origin"] = origin
                            if resized:
                                opts["resized_mask_shape"] = [max(1, mh + rng.randint(-2, 3)),
                                                              max(1, mw + rng.randint(-2, 3))]
                            elif rng.random() < 0.3:
                                opts["resized_mask_shape"] = None
                            yield {"tag": "opt_mask2d", "kind": "opt_mask2d", "flip": flip, "masks": masks,
                                   "scales": self._scales(rng), "opts": opts, "explicit_all": rng.random() < 0.3,
                                   "path_style": rng.choice(["abs", "rel"])}
        # 11b. Kernel2D: constructor normalize x store_native x flip x reader normalize x constructor route
        for ctor in ("init", "no_mask"):
            for ctor_norm in (None, False, True):
                for store_native in (False, True):
                    for read_norm in (None, False, True):
                        for flip in (False, True):
                            if quick and rng.random() < 0.4:
                                continue
                            h, w = rng.randint(1, 4), rng.randint(1, 4)
                            m = gen.full(h, w, False) if ctor == "no_mask" or rng.random() < 0.4 \
                                else self._structured_mask(rng, h, w)
                            n = sum(1 for r in m for b in r if not b)
                            if n == 0:
                                continue
                            c = {"tag": "opt_kernel", "kind": "opt_kernel", "flip": flip, "mask": mask_json(m),
                                 "values": qlist(self._pow2_sum_values(rng, n)), "scales": self._scales(rng),
                                 "store_native": store_native, "ctor": ctor,
                                 "path_style": rng.choice(["abs", "rel", "bare", "nested"])}
                            if ctor_norm is not None:
                                c["ctor_normalize"] = ctor_norm
                            if read_norm is not None:
                                c["read_normalize"] = read_norm
                            if rng.random() < 0.3:
                                c["read_origin"] = list(rng.choice(self.FAR_ORIGINS + [["0", "0"]]))
                            yield c
        # 11c. Imaging: psf / use_normalized_psf / check_noise_map / which paths are given / hdu indices
        combos = [(wp, unp, unit, cnm, pp, npth, route)
                  for wp in (True, False) for unp in (None, True, False) for unit in (True, False)
                  for cnm in (None, True, False) for pp in (True, False) for npth in (True, False)
                  for route in ("separate", "combined")]
        rng.shuffle(combos)
        for (wp, unp, unit, cnm, pp, npth, route) in combos[: (36 if quick else len(combos))]:
            h, w = rng.randint(1, 4), rng.randint(1, 4)
            kh, kw = rng.choice([1, 3]), rng.choice([1, 3])
            noise = [Fraction(v, 4) for v in gen.distinct_ints(rng, h * w, signed=False)]
            if cnm is False and rng.random() < 0.7:
                noise[rng.randrange(h * w)] = rng.choice([Fraction(0), Fraction(-3, 4)])
            c = {"tag": "opt_imaging", "kind": "opt_imaging", "flip": rng.random() < 0.5, "shape": [h, w],
                 "data": qlist(self._values(rng, h * w, rng.choice(["distinct", "dyadic", "special"]))),
                 "noise": qlist(noise), "scales": self._scales(rng), "psf_path": pp, "noise_path": npth,
                 "route": route, "hdus": rng.sample(range(5), 3),
                 "path_style": rng.choice(["abs", "rel", "bare", "nested"])}
            if wp:
                vals = [v for r in _unit_kernel(kh, kw) for v in r] if unit \
                    else self._pow2_sum_values(rng, kh * kw)
                c["psf"] = {"shape": [kh, kw], "values": qlist(vals)}
            if unp is not None:
                c["use_normalized_psf"] = unp
            if cnm is not None:
                c["check_noise_map"] = cnm
            yield c
        # 11d. 1-D readers: hdu index x origin x constructor `invert`
        for _ in range(14 if quick else 60):
            items = []
            for j in range(rng.randint(2, 4)):
                ln = rng.randint(1, 5)
                mask = [rng.random() < 0.4 for _ in range(ln)]
                if all(mask):
                    mask[rng.randrange(ln)] = False
                kind = rng.choice(["array1d", "mask1d"])
                it = {"kind": kind, "bits": "".join("1" if b else "0" for b in mask),
                      "scale": self._scales(rng, False)[0]}
                if kind == "array1d":
                    it["values"] = qlist(self._values(rng, mask.count(False), "dyadic"))
                    it["store_native"] = rng.random() < 0.5
                else:
                    it["ctor_invert"] = rng.random() < 0.5
                items.append(it)
            opts = {"hdu": rng.randrange(len(items))}
            if rng.random() < 0.5:
                opts["origin"] = rng.choice([["0"], ["100000"], [q(Fraction(1, 2 ** 40))]])
            yield {"tag": "opt_1d", "kind": "opt_1d", "flip": rng.random() < 0.5, "items": items, "opts": opts,
                   "scale": self._scales(rng, False)[0], "explicit_all": rng.random() < 0.3,
                   "path_style": rng.choice(["abs", "rel"])}

    # ================================================================== round 5: OWNERSHIP stream (R5-B)
    def _gen_own(self, tier, rng):
        """observe -> scribble in place over every array / HDU / header the API returned or was given -> rebuild
        the same world from fresh equal inputs (same paths, overwrite) -> observe; three rounds.  Every round is
        compared with the model's value for a fresh world."""
        n = 8 if tier == "quick" else 60
        bases = []
        for _ in range(n):
            h, w = rng.randint(1, 4), rng.randint(1, 4)
            m = self._structured_mask(rng, h, w)
            bases.append(self._arr_case(rng, m, "x"))
            mj = self._structured_mask(rng, rng.randint(1, 3), rng.randint(2, 4))
            if not any(b for r in mj for b in r):
                mj[0][0] = True
            if all(b for r in mj for b in r):
                mj[0][1] = False
            bases.append(self._junk_arr_case(rng, mj, "x"))
            bases.append(self._mask_case(rng, self._structured_mask(rng, h, w), "x"))
            ln = rng.randint(1, 6)
            mask = [rng.random() < 0.4 for _ in range(ln)]
            if all(mask):
                mask[rng.randrange(ln)] = False
            bits = "".join("1" if b else "0" for b in mask)
            bases.append({"kind": "array1d", "flip": rng.random() < 0.5, "bits": bits,
                          "values": qlist(self._values(rng, mask.count(False))), "scale": self._scales(rng, False)[0],
                          "store_native": rng.random() < 0.5,
                          "path_style": rng.choice(["abs", "rel", "bare", "nested"])})
            bases.append({"kind": "mask1d", "flip": rng.random() < 0.5, "bits": bits,
                          "scale": self._scales(rng, False)[0],
                          "path_style": rng.choice(["abs", "rel", "bare", "nested"])})
        for _ in range(max(3, n // 2)):
            arrays = []
            for _j in range(rng.randint(2, 3)):
                m, _mk = gen.random_mask(rng, rng.randint(1, 3), rng.randint(1, 3))
                nun = sum(1 for r in m for b in r if not b)
                arrays.append({"mask": mask_json(m), "values": qlist(self._values(rng, nun)),
                               "scales": self._scales(rng)})
            bases.append({"kind": "multi_hdu", "flip": rng.random() < 0.5, "arrays": arrays,
                          "read": rng.randrange(len(arrays)), "scales": self._scales(rng),
                          "reader": rng.choice(["array2d", "kernel2d"])})
            h, w = rng.randint(1, 4), rng.randint(1, 4)
            bases.append({"kind": "imaging", "flip": rng.random() < 0.5, "shape": [h, w],
                          "data": qlist(self._values(rng, h * w)),
                          "noise": qlist([Fraction(v, 4) for v in gen.distinct_ints(rng, h * w, signed=False)]),
                          "psf_shape": [rng.choice([1, 3]), rng.choice([1, 3])], "scales": self._scales(rng),
                          "path_style": rng.choice(["abs", "rel", "bare", "nested"]), "with_psf": rng.random() < 0.8,
                          "victim": rng.choice(["data", "psf", "noise"])})
        for b in bases:
            b.pop("tag", None)
            b["via_open"] = b["kind"] in ("array2d", "kernel2d", "mask2d", "array1d", "mask1d") and rng.random() < 0.5
            yield {"tag": "own_" + b["kind"], "kind": "own", "flip": b["flip"], "base": b,
                   "scribble": [rng.choice(["nan", "inc"]) for _ in range(3)]}

    # ================================================================== round 5: always-on LARGE cases (R5-E)
    def _big_case(self, rng, obj, h, w, dim, **kw):
        one_d = obj in ("array1d", "mask1d")
        case = {"tag": f"always_large_{dim}", "kind": "big", "obj": obj, "h": h, "w": w, "dim": dim, "hint": 0,
                "size": h * w, "flip": kw.pop("flip", True),
                "mask_rule": kw.pop("mask_rule", {"rule": "rand", "seed": rng.randrange(1 << 30), "p": "3/10"}),
                "vseed": rng.randrange(1 << 30),
                "scales": [self._scales(rng, False)[0]] if one_d else self._scales(rng),
                "store_native": kw.pop("store_native", True), "path_style": rng.choice(["abs", "rel"]),
                "lean": True}
        case.update(kw)
        return case

    def _gen_always_big(self, tier, rng):
        """one or two cases beyond 2^16 elements / 2^15 rows in EVERY run (not only when the source gained an
        integer constant): judged by the vectorised exact oracle of the large stream"""
        a = rng.randint(251, 262)
        yield self._big_case(rng, "array2d", a, (70000 // a) + rng.randint(1, 9), "pixels_hxw")
        yield self._big_case(rng, "array1d", 1, 66000 + rng.randint(1, 999), "len1d")
        if tier != "quick":
            yield self._big_case(rng, "array2d", 33000 + rng.randint(1, 99), 2, "rows", flip=True)
            yield self._big_case(rng, "array2d", 2, 33000 + rng.randint(1, 99), "cols", flip=True)
            yield self._big_case(rng, "mask2d", 300 + rng.randint(1, 9), 230, "pixels_hxw")
            yield self._big_case(rng, "kernel2d", 263, 257, "pixels_hxw", mask_rule={"rule": "none"})
            yield self._big_case(rng, "array2d", 270, 259, "pixels_hxw_junk", junk="arith")
            yield self._big_case(rng, "mask1d", 1, 70001, "len1d")

    PATHS = [["a.fits"], ["b.fits"], ["d1", "a.fits"], ["d1", "b.fits"], ["d1", "d2", "a.fits"],
             ["d3", "d4", "d5", "c.fits"], ["d1", "d2", "c.fits"], ["d6", "a.fits"]]

    def _history_case(self, rng):
        pool = rng.sample(self.PATHS, rng.randint(2, 4))
        init_dirs = []
        for d in ([["d1"]], [["d1"], ["d1", "d2"]], [], [["d6"]], [["d3"]]):
            if rng.random() < 0.3:
                init_dirs = d
                break
        steps = []
        cid = 1
        init_files = []
        for p in pool:
            if rng.random() < 0.25 and all(p[:k] in init_dirs for k in range(1, len(p))):
                init_files.append([p, cid])
                cid += 1
        for _ in range(rng.randint(2, 7)):
            steps.append({"path": rng.choice(pool), "overwrite": rng.random() < 0.5, "content": cid,
                          "writer": rng.choice(["array2d", "array2d", "mask2d", "kernel2d", "array1d", "mask1d"])})
            cid += 1
        return {"tag": "fs_history", "kind": "fs_history", "flip": rng.random() < 0.5,
                "dirs": init_dirs, "files": init_files, "steps": steps,
                "path_style": rng.choice(["abs", "rel"])}

    # ================================================================== round 4: HISTORY stream
    # A history case drives ONE evolving object (Array2D / Kernel2D / Mask2D / Array1D / Mask1D) through a
    # typed sequence of public-API steps; every observing step is compared with what a FRESH object in the
    # state reached so far must give (`_HistSim`, numpy/Fractions only — never the code under test) and with
    # the Lean model's answer for that fresh object.
    HIST_PATHS = [["a.fits"], ["b.fits"], ["d1", "a.fits"], ["d1", "d2", "c.fits"], ["e.fits"]]

    def _hist_base(self, rng, obj, tag, small=True):
        flip = rng.random() < 0.5
        c = {"tag": tag, "kind": "hist", "obj": obj, "flip": flip, "path_style": rng.choice(["abs", "rel"])}
        if obj in ("array1d", "mask1d"):
            ln = rng.randint(2, 6)
            mask = [rng.random() < 0.35 for _ in range(ln)]
            if all(mask):
                mask[rng.randrange(ln)] = False
            if obj == "array1d" and not any(mask) and rng.random() < 0.7:
                mask[rng.randrange(ln)] = True
            c["bits"] = "".join("1" if b else "0" for b in mask)
            c["scales"] = [self._scales(rng, False)[0]]
            if obj == "array1d":
                c["values"] = qlist(self._values(rng, mask.count(False), rng.choice(["distinct", "dyadic"])))
                c["store_native"] = rng.random() < 0.5
            return c
        h, w = rng.randint(1, 4), rng.randint(1, 4)
        if h * w == 1:
            h = 2
        if obj == "kernel2d" and rng.random() < 0.5:
            m = gen.full(h, w, False)
        else:
            m = self._structured_mask(rng, h, w)
            if not any(b for r in m for b in r) and rng.random() < 0.7:
                m[rng.randrange(h)][rng.randrange(w)] = True
            if all(b for r in m for b in r):
                m[0][0] = False
        c["mask"] = mask_json(m)
        c["scales"] = self._scales(rng)
        if obj != "mask2d":
            n = sum(1 for r in m for b in r if not b)
            c["values"] = qlist(self._values(rng, n, rng.choice(["distinct", "dyadic"])))
            c["store_native"] = rng.random() < 0.5
        return c

    def _perturbed(self, rng, vals, how=None):
        """near-duplicate of a list of doubles: inside np.allclose's default tolerance (rtol 1e-5, atol 1e-8),
        far outside the property's exactness"""
        how = how or rng.choice(["rel1e-6_all", "rel1e-6_one", "ulp_one", "abs1e-10_one", "rel1e-5_some"])
        out = [float(Fraction(v)) for v in vals]
        idx = list(range(len(out)))
        if not idx:
            return []
        if how.endswith("_one"):
            idx = [rng.randrange(len(out))]
        elif how.endswith("_some"):
            idx = [i for i in idx if rng.random() < 0.5] or [0]
        for i in idx:
            v = out[i]
            if how.startswith("rel1e-6"):
                nv = v * (1 + 1e-6) if v != 0 else 1e-10
            elif how.startswith("rel1e-5"):
                nv = v * (1 - 9e-6) if v != 0 else -1e-10
            elif how.startswith("ulp"):
                nv = float(np.nextafter(v, np.inf))
            else:
                nv = v + 1e-10
            out[i] = nv
        return qlist(out)

    def _hist_case(self, rng, theme=None, obj=None):
        theme = theme or rng.choice([t for t in self.HIST_THEMES if t != "config"])
        if obj is None:
            obj = rng.choice(["array2d", "array2d", "array2d", "kernel2d", "mask2d", "array1d", "mask1d"])
        if theme in ("derive", "junk_routes") and obj in ("mask2d", "mask1d"):
            obj = "array2d"
        c = self._hist_base(rng, obj, "hist_" + theme)
        sim = _HistSim(c)
        steps = []

        def add(**st):
            steps.append(st)
            sim.apply(st)

        P = [list(p) for p in rng.sample(self.HIST_PATHS, 3)]
        is_mask = obj in ("mask2d", "mask1d")
        is_2d = obj in ("array2d", "kernel2d", "mask2d")

        def rd(path, **kw):
            st = {"op": "read", "path": path}
            st["scales"] = kw.pop("scales", None) or sim.user_scales(rng)
            if obj == "mask2d" and rng.random() < 0.4:
                st["invert"] = True
            st.update(kw)
            add(**st)

        def edit():
            if is_mask:
                add(op="edit_mask", key=sim.random_mask_key(rng), value=rng.random() < 0.5)
            elif rng.random() < 0.25:
                add(op="edit_where", bits="".join(rng.choice("01") for _ in range(sim.held_size())),
                    value=q(Fraction(rng.randint(-60, 60), 4)))
            else:
                add(op="edit", key=sim.random_key(rng), value=q(Fraction(rng.randint(-200, 200), 8)))

        def twin(what=None):
            what = what or rng.choice(["values", "scales", "both"] if not is_mask else ["scales", "bits"])
            st = {"op": "twin", "share_mask": rng.random() < 0.6}
            if what in ("values", "both"):
                st["values"] = self._perturbed(rng, sim.slim_values())
            if what in ("scales", "both"):
                sc = [float(Fraction(v)) for v in sim.scales_q()]
                k = rng.randrange(len(sc))
                sc[k] = self._safe_near(rng, sc[k])
                st["scales"] = qlist(sc)
                st["share_mask"] = False
            if what == "bits":
                st["flip_bit"] = sim.random_mask_key(rng)
                st["share_mask"] = False
            add(**st)

        def derive(how=None):
            if is_mask:
                return
            how = how or rng.choice(["add", "sub", "mul", "neg", "native", "slim", "copy", "with_new_array",
                                     "radd", "apply_mask", "native_add"])
            if how == "apply_mask" and not is_2d:
                how = "add"
            st = {"op": "derive", "how": how}
            if how in ("add", "sub", "radd", "native_add"):
                st["c"] = q(Fraction(rng.choice([2, -3, 5, 12, -1]), rng.choice([1, 2, 4])))
            elif how == "mul":
                st["c"] = q(rng.choice([Fraction(2), Fraction(-1, 2), Fraction(4), Fraction(3)]))
            elif how == "with_new_array":
                st["new"] = qlist([Fraction(rng.randint(-99, 99), 4) for _ in range(sim.held_size())])
            elif how == "apply_mask":
                bits = [rng.random() < 0.4 for _ in range(sim.mask_size())]
                if all(bits):
                    bits[rng.randrange(len(bits))] = False
                st["bits"] = "".join("1" if b else "0" for b in bits)
                st["scales"] = self._scales(rng)
            add(**st)

        if theme == "edit_rewrite":
            add(op="hdu")
            add(op="write", path=P[0], overwrite=False)
            rd(P[0])
            edit()
            add(op="hdu")
            add(op="read_hdu")
            add(op="write", path=P[0], overwrite=True)
            rd(P[0])
            if rng.random() < 0.5:
                edit()
            add(op="write", path=P[1], overwrite=rng.random() < 0.5)
            rd(P[1])
            rd(P[0])
        elif theme == "twin":
            if rng.random() < 0.5:
                add(op="decoy")
            add(op="hdu")
            add(op="read_hdu")
            add(op="write", path=P[0], overwrite=False)
            rd(P[0])
            twin()
            add(op="hdu")
            add(op="read_hdu")
            add(op="write", path=P[0], overwrite=True)
            rd(P[0])
            sc = sim.user_scales(rng)
            rd(P[0], scales=sc)
            # the same read again with the user-supplied scales perturbed inside np.allclose's tolerance
            sc2 = [float(Fraction(v)) for v in sc]
            sc2[rng.randrange(len(sc2))] *= (1 + rng.choice([1e-6, -1e-6, 9e-6]))
            rd(P[0], scales=qlist(sc2))
            twin()
            add(op="write", path=P[1], overwrite=False)
            rd(P[1])
            add(op="hdu")
        elif theme == "fault_reuse":
            add(op="write", path=P[0], overwrite=False)
            add(op="write", path=P[0], overwrite=False)  # must fail: the target exists
            add(op="hdu")
            add(op="read_hdu")
            add(op="bad_read", what="missing")
            rd(P[0])
            if not is_mask:
                edit()
            add(op="write", path=P[0], overwrite=False)  # fails again; the object was edited in between
            add(op="write", path=P[1], overwrite=False)
            rd(P[1])
            add(op="bad_read", what="hdu_index", path=P[1])
            rd(P[1])
            rd(P[0])
            add(op="write", path=P[0], overwrite=True)
            rd(P[0])
            add(op="hdu")
        elif theme == "two_flips":
            add(op="hdu")
            add(op="set_flip", flip=not sim.flip)
            add(op="read_hdu")
            add(op="hdu")
            add(op="write", path=P[0], overwrite=False)
            add(op="set_flip", flip=not sim.flip)
            rd(P[0])
            add(op="read_hdu")
            add(op="write", path=P[1], overwrite=False)
            add(op="hdu")
            add(op="set_flip", flip=not sim.flip)
            rd(P[1])
            rd(P[0])
            add(op="read_hdu")
        elif theme == "decoy_order":
            add(op="decoy")
            if rng.random() < 0.5:
                add(op="write", path=P[0], overwrite=False)
                add(op="hdu")
            else:
                add(op="hdu")
                add(op="write", path=P[0], overwrite=False)
            rd(P[0])
            add(op="read_hdu")
            add(op="decoy")
            edit()
            add(op="hdu")
            add(op="write", path=P[1], overwrite=False)
            rd(P[1])
        elif theme == "derive":
            for _ in range(rng.randint(2, 4)):
                if rng.random() < 0.5:
                    add(op="decoy")
                derive()
                add(op="hdu")
                if rng.random() < 0.5:
                    add(op="read_hdu")
            add(op="write", path=P[0], overwrite=False)
            rd(P[0])
            derive()
            add(op="write", path=P[0], overwrite=True)
            rd(P[0])
        elif theme == "junk_routes":
            # every way a masked array held in native form gets non-zero numbers under its mask
            if not sim.native:
                add(op="derive", how="native")
            how = rng.choice(["add", "sub", "radd", "with_new_array", "edit_masked", "edit_where", "neg_add"])
            if how == "edit_masked":
                k = sim.random_masked_key(rng)
                if k is None:
                    derive("add")
                else:
                    add(op="edit", key=k, value=q(Fraction(rng.randint(1, 99), 2)))
            elif how == "edit_where":
                add(op="edit_where", bits="1" * sim.held_size(), value=q(Fraction(rng.randint(1, 99), 2)))
            elif how == "neg_add":
                derive("add")
                derive("neg")
            else:
                derive(how)
            if rng.random() < 0.5:
                add(op="write", path=P[0], overwrite=False)
                rd(P[0])
                add(op="hdu")
            else:
                add(op="hdu")
                add(op="read_hdu")
                add(op="write", path=P[0], overwrite=False)
                rd(P[0])
        elif theme == "shared_hdu":
            add(op="hdu")
            add(op="read_hdu")
            add(op="hdu_data")
            add(op="read_hdu")
            add(op="write_hdu", path=P[0])
            rd(P[0])
            add(op="hdu_data")
            add(op="read_hdu")
            add(op="write", path=P[1], overwrite=False)
            rd(P[1])
        elif theme == "adopt_chain":
            add(op="write", path=P[0], overwrite=False)
            rd(P[0])
            add(op="adopt")
            if rng.random() < 0.6:
                edit()
            add(op="hdu")
            add(op="write", path=P[1], overwrite=False)
            rd(P[1])
            add(op="read_hdu")
            add(op="adopt")
            add(op="hdu")
            add(op="write", path=P[0], overwrite=True)
            rd(P[0])
        elif theme == "mask_edit":
            add(op="hdu")
            add(op="write", path=P[0], overwrite=False)
            if is_mask:
                add(op="edit_mask", key=sim.random_mask_key(rng), value=rng.random() < 0.5)
                add(op="edit_mask", key=sim.random_mask_key(rng), value=rng.random() < 0.5)
            elif sim.native:
                add(op="edit_mask", key=sim.random_mask_key(rng), value=rng.random() < 0.7)
            else:
                edit()
            add(op="hdu")
            add(op="read_hdu")
            add(op="write", path=P[0], overwrite=True)
            rd(P[0])
        elif theme == "config":
            # (round 5, R5-D) configuration histories: both values the anchored code reads
            # (general.fits.flip_for_ds9, general.structures.native_binned_only) are changed BETWEEN calls, by
            # item assignment and by pushing a configuration directory, on reused and on freshly built objects.
            # What is written follows the flag in force when it is written, what is read the flag in force
            # when it is read; `native_binned_only` only changes how new objects are stored.  Only steps that
            # do not depend on the storage form are used (the bookkeeping does not track it under that option)
            # (a push re-reads the configuration files, ~0.1 s: two per history)
            def conf_step(flip=None, nbo=None, via="item"):
                add(op="set_conf", flip=(rng.random() < 0.5) if flip is None else flip,
                    nbo=(rng.random() < 0.5) if nbo is None else nbo, via=via)

            def rebuild():
                if is_mask:
                    add(op="twin", share_mask=False)
                else:
                    add(op="twin", values=sim.slim_values(), share_mask=False)

            conf_step(flip=not sim.flip, nbo=False, via="push")
            add(op="hdu")
            conf_step(flip=not sim.flip, nbo=True, via="item")
            add(op="read_hdu")
            add(op="hdu")
            add(op="write", path=P[0], overwrite=False)
            rebuild()  # a fresh object built while native_binned_only is on: held in native form
            if not is_mask:
                derive(rng.choice(["add", "sub", "radd"]))  # non-zero numbers under its mask
            add(op="hdu")
            add(op="read_hdu")
            conf_step(flip=not sim.flip, nbo=False, via="item")
            add(op="hdu")
            rd(P[0])
            add(op="write", path=P[1], overwrite=False)
            if rng.random() < 0.5:
                add(op="decoy")
            conf_step(flip=not sim.flip, via="push")
            rd(P[1])
            rd(P[0])
            add(op="read_hdu")
            conf_step(flip=sim.flip, nbo=False, via="item")
            rebuild()
            add(op="hdu")
        else:  # "random": any valid sequence
            for _ in range(rng.randint(5, 10)):
                r = rng.random()
                if r < 0.2:
                    add(op="hdu")
                elif r < 0.32 and sim.last_hdu is not None:
                    add(op="read_hdu")
                elif r < 0.5:
                    p = rng.choice(P)
                    add(op="write", path=p, overwrite=rng.random() < 0.6)
                elif r < 0.65 and sim.files:
                    rd(rng.choice(sorted(sim.files)).split("/"))
                elif r < 0.75:
                    edit()
                elif r < 0.82:
                    if rng.random() < 0.5:
                        add(op="set_flip", flip=rng.random() < 0.5)
                    else:  # (round 5) both values at once, now and then through a pushed config directory
                        add(op="set_conf", flip=rng.random() < 0.5, nbo=False,
                            via="push" if rng.random() < 0.25 else "item")
                elif r < 0.9:
                    derive()
                elif r < 0.95:
                    twin()
                else:
                    add(op="decoy")
            add(op="hdu")
            if sim.files:
                rd(rng.choice(sorted(sim.files)).split("/"))
        c["steps"] = steps
        return c

    HIST_THEMES = ["edit_rewrite", "twin", "fault_reuse", "two_flips", "decoy_order", "derive", "junk_routes",
                   "shared_hdu", "adopt_chain", "mask_edit", "config", "random"]

    def _gen_hist(self, tier, rng):
        # every theme × every object class once (independent of luck), then random ones
        for theme in self.HIST_THEMES:
            for obj in ("array2d", "kernel2d", "mask2d", "array1d", "mask1d"):
                if theme in ("derive", "junk_routes") and obj in ("mask2d", "mask1d"):
                    continue
                yield self._hist_case(rng, theme, obj)
        for _ in range(350 if tier == "quick" else 1500):
            yield self._hist_case(rng)
        for _ in range(5 if tier == "quick" else 40):
            yield self._hist_case(rng, "config")

    # ------------------------------------------------------------------ history: the real code
    _DECOYS_ARR = ["native", "slim", "native_skip_mask", "pixel_scales", "pixel_scale", "pixel_scale_header",
                   "shape_native", "shape_slim", "binned_across_rows", "binned_across_columns", "readout_offsets",
                   "geometry", "derive_mask", "derive_indexes", "origin", "total_pixels", "hdu_for_output",
                   "values", "array", "header", "mask", "store_native", "in_counts", "original_orientation",
                   "grid_radial", "unmasked_grid", "total_area", "dimensions"]
    _DECOYS_MASK = ["pixel_scales", "pixel_scale", "pixel_scale_header", "shape_native", "shape_slim", "geometry",
                    "derive_mask", "derive_indexes", "derive_grid", "origin", "pixels_in_mask", "is_all_true",
                    "is_all_false", "mask_centre", "zoom_centre", "zoom_shape_native", "dimensions",
                    "hdu_for_output", "is_circular", "shape", "mask", "array", "zoom_offset_pixels",
                    "zoom_mask_unmasked"]

    def _hist_readers(self, aa, obj):
        return {"array2d": aa.Array2D, "kernel2d": aa.Kernel2D, "mask2d": aa.Mask2D, "array1d": aa.Array1D,
                "mask1d": aa.Mask1D}[obj]

    def _hist_obs_read(self, obj, b):
        if obj in ("array2d", "kernel2d"):
            return _read2d(b)
        if obj == "mask2d":
            return {"mask": _mask_obs(b), "scales": qlist(b.pixel_scales)}
        if obj == "array1d":
            return {"native": qlist(np.asarray(b.native.array, dtype="float64")), "scales": qlist(b.pixel_scales)}
        return {"bits": "".join("1" if v else "0" for v in np.asarray(b)), "scales": qlist(b.pixel_scales)}

    def _hist_build(self, aa, case, mask_obj=None, values=None, scales=None, bits=None):
        """the initial object of a history (or a twin of it): returns (object, mask object, caller-owned buffer)"""
        obj = case["obj"]
        if obj in ("array1d", "mask1d"):
            b = np.array([ch == "1" for ch in (bits or case["bits"])], dtype=bool)
            s = _f((scales or case["scales"])[0])
            m1 = mask_obj if mask_obj is not None else aa.Mask1D(mask=b, pixel_scales=s)
            if obj == "mask1d":
                return m1, m1, None
            vals = np.array([_f(v) for v in (values if values is not None else case["values"])], dtype="float64")
            if case.get("store_native"):
                nat = np.full(b.shape, 77.0)
                nat[~b] = vals
                return aa.Array1D(values=nat, mask=m1, store_native=True), m1, nat
            return aa.Array1D(values=vals, mask=m1), m1, vals
        mj = case["mask"]
        m = np.array([ch == "1" for ch in (bits or mj["bits"])], dtype=bool).reshape(mj["h"], mj["w"])
        sc = tuple(_f(v) for v in (scales or case["scales"]))
        mask = mask_obj if mask_obj is not None else aa.Mask2D(mask=m, pixel_scales=sc)
        if obj == "mask2d":
            return mask, mask, None
        cls = aa.Kernel2D if obj == "kernel2d" else aa.Array2D
        vals = np.array([_f(v) for v in (values if values is not None else case["values"])], dtype="float64")
        if case.get("store_native"):
            nat = np.full(m.shape, 77.0)
            nat[~m] = vals
            return cls(values=nat, mask=mask, store_native=True), mask, nat
        return cls(values=vals, mask=mask), mask, vals

    def _impl_hist(self, aa, case, sb):
        from astropy.io import fits

        obj = case["obj"]
        reader = self._hist_readers(aa, obj)
        is_mask = obj in ("mask2d", "mask1d")
        is_2d = obj in ("array2d", "kernel2d", "mask2d")
        a, mask_obj, buf = self._hist_build(aa, case)
        style = case["path_style"]
        last_hdu = last_read = None
        out = []
        intact = True
        for st in case["steps"]:
            op = st["op"]
            o = None
            # the caller's array may legitimately be written THROUGH the object (`a[k] = v` on an object that
            # holds it, that is property C11's subject); no output / read / derivation may touch it
            buf0 = buf.copy() if (buf is not None and op not in ("edit", "edit_where", "edit_mask")) else None
            if op == "hdu":
                last_hdu = a.hdu_for_output
                o = {"data": _data_json(last_hdu.data), "header": _cards(last_hdu.header)}
            elif op == "hdu_data":
                o = {"data": _data_json(last_hdu.data), "header": _cards(last_hdu.header)}
            elif op == "read_hdu":
                last_read = reader.from_primary_hdu(last_hdu)
                o = self._hist_obs_read(obj, last_read)
            elif op == "write":
                try:
                    a.output_to_fits(file_path=sb.path(st["path"], style), overwrite=st["overwrite"])
                    o = "written"
                except Exception as e:
                    o = _err_kind(e)
            elif op == "write_hdu":
                pth = sb.path(st["path"], "abs")
                os.makedirs(os.path.dirname(pth), exist_ok=True)
                fits.HDUList([last_hdu]).writeto(pth, overwrite=True)
                o = "written"
            elif op == "read":
                pth = sb.path(st["path"], style)
                sc = [_f(v) for v in st["scales"]]
                ps = sc[0] if len(sc) == 1 else tuple(sc)
                kw = {}
                if st.get("invert"):
                    kw["invert"] = True
                last_read = reader.from_fits(file_path=pth, pixel_scales=ps, hdu=0, **kw)
                o = self._hist_obs_read(obj, last_read)
                if not is_mask:
                    hd = last_read.header
                    o["file_header"] = _cards(hd.header_sci_obj)
            elif op == "bad_read":
                try:
                    if st["what"] == "missing":
                        reader.from_fits(file_path=sb.path(["nowhere", "none.fits"], style),
                                         pixel_scales=1.0, hdu=0)
                    else:
                        reader.from_fits(file_path=sb.path(st["path"], style), pixel_scales=1.0, hdu=3)
                    o = "no_error"
                except FileNotFoundError:
                    o = "FileNotFoundError"
                except IndexError:
                    o = "IndexError"
            elif op == "set_flip":
                sb.set_flip(st["flip"])
            elif op == "set_conf":
                sb.set_conf(st["flip"], st["nbo"], st.get("via", "item"))
            elif op == "edit":
                k = st["key"]
                a[tuple(k) if isinstance(k, list) else k] = _f(st["value"])
            elif op == "edit_where":
                key = np.array([ch == "1" for ch in st["bits"]], dtype=bool).reshape(np.asarray(a.array).shape)
                a[key] = _f(st["value"])
            elif op == "edit_mask":
                k = st["key"]
                tgt = a if is_mask else a.mask
                tgt[tuple(k) if isinstance(k, list) else k] = bool(st["value"])
            elif op == "decoy":
                for name in (self._DECOYS_MASK if is_mask else self._DECOYS_ARR):
                    try:
                        v = getattr(a, name)
                        if name in ("derive_mask", "derive_indexes", "geometry"):
                            for sub in ("all_false", "edge", "native_for_slim", "extent", "shape_native_scaled"):
                                try:
                                    getattr(v, sub)
                                except Exception:
                                    pass
                    except Exception:
                        pass
            elif op == "derive":
                how = st["how"]
                c = _f(st["c"]) if "c" in st else None
                if how == "add":
                    a = a + c
                elif how == "radd":
                    a = c + a
                elif how == "sub":
                    a = a - c
                elif how == "mul":
                    a = a * c
                elif how == "neg":
                    a = -a
                elif how == "native":
                    a = a.native
                elif how == "native_add":
                    a = a.native + c
                elif how == "slim":
                    a = a.slim
                elif how == "copy":
                    a = a.copy()
                elif how == "with_new_array":
                    new = np.array([_f(v) for v in st["new"]], dtype="float64").reshape(np.asarray(a.array).shape)
                    a = a.with_new_array(new)
                elif how == "apply_mask":
                    mj = case["mask"]
                    m2 = np.array([ch == "1" for ch in st["bits"]], dtype=bool).reshape(mj["h"], mj["w"])
                    a = a.apply_mask(aa.Mask2D(mask=m2, pixel_scales=tuple(_f(v) for v in st["scales"])))
                else:
                    raise ValueError(how)
            elif op == "twin":
                if is_mask:
                    bits = None
                    if "flip_bit" in st:
                        cur = np.asarray(a).copy()
                        k = st["flip_bit"]
                        k = tuple(k) if isinstance(k, list) else k
                        cur[k] = not cur[k]
                        bits = "".join("1" if v else "0" for v in cur.ravel())
                    else:
                        bits = "".join("1" if v else "0" for v in np.asarray(a).ravel())
                    a, mask_obj, _b = self._hist_build(aa, case, scales=st.get("scales") or qlist(a.pixel_scales),
                                                       bits=bits)
                else:
                    cur_mask = a.mask
                    bits = "".join("1" if v else "0" for v in np.asarray(cur_mask).ravel())
                    sc = st.get("scales") or qlist(cur_mask.pixel_scales)
                    vals = st["values"] if "values" in st else qlist(
                        np.asarray(a.slim.array, dtype="float64").ravel())
                    tw = dict(case)
                    tw["store_native"] = bool(np.asarray(a.array).shape == np.asarray(cur_mask).shape)
                    a, mask_obj, _b = self._hist_build(aa, tw, mask_obj=cur_mask if st.get("share_mask") else None,
                                                       values=vals, scales=sc, bits=bits)
            elif op == "adopt":
                a = last_read
            else:
                raise ValueError(op)
            out.append(o)
            if buf0 is not None and not np.array_equal(buf, buf0):
                intact = False
        obs = {"steps": out}
        if buf is not None:
            obs["caller_buffer_intact"] = intact
        return obs

    # ------------------------------------------------------------------ history: model requests
    def _hist_requests(self, case):
        """[(step index, part, request)] for the observing steps: the Lean model's answer for a FRESH object in
        the state the history has reached (the state bookkeeping is `_HistSim`'s, the values are the model's)"""
        sim = _HistSim(case)
        out = []
        writes = []
        for i, st in enumerate(case["steps"]):
            op = st["op"]
            if op == "hdu":
                sim.apply(st)
                out.append((i, "hdu", sim.model_request(sim.last_hdu, sim.flip, None)))
                continue
            if op == "hdu_data":
                out.append((i, "hdu", sim.model_request(sim.last_hdu, sim.flip, None)))
            elif op == "read_hdu":
                out.append((i, "from_hdu", sim.model_request(sim.last_hdu, sim.flip, None)))
            elif op == "read":
                rec = sim.files.get("/".join(st["path"]))
                if rec is not None:
                    out.append((i, "from_file", sim.model_request(rec, sim.flip, st)))
            elif op in ("write", "write_hdu"):
                writes.append((i, {"path": st["path"], "overwrite": st.get("overwrite", True), "content": i + 1}))
            sim.apply(st)
        if writes:
            out.append((None, "fs", {"op": "c16.fs_history", "dirs": [], "files": [],
                                     "steps": [w for _, w in writes]}))
        return out, [i for i, _ in writes]

    def _hist_model_obs(self, case, responses):
        plan, write_idx = self._hist_requests(case)
        obj = case["obj"]
        res = {}
        for (i, part, _req), r in zip(plan, responses):
            if "err" in r:
                return {"err": r["err"]}
            r = r["ok"]
            if part == "fs":
                for k, wi in enumerate(write_idx):
                    res[wi] = r["results"][k] or "written"
                continue
            v = r[part]
            if part == "from_file":
                if obj == "mask2d":
                    v = {"mask": v}
                elif obj == "array1d":
                    v = {"native": v}
                elif obj == "mask1d":
                    v = {"bits": v}
            elif part == "from_hdu" and obj == "array1d":
                v = {"native": v["native"], "scales": v["scales"]}
            res[i] = v
        return res

    def _hist_compare(self, case, impl_obs, model_obs, cmp):
        obj = case["obj"]
        steps = impl_obs["steps"]
        for i in sorted(model_obs):
            got, want = steps[i], model_obs[i]
            if isinstance(got, dict) and isinstance(want, dict):
                got = {k: v for k, v in got.items() if k in want}
            d = cmp.diff(got, want, f"$.steps[{i}]({case['steps'][i]['op']})")
            if d:
                return d
        return None

    def _hist_oracle(self, case, obs):
        sim = _HistSim(case)
        steps = obs["steps"]
        if len(steps) != len(case["steps"]):
            return False, "history was not run to its end"
        for i, st in enumerate(case["steps"]):
            want = sim.apply(st)
            got = steps[i]
            if want is None:
                continue
            why = _hist_diff(got, want)
            if why:
                hist = " -> ".join(s["op"] + (":" + s["how"] if "how" in s else "") for s in case["steps"][: i + 1])
                return False, (f"history step {i} ({st['op']}): {why}; a fresh object in this state gives "
                               f"something else.  History so far: {hist}")
        if obs.get("caller_buffer_intact") is False:
            return False, ("the caller-owned values array handed to the constructor was modified by an output / "
                           "read / derivation step of the history")
        return True, ""

    # ================================================================== round 4: LARGE stream
    BIG_CAP = 1 << 20  # largest hint served (2c+1 ≈ 2M pixels ≈ 16 MB per array)
    BIG_HUGE = 300000  # pixels above which only two native-stored variants per size are generated
    BIG_HEAVY = 20000  # pixels above which the reduced variant set / lean observation is used
    BIG_EXPLICIT = 900  # up to this many pixels a large case is an ordinary, model-compared case

    @staticmethod
    def _factor(s):
        """(h, w), h*w == s, 1 < h < w as square as possible; None if s is prime / too small"""
        best = None
        d = 2
        while d * d <= s:
            if s % d == 0 and d != s // d:
                best = (d, s // d)
            d += 1
        return best

    def generate_large(self, hints, rng):
        seen = set()
        hs = sorted(set(int(x) for x in hints if 2 <= int(x) <= self.BIG_CAP))
        for c in hs:
            sizes = [c - 1, c, c + 1, c + c // 3 + 1, 2 * c + 1]
            # more non-multiples (a block size and a threshold usually come as two constants: sizes above the
            # larger that are not a multiple of the smaller, with remainders other than 1)
            if c <= self.BIG_HEAVY:
                sizes += [c + 2, c + c // 2 + 3, 2 * c + 3, rng.randint(c + 3, 2 * c)]
                for c1 in hs:
                    if 2 <= c1 < c:
                        sizes += [c + c1 // 2 + 1, c + c1 + 2, c + 2 * c1 + c1 // 3 + 1]
            else:
                sizes += [rng.randint(c + 2, 2 * c)]
            for s in sizes:
                if s < 1 or s in seen:
                    continue
                seen.add(s)
                yield from self._large_for_size(rng, s, c)

    def _large_for_size(self, rng, s, c):
        def big(obj, h, w, dim, **kw):
            case = {"tag": f"large_{dim}", "kind": "big", "obj": obj, "h": h, "w": w, "dim": dim, "hint": c,
                    "size": s, "flip": kw.pop("flip", rng.random() < 0.5),
                    "mask_rule": kw.pop("mask_rule", {"rule": "rand", "seed": rng.randrange(1 << 30), "p": "3/10"}),
                    "vseed": rng.randrange(1 << 30), "scales": self._scales(rng),
                    "store_native": kw.pop("store_native", rng.random() < 0.5),
                    "path_style": rng.choice(["abs", "rel", "bare", "nested"])}
            case.update(kw)
            if h * w <= self.BIG_EXPLICIT and obj != "imaging":
                return self._big_to_regular(case)
            return case

        shapes = [(1, s, "pixels_1xN"), (s, 1, "pixels_Nx1")]
        f = self._factor(s)
        if f:
            shapes.append((f[0], f[1], "pixels_hxw"))
            shapes.append((f[1], f[0], "pixels_wxh"))
        flips = [False, True]
        # without numba the library's slim <-> native loops cost ~5 µs per pixel and conversion: above
        # HEAVY pixels fewer variants are generated and the read-back is observed as it is stored (`lean`)
        heavy = s > self.BIG_HEAVY
        if s > self.BIG_HUGE:
            h, w = f if f else (s, 1)
            yield big("array2d", h, w, "pixels_hxw" if f else "pixels_Nx1", flip=True, store_native=True, lean=True)
            yield big("array2d", 1, s, "pixels_1xN_junk", flip=False, store_native=True, junk="arith", lean=True)
            return
        if heavy:
            sn = rng.random() < 0.5
            yield big("array2d", 1, s, "pixels_1xN", flip=True, store_native=sn, lean=True)
            yield big("array2d", s, 1, "pixels_Nx1", flip=True, store_native=not sn, lean=True)
            yield big("array2d", s, 1, "pixels_Nx1_nomask", flip=False, mask_rule={"rule": "none"},
                      in_form="no_mask", lean=True)
            if f:
                h, w = f
                yield big("array2d", h, w, "pixels_hxw", flip=True, store_native=True, lean=True)
                yield big("array2d", w, h, "pixels_wxh", flip=False, store_native=False, lean=True)
                yield big("mask2d", h, w, "pixels_hxw", flip=True, lean=True)
                yield big("kernel2d", w, h, "pixels_wxh", flip=True, mask_rule={"rule": "none"},
                          store_native=True, lean=True)
                yield big("array2d", h, w, "pixels_hxw_junk", flip=True, store_native=True, junk="arith", lean=True)
            else:
                yield big("mask2d", s, 1, "pixels_Nx1", flip=True, lean=True)
                yield big("array2d", s, 1, "pixels_Nx1_junk", flip=True, store_native=True, junk="arith", lean=True)
            if s <= self.BIG_CAP:
                yield big("array2d", s, 2, "rows", flip=True, store_native=True, lean=True)
                yield big("array2d", 2, s, "cols", flip=True, store_native=True, lean=True)
        else:
            for k, (h, w, dim) in enumerate(shapes):
                for flip in flips:
                    yield big("array2d", h, w, dim, flip=flip)
                yield big("mask2d", h, w, dim, flip=flips[k % 2])
                yield big("kernel2d", h, w, dim, flip=flips[(k + 1) % 2], mask_rule={"rule": "none"})
                yield big("array2d", h, w, dim + "_junk", flip=flips[k % 2], store_native=True, junk="arith")
                yield big("array2d", h, w, dim + "_nomask", flip=flips[(k + 1) % 2], mask_rule={"rule": "none"},
                          in_form="no_mask")
            # the size as the number of ROWS / COLUMNS alone (a flip works row by row)
            for flip in flips:
                yield big("array2d", s, 3, "rows", flip=flip)
                yield big("array2d", 2, s, "cols", flip=flip)
            yield big("mask2d", s, 2, "rows", flip=True)
        # the size as the number of UNMASKED pixels inside a larger frame
        hh = max(2, int((s * 1.4) ** 0.5) + 1)
        ww = max(2, (int(s * 1.4) // hh) + 2)
        if hh * ww > s:
            for flip in (flips if not heavy else [True]):
                yield big("array2d", hh, ww, "unmasked", flip=flip,
                          mask_rule={"rule": "count", "seed": rng.randrange(1 << 30), "n": s},
                          store_native=flip, lean=heavy)
        # 1-D length and 1-D unmasked count
        yield {"tag": "large_1d", "kind": "big", "obj": "array1d", "h": 1, "w": s, "dim": "len1d", "hint": c,
               "size": s, "flip": rng.random() < 0.5, "mask_rule": {"rule": "rand", "seed": rng.randrange(1 << 30),
                                                                     "p": "3/10"},
               "vseed": rng.randrange(1 << 30), "scales": [self._scales(rng, False)[0]],
               "store_native": rng.random() < 0.5, "path_style": "abs"}
        yield {"tag": "large_1d", "kind": "big", "obj": "array1d", "h": 1, "w": s + s // 2 + 1, "dim": "unmasked1d",
               "hint": c, "size": s, "flip": rng.random() < 0.5,
               "mask_rule": {"rule": "count", "seed": rng.randrange(1 << 30), "n": s},
               "vseed": rng.randrange(1 << 30), "scales": [self._scales(rng, False)[0]],
               "store_native": rng.random() < 0.5, "path_style": "rel"}
        yield {"tag": "large_1d", "kind": "big", "obj": "mask1d", "h": 1, "w": s, "dim": "len1d", "hint": c,
               "size": s, "flip": rng.random() < 0.5, "mask_rule": {"rule": "rand", "seed": rng.randrange(1 << 30),
                                                                     "p": "1/2"},
               "vseed": 0, "scales": [self._scales(rng, False)[0]], "store_native": False, "path_style": "abs"}
        # Imaging with s frame pixels
        if (f or s <= 64) and s <= 4 * self.BIG_HEAVY:
            h, w = f if f else (1, s)
            yield big("imaging", h, w, "imaging", mask_rule={"rule": "none"}, lean=heavy)
        # counts: HDUs in a file / steps of a history / values of the hdu index
        if 2 <= s <= 48:
            arrays = []
            for _ in range(s):
                m, _mk = gen.random_mask(rng, rng.randint(1, 3), rng.randint(1, 3))
                nun = sum(1 for r in m for b in r if not b)
                arrays.append({"mask": mask_json(m), "values": qlist(self._values(rng, nun)),
                               "scales": self._scales(rng)})
            for read in sorted({s - 1, s // 2, 0}):
                yield {"tag": "large_multi_hdu", "kind": "multi_hdu", "flip": rng.random() < 0.5, "arrays": arrays,
                       "read": read, "scales": self._scales(rng), "reader": rng.choice(["array2d", "kernel2d"])}
        if 2 <= s <= 80:
            hc = self._history_case(rng)
            steps = []
            for k in range(s):
                steps.append({"path": rng.choice(hc["steps"])["path"], "overwrite": rng.random() < 0.6,
                              "content": 100 + k,
                              "writer": rng.choice(["array2d", "mask2d", "kernel2d", "array1d", "mask1d"])})
            hc["steps"] = steps
            hc["tag"] = "large_fs_history"
            yield hc

    # ---- compact large cases ------------------------------------------------------------------------
    @staticmethod
    def _big_mask(case):
        h, w = case["h"], case["w"]
        r = case["mask_rule"]
        if r["rule"] == "none":
            return np.zeros((h, w), dtype=bool)
        g = np.random.Generator(np.random.PCG64(r["seed"]))
        if r["rule"] == "count":
            m = np.ones(h * w, dtype=bool)
            m[g.permutation(h * w)[: r["n"]]] = False
            return m.reshape(h, w)
        m = g.random((h, w)) < float(Fraction(r["p"]))
        if m.all():
            m[0, 0] = False
        return m

    @staticmethod
    def _big_values(case, n):
        """n doubles: position-coded integer part (a permutation of the pixels shows), 30 random fractional bits
        (not representable in float32 / float16), random sign, a few extreme magnitudes"""
        g = np.random.Generator(np.random.PCG64(case["vseed"]))
        v = (np.arange(n, dtype="float64") + 1.0) + g.integers(1, 1 << 30, size=n).astype("float64") / float(1 << 30)
        v = v * np.where(g.random(n) < 0.4, -1.0, 1.0)
        if n >= 8:
            pos = g.permutation(n)[:6]
            v[pos] = [1.5e300, -2.5e-300, 5e-324, 0.1, -123456789.12345679, 3.0 * 2.0 ** 90]
        return v

    def _big_to_regular(self, case):
        """a small 'large' case spelled out as an ordinary (model-compared) case"""
        m = self._big_mask(case)
        obj = case["obj"]
        base = {"tag": case["tag"], "flip": case["flip"], "path_style": case["path_style"], "hint": case["hint"]}
        if obj == "mask2d":
            return {**base, "kind": "mask2d", "mask": mask_json(m.tolist()), "scales": case["scales"],
                    "invert": bool(case["vseed"] & 1)}
        n = int((~m).sum())
        vals = qlist(self._big_values(case, n))
        out = {**base, "kind": obj, "mask": mask_json(m.tolist()), "values": vals, "scales": case["scales"],
               "store_native": bool(case.get("store_native")), "origin": ["0", "0"]}
        if case.get("junk") and m.any():
            out["values"] = qlist(np.floor(self._big_values(case, n)).clip(-1e6, 1e6))
            out["store_native"] = True
            out["junk"] = "arith"
            out["junk_shift"] = "-3/2"
            out["junk_values"] = []
        elif case.get("in_form"):
            out["in_form"] = case["in_form"]
            out["store_native"] = False
        return out

    @staticmethod
    def _digest(arr):
        a = np.ascontiguousarray(np.asarray(arr, dtype="float64") + 0.0)
        return [list(int(v) for v in a.shape), hashlib.sha1(a.tobytes()).hexdigest()]

    @staticmethod
    def _probe_idx(case, n):
        if n == 0:
            return []
        g = np.random.Generator(np.random.PCG64(case.get("vseed", 0) ^ 0x5EED))
        return sorted(set([0, n - 1, n // 2] + [int(v) for v in g.integers(0, n, size=9)]))

    def _big_summary(self, case, arr):
        a = np.asarray(arr, dtype="float64")
        flat = a.ravel()
        idx = self._probe_idx(case, flat.size)
        return {"digest": self._digest(a), "probe": qlist(flat[idx]) if idx else [],
                "finite": bool(np.isfinite(flat).all())}

    def _impl_big(self, aa, case, sb):
        obj = case["obj"]
        m = self._big_mask(case)
        flipw = case["flip"]
        if obj in ("array1d", "mask1d"):
            m1 = m.ravel()
            s = _f(case["scales"][0])
            mo = aa.Mask1D(mask=m1, pixel_scales=s)
            if obj == "mask1d":
                a = mo
            else:
                vals = self._big_values(case, int((~m1).sum()))
                if case.get("store_native"):
                    nat = np.full(m1.shape, 77.0)
                    nat[~m1] = vals
                    a = aa.Array1D(values=nat, mask=mo, store_native=True)
                else:
                    a = aa.Array1D(values=vals, mask=mo)
            rd = aa.Mask1D if obj == "mask1d" else aa.Array1D
            hdu = a.hdu_for_output
            obs = {"hdu": {**self._big_summary(case, hdu.data), "header": _cards(hdu.header)}}
            b = rd.from_primary_hdu(hdu)
            path = self._paths(sb, case["path_style"], "big1.fits")
            a.output_to_fits(file_path=path)
            c = rd.from_fits(file_path=path, pixel_scales=s)
            if obj == "mask1d":
                obs["from_hdu"] = {**self._big_summary(case, np.asarray(b).astype("float64")),
                                   "scales": qlist(b.pixel_scales)}
                obs["from_file"] = self._big_summary(case, np.asarray(c).astype("float64"))
            else:
                obs["from_hdu"] = {**self._big_summary(case, b.native.array), "scales": qlist(b.pixel_scales)}
                obs["from_file"] = self._big_summary(case, c.native.array)
                obs["file_header"] = _cards(c.header.header_sci_obj)
            return obs
        sc = (_f(case["scales"][0]), _f(case["scales"][1]))
        if obj == "imaging":
            h, w = case["h"], case["w"]
            data = self._big_values(case, h * w).reshape(h, w)
            noise = np.abs(self._big_values({**case, "vseed": case["vseed"] + 1}, h * w)).reshape(h, w) + 0.5
            im = aa.Imaging(data=aa.Array2D.no_mask(data, pixel_scales=sc),
                            noise_map=aa.Array2D.no_mask(noise, pixel_scales=sc),
                            psf=aa.Kernel2D.no_mask(np.array([[float(v) for v in r] for r in _unit_kernel(3, 3)]),
                                                    pixel_scales=sc))
            dp, npth, pp = (self._paths(sb, case["path_style"], n) for n in ("data.fits", "noise.fits", "psf.fits"))
            im.output_to_fits(data_path=dp, psf_path=pp, noise_map_path=npth)
            im2 = aa.Imaging.from_fits(pixel_scales=sc, data_path=dp, noise_map_path=npth, psf_path=pp)
            return {"data": {**self._big_summary(case, self._big_native(case, im2.data)),
                             "scales": qlist(im2.data.pixel_scales)},
                    "noise": {**self._big_summary(case, self._big_native(case, im2.noise_map)),
                              "scales": qlist(im2.noise_map.pixel_scales)},
                    "psf": _read2d(im2.psf)}
        mask = aa.Mask2D(mask=m, pixel_scales=sc)
        if obj == "mask2d":
            a = mask
            rd = aa.Mask2D
        else:
            rd = aa.Kernel2D if obj == "kernel2d" else aa.Array2D
            vals = self._big_values(case, int((~m).sum()))
            if case.get("junk"):
                vals = np.floor(vals).clip(-1e6, 1e6)
                nat = np.full(m.shape, 55.0)
                nat[~m] = vals + 2.5
                a = rd(values=nat, mask=mask, store_native=True) - 2.5
            elif case.get("in_form") == "no_mask":
                a = rd.no_mask(values=vals.reshape(m.shape), pixel_scales=sc)
            elif case.get("store_native"):
                nat = np.full(m.shape, 77.0)
                nat[~m] = vals
                a = rd(values=nat, mask=mask, store_native=True)
            else:
                a = rd(values=vals, mask=mask)
        hdu = a.hdu_for_output
        obs = {"hdu": {**self._big_summary(case, hdu.data), "header": _cards(hdu.header)}}
        b = rd.from_primary_hdu(hdu)
        path = self._paths(sb, case["path_style"], "big.fits")
        a.output_to_fits(file_path=path)
        if obj == "mask2d":
            c = rd.from_fits(file_path=path, pixel_scales=sc)
            obs["from_hdu"] = {**self._big_summary(case, np.asarray(b).astype("float64")),
                               "scales": qlist(b.pixel_scales)}
            obs["from_file"] = {**self._big_summary(case, np.asarray(c).astype("float64")),
                                "scales": qlist(c.pixel_scales)}
            return obs
        c = rd.from_fits(file_path=path, pixel_scales=sc, hdu=0)
        for name, r in (("from_hdu", b), ("from_file", c)):
            obs[name] = {**self._big_summary(case, self._big_native(case, r)), "scales": qlist(r.pixel_scales),
                         "masked": bool(np.asarray(r.mask).any()),
                         "shape": [int(v) for v in r.shape_native]}
            if not case.get("lean"):
                obs[name]["slim_digest"] = self._digest(np.asarray(r.slim.array).reshape(r.shape_native))
        obs["file_headers"] = {"sci": _cards(c.header.header_sci_obj), "hdu": _cards(c.header.header_hdu_obj)}
        return obs

    @staticmethod
    def _big_native(case, r):
        """the native values of a read-back (unmasked) array.  `lean` cases (> BIG_HEAVY pixels) take the array
        as it is stored — slim order of an unmasked array IS row-major native order — instead of paying for
        `.native`'s pure-Python index loops"""
        if case.get("lean"):
            arr = np.asarray(r.array, dtype="float64")
            return arr.reshape(tuple(int(v) for v in r.shape_native))
        return r.native.array

    def _big_expected(self, case):
        """(expected native array, expected array in the HDU)"""
        obj = case["obj"]
        m = self._big_mask(case)
        if obj in ("array1d", "mask1d"):
            m = m.ravel()
        if obj in ("mask2d", "mask1d"):
            nat = m.astype("float64")
        else:
            vals = self._big_values(case, int((~m).sum()))
            if case.get("junk"):
                vals = np.floor(vals).clip(-1e6, 1e6)
            nat = np.zeros(m.shape)
            nat[~m] = vals
        written = np.flipud(nat) if (case["flip"] and nat.ndim == 2) else nat
        return nat, written

    def _big_check(self, case, name, got, want):
        flat = np.asarray(want, dtype="float64").ravel()
        idx = self._probe_idx(case, flat.size)
        if got["digest"][0] != list(np.asarray(want).shape):
            return f"{name}: shape {got['digest'][0]} != {list(np.asarray(want).shape)}"
        if not got["finite"]:
            return f"{name}: non-finite values"
        wp = qlist(flat[idx]) if idx else []
        if got["probe"] != wp:
            k = next(i for i, (a, b) in enumerate(zip(got["probe"], wp)) if a != b)
            return (f"{name}: value at flat index {idx[k]} is {float(Fraction(got['probe'][k]))!r}, "
                    f"written {float(Fraction(wp[k]))!r}")
        if got["digest"] != self._digest(want):
            return f"{name}: the {flat.size} values are not identical to the written ones (digest differs)"
        return None

    def _big_oracle(self, case, obs):
        obj = case["obj"]
        scales = [Fraction(v) for v in case["scales"]]
        if obj == "imaging":
            h, w = case["h"], case["w"]
            data = self._big_values(case, h * w).reshape(h, w)
            noise = np.abs(self._big_values({**case, "vseed": case["vseed"] + 1}, h * w)).reshape(h, w) + 0.5
            for k, want in (("data", data), ("noise", noise)):
                d = self._big_check(case, k, obs[k], want)
                if d:
                    return False, d
                if [Fraction(v) for v in obs[k]["scales"]] != scales:
                    return False, f"{k}: pixel scales differ"
            d = self._check_read2d("psf", obs["psf"], 3, 3, [v for r in _unit_kernel(3, 3) for v in r], scales)
            return (False, d) if d else (True, "")
        nat, written = self._big_expected(case)
        d = self._big_check(case, "HDU data" + (" (flipped)" if case["flip"] and nat.ndim == 2 else ""), obs["hdu"],
                            written)
        if d:
            return False, d
        hs = self._scales_from_cards(obs["hdu"]["header"])
        if hs is None or hs[: len(scales)] != scales:
            return False, f"HDU header encodes pixel scales {hs}, object has {scales}"
        for name in ("from_hdu", "from_file"):
            d = self._big_check(case, name, obs[name], nat)
            if d:
                return False, d
            if "scales" in obs[name] and [Fraction(v) for v in obs[name]["scales"]] != scales:
                return False, f"{name}: pixel scales {obs[name]['scales']} != written"
            if "slim_digest" in obs[name] and obs[name]["slim_digest"] != self._digest(nat):
                return False, f"{name}: slim values of the unmasked read-back array differ"
            if obs[name].get("masked"):
                return False, f"{name}: read-back array is masked"
            if "shape" in obs[name] and obs[name]["shape"] != list(nat.shape):
                return False, f"{name}: shape {obs[name]['shape']} != {list(nat.shape)}"
        if "file_headers" in obs:
            for k in ("sci", "hdu"):
                if self._scales_from_cards(obs["file_headers"][k]) != scales:
                    return False, f"header ({k}) of the file does not carry the pixel scales written"
        if "file_header" in obs and (self._scales_from_cards(obs["file_header"]) or [None])[0] != scales[0]:
            return False, "1-D file header does not carry the pixel scale"
        return True, ""

    def _big_shrink(self, case):
        h, w = case["h"], case["w"]
        for dim, v in (("h", h), ("w", w)):
            step = v // 2
            while step >= 1:
                if v - step >= 1:
                    c2 = {**case, dim: v - step}
                    r = c2["mask_rule"]
                    if r["rule"] == "count":
                        c2["mask_rule"] = {**r, "n": min(r["n"], c2["h"] * c2["w"] - 1)}
                        if c2["mask_rule"]["n"] < 1:
                            step //= 2
                            continue
                    yield c2
                step //= 2
        if case.get("mask_rule", {}).get("rule") != "none" and case["obj"] not in ("mask2d", "mask1d") \
                and not case.get("junk"):
            yield {**case, "mask_rule": {"rule": "none"}}
        if case.get("path_style") != "abs":
            yield {**case, "path_style": "abs"}

    # ------------------------------------------------------------------ implementation
    def _paths(self, sb, style, name="x.fits"):
        if style == "bare":
            return name
        if style == "nested":
            return sb.path(["sub1", "sub2", name], "rel")
        return sb.path(["out", name], style)

    def run_impl(self, case):
        aa = load_autoarray()
        kind = case["kind"]
        with _Sandbox(case["flip"]) as sb:
            return getattr(self, "_impl_" + kind)(aa, case, sb)

    # (round 5, R5-B) while an ownership case runs, every array / structure / HDU the implementation functions
    # hand to the API or get back from it is remembered here, to be scribbled over between the rounds
    _keep = None

    def _k(self, *xs):
        if self._keep is not None:
            self._keep.extend(xs)
        return xs[0]

    @staticmethod
    def _scales_arg(case, sc):
        """the pixel scales in the container the case asks for (R5-C): tuple (default), bare float, list, ndarray"""
        f = case.get("scales_form")
        if f == "float":
            return sc[0]
        if f == "int":
            return int(sc[0])
        if f == "list":
            return [sc[0], sc[1]]
        if f == "nparray":
            return np.array([sc[0], sc[1]])
        return sc

    def _mask_in_form(self, aa, m, ps, origin, form, one_d=False):
        """(round 5, R5-C) the mask `m` handed to the constructor in another layout / dtype / container, through
        the `invert` option, or as an existing mask object (which has other pixel scales and another origin: the
        new arguments must win)"""
        cls = aa.Mask1D if one_d else aa.Mask2D
        kw = {} if origin is None else {"origin": origin}
        if form in (None, "plain"):
            return cls(mask=self._k(m.copy()), pixel_scales=ps, **kw)
        if form == "invert_ctor":
            return cls(mask=self._k(~m), pixel_scales=ps, invert=True, **kw)
        if form in ("mask_obj", "mask_obj_origin0"):
            inner = aa.Mask2D(mask=self._k(m.copy()), pixel_scales=(3.0, 0.25), origin=(2.5, -1.0))
            if form == "mask_obj_origin0":
                kw = {"origin": (0.0, 0.0)}
            return aa.Mask2D(mask=self._k(inner), pixel_scales=ps, **kw)
        src = m.astype(form) if form in ("int64", "uint8", "float64") else m
        return cls(mask=self._k(_layout(src, form if src is m else "plain")), pixel_scales=ps, **kw)

    def _build_array(self, aa, case):
        m = _bits2d(case["mask"])
        sc = (_f(case["scales"][0]), _f(case["scales"][1]))
        origin = tuple(_f(v) for v in case.get("origin", ["0", "0"]))
        vals = self._k(np.array([_f(v) for v in case["values"]], dtype="float64"))
        cls = aa.Kernel2D if case["kind"] == "kernel2d" else aa.Array2D
        lay = case.get("layout")
        if lay:
            # (round 5, R5-C) equal-valued inputs in another memory layout / dtype / container
            mask = self._k(self._mask_in_form(aa, m, self._scales_arg(case, sc), origin, lay.get("m")))
            if lay.get("native_input"):
                nat = np.full(m.shape, 77.0)  # junk in masked cells must not reach the file
                nat[~m] = vals
                v = _layout(nat, lay.get("v"))
            else:
                v = _layout(vals, lay.get("v"))
            kw = {"store_native": True} if case.get("store_native") else {}
            if lay.get("ctor") == "wrapped_native":  # a structure built from another (natively stored) structure
                inner = aa.Array2D(values=self._k(v), mask=mask, store_native=True)
                return cls(values=self._k(inner), mask=mask, **kw), sc
            if lay.get("ctor") == "skip_mask":  # `skip_mask=True` with an input that is slim / converted to slim
                return cls(values=self._k(v), mask=mask, skip_mask=True, **kw) if cls is aa.Array2D \
                    else cls(values=self._k(v), mask=mask, **kw), sc
            return cls(values=self._k(v), mask=mask, **kw), sc
        mask = self._k(aa.Mask2D(mask=self._k(m.copy()), pixel_scales=sc, origin=origin))
        if case.get("junk"):
            held = np.array([_f(v) for v in self._stored_native(case)], dtype="float64").reshape(m.shape)
            if case["junk"] == "arith":
                shift = _f(case["junk_shift"])
                nat = np.full(m.shape, 55.0)
                nat[~m] = vals + shift
                a = cls(values=self._k(nat), mask=mask, store_native=True) - shift
            else:
                a = cls(values=self._k(held.copy()), mask=mask, store_native=True, skip_mask=True)
            if not np.array_equal(np.asarray(a.array, dtype="float64"), held):
                raise Skip("could not build a native-stored array with non-zero values under the mask")
            return a, sc
        if case.get("store_native"):
            nat = np.full(m.shape, 77.0)  # junk in masked cells must not reach the file
            nat[~m] = vals
            return cls(values=self._k(nat), mask=mask, store_native=True), sc
        form = case.get("in_form")
        if form:
            ps = self._scales_arg(case, sc)
            if form in ("no_mask", "full"):
                h, w = m.shape
                if form == "full":
                    fv = _f(case["values"][0]) if case["values"] else 0.0
                    return cls.full(fill_value=fv, shape_native=(h, w), pixel_scales=ps, origin=origin), sc
                nat = [[_f(v) for v in case["values"][y * w:(y + 1) * w]] for y in range(h)]
                return cls.no_mask(values=self._k(nat), pixel_scales=ps, origin=origin), sc
            mask = self._k(aa.Mask2D(mask=m.tolist() if case.get("explicit_defaults") else m, pixel_scales=ps,
                                     origin=origin))
            if form == "wrapped":
                return cls(values=self._k(cls(values=vals, mask=mask)), mask=mask), sc
            if form == "native_list":
                nat = np.zeros(m.shape)
                nat[~m] = vals
                return cls(values=nat.tolist(), mask=mask), sc
            return cls(values=self._k(_as_form(case["values"], form)), mask=mask), sc
        return cls(values=vals, mask=mask), sc

    def _impl_array2d(self, aa, case, sb):
        from astropy.io import fits

        a, sc = self._build_array(aa, case)
        self._k(a)
        cls = aa.Kernel2D if case["kind"] == "kernel2d" else aa.Array2D
        # (round 5) `origin` handed to the readers: far from zero / exactly zero / not at all
        okw = {"origin": tuple(_f(v) for v in case["read_origin"])} if case.get("read_origin") else {}
        hdu = self._k(a.hdu_for_output)
        obs = {"hdu": {"data": _data_json(hdu.data), "header": _cards(hdu.header)}}
        obs["from_hdu"] = _read2d(self._k(cls.from_primary_hdu(hdu, **okw)))
        path = self._paths(sb, case["path_style"])
        ow = {"overwrite": True} if case.get("overwrite") else {}
        if case.get("explicit_defaults"):
            a.output_to_fits(file_path=path, overwrite=bool(case.get("overwrite", False)))
            kw = {"origin": (0.0, 0.0), **okw}
            if case["kind"] == "kernel2d":
                kw["normalize"] = False
            b = cls.from_fits(file_path=path, pixel_scales=sc, hdu=0, **kw)
        else:
            a.output_to_fits(file_path=path, **ow)
            b = cls.from_fits(file_path=path, pixel_scales=self._scales_arg(case, sc) if case.get("layout") else sc,
                              hdu=0, **okw)
        self._k(b)
        obs["from_file"] = _read2d(b)
        obs["file_headers"] = {"sci": _cards(b.header.header_sci_obj), "hdu": _cards(b.header.header_hdu_obj)}
        if case.get("via_open"):
            # (round 5, R5-C) the HDU as astropy hands it back from the file (big-endian, lazily loaded data)
            with fits.open(path if os.path.isabs(path) else os.path.join(os.getcwd(), path)) as hl:
                obs["from_open_hdu"] = _read2d(self._k(cls.from_primary_hdu(hl[0], **okw)))
        return obs

    _impl_kernel2d = _impl_array2d

    def _impl_mask2d(self, aa, case, sb):
        from astropy.io import fits

        m = _bits2d(case["mask"])
        sc = (_f(case["scales"][0]), _f(case["scales"][1]))
        if case.get("mask_form"):
            mask = self._mask_in_form(aa, m, self._scales_arg(case, sc), None, case["mask_form"])
        else:
            mask = aa.Mask2D(mask=self._k(m.copy()), pixel_scales=sc)
        self._k(mask)
        hdu = self._k(mask.hdu_for_output)
        obs = {"hdu": {"data": _data_json(hdu.data), "header": _cards(hdu.header)}}
        back = self._k(aa.Mask2D.from_primary_hdu(hdu))
        obs["from_hdu"] = {"mask": _mask_obs(back), "scales": qlist(back.pixel_scales)}
        path = self._paths(sb, case["path_style"], "mask.fits")
        mask.output_to_fits(file_path=path, **({"overwrite": True} if case.get("overwrite") else {}))
        b = self._k(aa.Mask2D.from_fits(file_path=path, pixel_scales=sc, invert=case.get("invert", False), hdu=0,
                                        origin=(0.0, 0.0), resized_mask_shape=None))
        obs["from_file"] = _mask_obs(b)
        obs["from_file_scales"] = qlist(b.pixel_scales)
        if case.get("resized"):
            shp = tuple(case["resized"])
            r = aa.Mask2D.from_fits(file_path=path, pixel_scales=sc, invert=case.get("invert", False),
                                    resized_mask_shape=shp)
            obs["resized"] = _mask_obs(r)
            ref = aa.Mask2D(mask=(~m if case.get("invert") else m), pixel_scales=sc).resized_from(new_shape=shp)
            obs["resized_ref"] = _mask_obs(ref)
        if case.get("via_open"):
            with fits.open(path if os.path.isabs(path) else os.path.join(os.getcwd(), path)) as hl:
                bo = self._k(aa.Mask2D.from_primary_hdu(hl[0]))
                obs["from_open_hdu"] = {"mask": _mask_obs(bo), "scales": qlist(bo.pixel_scales)}
        return obs

    @staticmethod
    def _stored_native_1d(case):
        vals = iter(Fraction(v) for v in case["values"])
        if case["junk"] == "arith":
            shift = Fraction(case["junk_shift"])
            return [Fraction(0) - shift if b == "1" else next(vals) for b in case["bits"]]
        junk = iter(Fraction(v) for v in case["junk_values"])
        return [next(junk) if b == "1" else next(vals) for b in case["bits"]]

    def _impl_array1d(self, aa, case, sb):
        from astropy.io import fits

        mask = np.array([c == "1" for c in case["bits"]], dtype=bool)
        s = _f(case["scale"])
        lay = case.get("layout")
        ps = (s,) if case.get("scale_form") == "tuple" else ([s] if case.get("scale_form") == "list" else s)
        if lay:
            m1 = self._mask_in_form(aa, mask, ps, None, lay.get("m"), one_d=True)
        else:
            m1 = aa.Mask1D(mask=self._k(mask.copy()), pixel_scales=s)
        self._k(m1)
        vals = self._k(np.array([_f(v) for v in case["values"]], dtype="float64"))
        if lay:
            # (round 5, R5-C) equal-valued inputs in another memory layout / dtype / container
            if lay.get("native_input"):
                nat = np.full(mask.shape, 77.0)
                nat[~mask] = vals
                v = _layout(nat, lay.get("v"))
            else:
                v = _layout(vals, lay.get("v"))
            kw = {"store_native": True} if case.get("store_native") else {}
            if lay.get("ctor") == "wrapped":
                v = aa.Array1D(values=self._k(v), mask=m1, **kw)
            a = aa.Array1D(values=self._k(v), mask=m1, **kw)
        elif case.get("junk"):
            held = np.array([_f(v) for v in self._stored_native_1d(case)], dtype="float64")
            if case["junk"] == "arith":
                shift = _f(case["junk_shift"])
                nat = np.zeros(mask.shape)
                nat[~mask] = vals + shift
                a = aa.Array1D(values=self._k(nat), mask=m1, store_native=True) - shift
            else:
                a = aa.Array1D(values=self._k(held.copy()), mask=m1, store_native=True)
        elif case.get("store_native"):
            nat = np.zeros(mask.shape)
            nat[~mask] = vals
            a = aa.Array1D(values=self._k(nat), mask=m1, store_native=True)
        elif case.get("in_form"):
            form = case["in_form"]
            if form == "no_mask":
                a = aa.Array1D.no_mask(values=[_f(v) for v in case["values"]], pixel_scales=ps)
            else:
                m1 = aa.Mask1D(mask=mask.tolist() if case.get("explicit_defaults") else mask, pixel_scales=ps)
                a = aa.Array1D(values=self._k(_as_form(case["values"], form)), mask=m1)
        else:
            a = aa.Array1D(values=vals, mask=m1)
        self._k(a)
        hdu = self._k(a.hdu_for_output)
        obs = {"hdu": {"data": _data_json(hdu.data), "header": _cards(hdu.header)}}
        b = self._k(aa.Array1D.from_primary_hdu(hdu))
        obs["from_hdu"] = {"native": qlist(np.asarray(b.native.array, dtype="float64")),
                           "scales": qlist(b.pixel_scales)}
        path = self._paths(sb, case["path_style"], "a1.fits")
        a.output_to_fits(file_path=path, **({"overwrite": True} if case.get("overwrite") else {}))
        c = self._k(aa.Array1D.from_fits(file_path=path, pixel_scales=s))
        obs["from_file"] = qlist(np.asarray(c.native.array, dtype="float64"))
        obs["file_headers"] = _cards(c.header.header_sci_obj)
        if case.get("via_open"):
            with fits.open(path) as hl:
                bo = self._k(aa.Array1D.from_primary_hdu(hl[0]))
                obs["from_open_hdu"] = {"native": qlist(np.asarray(bo.native.array, dtype="float64")),
                                        "scales": qlist(bo.pixel_scales)}
        return obs

    def _impl_mask1d(self, aa, case, sb):
        from astropy.io import fits

        mask = np.array([c == "1" for c in case["bits"]], dtype=bool)
        s = _f(case["scale"])
        if case.get("mask_form"):
            ps = (s,) if case.get("scale_form") == "tuple" else ([s] if case.get("scale_form") == "list" else s)
            m1 = self._mask_in_form(aa, mask, ps, None, case["mask_form"], one_d=True)
        else:
            m1 = aa.Mask1D(mask=self._k(mask.copy()), pixel_scales=s)
        self._k(m1)
        hdu = self._k(m1.hdu_for_output)
        obs = {"hdu": {"data": _data_json(hdu.data), "header": _cards(hdu.header)}}
        b = self._k(aa.Mask1D.from_primary_hdu(hdu))
        obs["from_hdu"] = {"bits": "".join("1" if v else "0" for v in np.asarray(b)),
                           "scales": qlist(b.pixel_scales)}
        path = self._paths(sb, case["path_style"], "m1.fits")
        m1.output_to_fits(file_path=path, **({"overwrite": True} if case.get("overwrite") else {}))
        c = self._k(aa.Mask1D.from_fits(file_path=path, pixel_scales=s))
        obs["from_file"] = "".join("1" if v else "0" for v in np.asarray(c))
        if case.get("via_open"):
            with fits.open(path) as hl:
                bo = self._k(aa.Mask1D.from_primary_hdu(hl[0]))
                obs["from_open_hdu"] = {"bits": "".join("1" if v else "0" for v in np.asarray(bo)),
                                        "scales": qlist(bo.pixel_scales)}
        return obs

    def _impl_multi_hdu(self, aa, case, sb):
        from astropy.io import fits

        hl = fits.HDUList()
        for a in case["arrays"]:
            arr, _sc = self._build_array(aa, {**a, "kind": "array2d"})
            hl.append(self._k(arr.hdu_for_output))
        path = sb.path(["multi.fits"], "abs")
        hl.writeto(path, overwrite=bool(case.get("overwrite")))
        sc = (_f(case["scales"][0]), _f(case["scales"][1]))
        cls = aa.Kernel2D if case["reader"] == "kernel2d" else aa.Array2D
        b = self._k(cls.from_fits(file_path=path, pixel_scales=sc, hdu=case["read"]))
        return {"read": _read2d(b), "sci": _cards(b.header.header_sci_obj),
                "hdu": _cards(b.header.header_hdu_obj)}

    def _impl_imaging(self, aa, case, sb):
        h, w = case["shape"]
        sc = (_f(case["scales"][0]), _f(case["scales"][1]))
        data = self._k(aa.Array2D.no_mask(self._k(np.array([_f(v) for v in case["data"]]).reshape(h, w)),
                                          pixel_scales=sc))
        noise = self._k(aa.Array2D.no_mask(self._k(np.array([_f(v) for v in case["noise"]]).reshape(h, w)),
                                           pixel_scales=sc))
        psf = None
        if case["with_psf"]:
            kh, kw = case["psf_shape"]
            psf = self._k(aa.Kernel2D.no_mask(self._k(np.array([[float(v) for v in r]
                                                                 for r in _unit_kernel(kh, kw)])),
                                              pixel_scales=sc))
        im = aa.Imaging(data=data, noise_map=noise, psf=psf)
        self._k(im.data, im.noise_map, im.psf)
        st = case["path_style"]
        dp = self._paths(sb, st, "data.fits")
        npth = self._paths(sb, st, "noise_map.fits")
        pp = self._paths(sb, st, "psf.fits") if psf is not None else None
        im.output_to_fits(data_path=dp, psf_path=pp, noise_map_path=npth,
                          **({"overwrite": True} if case.get("overwrite") else {}))
        # second call without overwrite: only the `victim` file still exists, so the call must fail
        # at exactly that component (data, psf, noise map are written in this order)
        victim = case.get("victim", "data")
        if victim == "psf" and psf is None:
            victim = "data"
        for name, pth in (("data", dp), ("psf", pp), ("noise", npth)):
            if pth is not None and name != victim:
                os.remove(pth)
        second = None
        try:
            im.output_to_fits(data_path=dp, psf_path=pp, noise_map_path=npth)
        except Exception as e:
            second = _err_kind(e)
        if case.get("edit"):
            im.data[case["edit"]["data"][0]] = _f(case["edit"]["data"][1])
            im.noise_map[case["edit"]["noise"][0]] = _f(case["edit"]["noise"][1])
        im.output_to_fits(data_path=dp, psf_path=pp, noise_map_path=npth, overwrite=True)
        im2 = aa.Imaging.from_fits(pixel_scales=sc, data_path=dp, noise_map_path=npth, psf_path=pp)
        self._k(im2.data, im2.noise_map, im2.psf)
        obs = {"second_write": second, "data": _read2d(im2.data), "noise": _read2d(im2.noise_map)}
        if psf is not None:
            obs["psf"] = _read2d(im2.psf)
        return obs

    @staticmethod
    def _imaging_values(case, k):
        """the data / noise values the final (overwriting) call must write: with the in-place edit, if any"""
        vals = list(case[k])
        if case.get("edit"):
            i, v = case["edit"][k]
            vals[i] = v
        return vals

    # ------------------------------------------------------------------ round 5: ownership (R5-B)
    def _impl_own(self, aa, case, sb):
        base = case["base"]
        fn = getattr(self, "_impl_" + base["kind"])
        rounds = []
        for r in range(3):
            b = dict(base)
            if r > 0:
                b["overwrite"] = True  # the same paths again: the files of the previous round are replaced
            self._keep = []
            try:
                obs = fn(aa, b, sb)
                kept = self._keep
            finally:
                self._keep = None
            rounds.append(obs)
            seen = set()
            for x in kept:
                _scribble(x, case["scribble"][r % len(case["scribble"])], seen)
            del kept
        return {"rounds": rounds}

    # ------------------------------------------------------------------ round 5: options (R5-F)
    @staticmethod
    def _opt_kwargs(fn, wanted, explicit_all=False):
        """keyword arguments for `fn` taken from `wanted`, checked against the signature (a case whose option
        the API no longer has is skipped, not failed); with `explicit_all` every other optional parameter is
        passed explicitly at its default value"""
        import inspect

        sig = inspect.signature(fn)
        kw = {}
        for name, v in wanted.items():
            if name not in sig.parameters:
                raise Skip(f"{getattr(fn, '__qualname__', fn)} has no parameter {name!r}")
            kw[name] = v
        if explicit_all:
            for name, prm in sig.parameters.items():
                if prm.default is not inspect.Parameter.empty and name not in kw and \
                        prm.kind in (prm.POSITIONAL_OR_KEYWORD, prm.KEYWORD_ONLY):
                    kw[name] = prm.default
        return kw

    def _impl_opt_mask2d(self, aa, case, sb):
        from astropy.io import fits

        hl = fits.HDUList()
        for mk in case["masks"]:
            m = _bits2d(mk["mask"])
            sc = (_f(mk["scales"][0]), _f(mk["scales"][1]))
            mo = self._mask_in_form(aa, m, sc, None, "invert_ctor" if mk.get("ctor_invert") else None)
            hl.append(self._k(mo.hdu_for_output))
        path = sb.path(["m", "masks.fits"], case.get("path_style", "abs"))
        os.makedirs(os.path.dirname(os.path.abspath(path)), exist_ok=True)
        hl.writeto(path, overwrite=True)
        sc = (_f(case["scales"][0]), _f(case["scales"][1]))
        wanted = {}
        for k, v in case["opts"].items():
            if k == "origin":
                v = tuple(_f(x) for x in v)
            elif k == "resized_mask_shape" and v is not None:
                v = tuple(v)
            wanted[k] = v
        plain = {k: v for k, v in wanted.items() if k != "resized_mask_shape"}
        b = self._k(aa.Mask2D.from_fits(file_path=path, pixel_scales=sc,
                                        **self._opt_kwargs(aa.Mask2D.from_fits, plain, case.get("explicit_all"))))
        obs = {"read": _mask_obs(b), "scales": qlist(b.pixel_scales)}
        if wanted.get("resized_mask_shape") is not None:
            r = aa.Mask2D.from_fits(file_path=path, pixel_scales=sc,
                                    **self._opt_kwargs(aa.Mask2D.from_fits, wanted, case.get("explicit_all")))
            obs["resized"] = _mask_obs(r)
            ref = aa.Mask2D(mask=np.asarray(b).copy(), pixel_scales=sc).resized_from(
                new_shape=wanted["resized_mask_shape"])
            obs["resized_ref"] = _mask_obs(ref)
        elif "resized_mask_shape" in wanted:  # explicitly None
            r = aa.Mask2D.from_fits(file_path=path, pixel_scales=sc,
                                    **self._opt_kwargs(aa.Mask2D.from_fits, wanted, case.get("explicit_all")))
            obs["resized"] = _mask_obs(r)
            obs["resized_ref"] = _mask_obs(b)
        return obs

    @staticmethod
    def _kernel_expected(case):
        """(values written, values `from_fits` must return) of an opt_kernel case, exact"""
        vals = [Fraction(v) for v in case["values"]]
        tot = sum(vals, Fraction(0))
        written = [v / tot for v in vals] if case.get("ctor_normalize") else vals
        t2 = sum(written, Fraction(0))
        read = [v / t2 for v in written] if case.get("read_normalize") else written
        return written, read

    def _impl_opt_kernel(self, aa, case, sb):
        m = _bits2d(case["mask"])
        sc = (_f(case["scales"][0]), _f(case["scales"][1]))
        vals = np.array([_f(v) for v in case["values"]], dtype="float64")
        kw = {}
        if "ctor_normalize" in case:
            kw["normalize"] = case["ctor_normalize"]
        if case["ctor"] == "no_mask":
            if case.get("store_native"):
                a = aa.Kernel2D.no_mask(values=self._k(vals.reshape(m.shape)), pixel_scales=sc, **kw)
            else:
                a = aa.Kernel2D.no_mask(values=self._k(vals.copy()), shape_native=m.shape, pixel_scales=sc, **kw)
        else:
            mask = aa.Mask2D(mask=m, pixel_scales=sc)
            if case.get("store_native"):
                nat = np.full(m.shape, 77.0)
                nat[~m] = vals
                a = aa.Kernel2D(values=self._k(nat), mask=mask, store_native=True, **kw)
            else:
                a = aa.Kernel2D(values=self._k(vals.copy()), mask=mask, **kw)
        okw = {"origin": tuple(_f(v) for v in case["read_origin"])} if case.get("read_origin") else {}
        hdu = self._k(a.hdu_for_output)
        obs = {"hdu": {"data": _data_json(hdu.data), "header": _cards(hdu.header)}}
        obs["from_hdu"] = _read2d(self._k(aa.Kernel2D.from_primary_hdu(hdu, **okw)))
        path = self._paths(sb, case["path_style"], "kernel.fits")
        a.output_to_fits(file_path=path)
        rkw = dict(okw)
        if "read_normalize" in case:
            rkw["normalize"] = case["read_normalize"]
        b = self._k(aa.Kernel2D.from_fits(file_path=path, pixel_scales=sc, hdu=0,
                                          **self._opt_kwargs(aa.Kernel2D.from_fits, rkw)))
        obs["from_file"] = _read2d(b)
        obs["file_headers"] = {"sci": _cards(b.header.header_sci_obj), "hdu": _cards(b.header.header_hdu_obj)}
        return obs

    @staticmethod
    def _imaging_psf_expected(case):
        """the PSF values the dataset holds and writes: normalised unless use_normalized_psf is False"""
        if not case.get("psf"):
            return None
        vals = [Fraction(v) for v in case["psf"]["values"]]
        if case.get("use_normalized_psf", True):
            tot = sum(vals, Fraction(0))
            return [v / tot for v in vals]
        return vals

    def _impl_opt_imaging(self, aa, case, sb):
        from astropy.io import fits

        h, w = case["shape"]
        sc = (_f(case["scales"][0]), _f(case["scales"][1]))
        data = aa.Array2D.no_mask(self._k(np.array([_f(v) for v in case["data"]]).reshape(h, w)), pixel_scales=sc)
        noise = aa.Array2D.no_mask(self._k(np.array([_f(v) for v in case["noise"]]).reshape(h, w)), pixel_scales=sc)
        psf = None
        if case.get("psf"):
            kh, kw_ = case["psf"]["shape"]
            psf = aa.Kernel2D.no_mask(self._k(np.array([_f(v) for v in case["psf"]["values"]]).reshape(kh, kw_)),
                                      pixel_scales=sc)
        ckw = {k: case[k] for k in ("use_normalized_psf", "check_noise_map") if k in case}
        im = aa.Imaging(data=data, noise_map=noise, psf=psf, **self._opt_kwargs(aa.Imaging.__init__, ckw))
        st = case["path_style"]
        dp = self._paths(sb, st, "data.fits")
        npth = self._paths(sb, st, "noise_map.fits")
        pp = self._paths(sb, st, "psf.fits")
        okw = {}
        if case["psf_path"]:
            okw["psf_path"] = pp
        if case["noise_path"]:
            okw["noise_map_path"] = npth
        im.output_to_fits(data_path=dp, **self._opt_kwargs(im.output_to_fits, okw))
        psf_written = bool(case["psf_path"] and psf is not None)
        obs = {"exists": {"data": os.path.exists(dp), "psf": os.path.exists(pp), "noise": os.path.exists(npth)}}
        obs["data"] = _read2d(self._k(aa.Array2D.from_fits(file_path=dp, pixel_scales=sc)))
        if case["noise_path"] and os.path.exists(npth):
            obs["noise"] = _read2d(self._k(aa.Array2D.from_fits(file_path=npth, pixel_scales=sc)))
        if psf_written and os.path.exists(pp):
            obs["psf"] = _read2d(self._k(aa.Kernel2D.from_fits(file_path=pp, hdu=0, pixel_scales=sc)))
        # the dataset read back as a dataset (needs a noise map on disk)
        if case["noise_path"]:
            rkw = {}
            if case.get("check_noise_map") is False:
                rkw["check_noise_map"] = False
            if case["route"] == "combined":
                # data, noise map and PSF as HDUs of ONE file at scattered indices
                slots = [None] * 5
                i_d, i_n, i_p = case["hdus"]
                slots[i_d], slots[i_n] = im.data.hdu_for_output, im.noise_map.hdu_for_output
                if psf is not None:
                    slots[i_p] = im.psf.hdu_for_output
                hl = fits.HDUList()
                for k, sl in enumerate(slots):
                    hl.append(sl if sl is not None
                              else aa.Array2D.no_mask(np.array([[float(k), -1.0]]), pixel_scales=1.0).hdu_for_output)
                cp = sb.path(["combined.fits"], "abs")
                hl.writeto(cp, overwrite=True)
                rkw.update({"data_path": cp, "noise_map_path": cp, "data_hdu": i_d, "noise_map_hdu": i_n})
                if psf is not None:
                    rkw.update({"psf_path": cp, "psf_hdu": i_p})
                psf_read = psf is not None
            else:
                rkw.update({"data_path": dp, "noise_map_path": npth})
                if psf_written:
                    rkw["psf_path"] = pp
                psf_read = psf_written
            im2 = aa.Imaging.from_fits(pixel_scales=sc, **self._opt_kwargs(aa.Imaging.from_fits, rkw))
            obs["im_data"] = _read2d(im2.data)
            obs["im_noise"] = _read2d(im2.noise_map)
            exp = self._imaging_psf_expected(case)
            if psf_read and exp is not None and sum(exp, Fraction(0)) == 1:
                # Imaging normalises the PSF it is given: only a PSF that sums to exactly one comes back as is
                obs["im_psf"] = _read2d(im2.psf)
            obs["im_has_psf"] = im2.psf is not None
        return obs

    def _impl_opt_1d(self, aa, case, sb):
        from astropy.io import fits

        hl = fits.HDUList()
        for it in case["items"]:
            bits = np.array([c == "1" for c in it["bits"]], dtype=bool)
            s = _f(it["scale"])
            if it["kind"] == "mask1d":
                mo = self._mask_in_form(aa, bits, s, None, "invert_ctor" if it.get("ctor_invert") else None,
                                        one_d=True)
                hl.append(self._k(mo.hdu_for_output))
            else:
                m1 = aa.Mask1D(mask=bits, pixel_scales=s)
                vals = np.array([_f(v) for v in it["values"]], dtype="float64")
                if it.get("store_native"):
                    nat = np.full(bits.shape, 77.0)
                    nat[~bits] = vals
                    a = aa.Array1D(values=nat, mask=m1, store_native=True)
                else:
                    a = aa.Array1D(values=vals, mask=m1)
                hl.append(self._k(a.hdu_for_output))
        path = sb.path(["one_d.fits"], case.get("path_style", "abs"))
        hl.writeto(path, overwrite=True)
        k = case["opts"]["hdu"]
        it = case["items"][k]
        s = _f(case["scale"])
        wanted = dict(case["opts"])
        if "origin" in wanted:
            wanted["origin"] = tuple(_f(x) for x in wanted["origin"])
        if it["kind"] == "mask1d":
            b = aa.Mask1D.from_fits(file_path=path, pixel_scales=s,
                                    **self._opt_kwargs(aa.Mask1D.from_fits, wanted, case.get("explicit_all")))
            return {"read": "".join("1" if v else "0" for v in np.asarray(b)), "scales": qlist(b.pixel_scales)}
        b = aa.Array1D.from_fits(file_path=path, pixel_scales=s,
                                 **self._opt_kwargs(aa.Array1D.from_fits, wanted, case.get("explicit_all")))
        return {"read": qlist(np.asarray(b.native.array, dtype="float64")), "scales": qlist(b.pixel_scales),
                "sci": _cards(b.header.header_sci_obj), "hdu": _cards(b.header.header_hdu_obj)}

    # content of history step `cid` written through writer `w`: small, asymmetric, encodes cid
    def _content(self, aa, cid, writer):
        if writer in ("array2d", "kernel2d"):
            vals = np.array([[cid, cid + 0.5, -cid], [cid + 0.25, 0.0, 1.0]])
            cls = aa.Kernel2D if writer == "kernel2d" else aa.Array2D
            return cls.no_mask(vals, pixel_scales=(1.0, 2.0))
        if writer == "mask2d":
            m = np.ones((2, cid + 1), dtype=bool)
            m[0, 0] = False
            return aa.Mask2D(mask=m, pixel_scales=1.0)
        if writer == "array1d":
            return aa.Array1D.no_mask([cid, cid + 0.5, 3.0], pixel_scales=0.5)
        m = np.ones(cid + 2, dtype=bool)
        m[1] = False
        return aa.Mask1D(mask=m, pixel_scales=0.5)

    def _expected_file_data(self, aa, cid, writer, flip):
        obj = self._content(aa, cid, writer)
        if writer in ("array2d", "kernel2d"):
            d = np.asarray(obj.native.array, dtype="float64")
            return np.flipud(d) if flip else d
        if writer == "mask2d":
            d = np.asarray(obj).astype("float64")
            return np.flipud(d) if flip else d
        if writer == "array1d":
            return np.asarray(obj.native.array, dtype="float64")
        return np.asarray(obj).astype("float64")

    def _impl_fs_history(self, aa, case, sb):
        from astropy.io import fits

        style = case["path_style"]
        writers = {}
        for d in case["dirs"]:
            os.makedirs(sb.path(d, "abs"), exist_ok=True)
        for p, cid in case["files"]:
            writers[cid] = "array2d"
            self._content(aa, cid, "array2d").output_to_fits(file_path=sb.path(p, "abs"))
        results = []
        for s in case["steps"]:
            writers[s["content"]] = s["writer"]
            obj = self._content(aa, s["content"], s["writer"])
            try:
                obj.output_to_fits(file_path=sb.path(s["path"], style), overwrite=s["overwrite"])
                results.append(None)
            except Exception as e:
                results.append(_err_kind(e))
        files, dirs = [], []
        for root, dnames, fnames in os.walk(sb.dir):
            rel = os.path.relpath(root, sb.dir)
            comps = [] if rel == "." else rel.split(os.sep)
            for d in dnames:
                dirs.append(comps + [d])
            for fn in fnames:
                with fits.open(os.path.join(root, fn)) as hl:
                    got = np.array(hl[0].data, dtype="float64")
                    n_hdus = len(hl)
                ident = "unknown"
                for cid, wkind in writers.items():
                    exp = self._expected_file_data(aa, cid, wkind, case["flip"])
                    if n_hdus == 1 and exp.shape == got.shape and np.array_equal(exp, got):
                        ident = cid
                        break
                files.append([comps + [fn], ident])
        return {"results": results, "files": sorted(files, key=lambda e: e[0]), "dirs": sorted(dirs)}

    # ------------------------------------------------------------------ model
    def model_requests(self, case, impl_obs):
        kind = case["kind"]
        if kind == "big":
            return []  # judged by the oracle alone (vectorised, exact)
        if kind == "hist":
            return [r for _i, _part, r in self._hist_requests(case)[0]]
        if kind == "own":
            return self.model_requests(case["base"], None)
        if kind == "opt_mask2d":
            mk = case["masks"][case["opts"]["hdu"]]
            return [{"op": "c16.mask2d", "mask": mk["mask"], "scales": mk["scales"], "flip": case["flip"],
                     "invert": bool(case["opts"].get("invert", False))}]
        if kind == "opt_kernel":
            written, _read = self._kernel_expected(case)
            return [{"op": "c16.array2d", "mask": case["mask"], "values": qlist(written), "scales": case["scales"],
                     "flip": case["flip"]}]
        if kind == "opt_imaging":
            h, w = case["shape"]
            full = {"h": h, "w": w, "bits": "0" * (h * w)}
            reqs = [{"op": "c16.array2d", "mask": full, "values": case[k], "scales": case["scales"],
                     "flip": case["flip"]} for k in ("data", "noise")]
            exp = self._imaging_psf_expected(case)
            if exp is not None:
                kh, kw = case["psf"]["shape"]
                reqs.append({"op": "c16.array2d", "mask": {"h": kh, "w": kw, "bits": "0" * (kh * kw)},
                             "values": qlist(exp), "scales": case["scales"], "flip": case["flip"]})
            return reqs
        if kind == "opt_1d":
            it = case["items"][case["opts"]["hdu"]]
            if it["kind"] == "mask1d":
                return [{"op": "c16.mask1d", "bits": it["bits"], "scale": it["scale"]}]
            return [{"op": "c16.array1d", "bits": it["bits"], "values": it["values"], "scale": it["scale"]}]
        if kind in ("array2d", "kernel2d"):
            req = {"op": "c16.array2d", "mask": case["mask"], "values": case["values"],
                   "scales": case["scales"], "flip": case["flip"]}
            if case.get("junk"):
                req["stored_native"] = qlist(self._stored_native(case))
            return [req]
        if kind == "mask2d":
            return [{"op": "c16.mask2d", "mask": case["mask"], "scales": case["scales"], "flip": case["flip"],
                     "invert": case.get("invert", False)}]
        if kind == "array1d":
            req = {"op": "c16.array1d", "bits": case["bits"], "values": case["values"], "scale": case["scale"]}
            if case.get("junk"):
                req["stored_native"] = qlist(self._stored_native_1d(case))
            return [req]
        if kind == "mask1d":
            return [{"op": "c16.mask1d", "bits": case["bits"], "scale": case["scale"]}]
        if kind == "multi_hdu":
            return [{"op": "c16.multi_hdu", "flip": case["flip"], "arrays": case["arrays"],
                     "read": case["read"], "scales": case["scales"]}]
        if kind == "imaging":
            h, w = case["shape"]
            full = {"h": h, "w": w, "bits": "0" * (h * w)}
            reqs = [{"op": "c16.array2d", "mask": full, "values": self._imaging_values(case, k),
                     "scales": case["scales"], "flip": case["flip"]} for k in ("data", "noise")]
            if case["with_psf"]:
                kh, kw = case["psf_shape"]
                reqs.append({"op": "c16.array2d", "mask": {"h": kh, "w": kw, "bits": "0" * (kh * kw)},
                             "values": qlist([v for r in _unit_kernel(kh, kw) for v in r]),
                             "scales": case["scales"], "flip": case["flip"]})
            # the second (non-overwriting) call: a history on a state where only the victim file exists
            victim = case.get("victim", "data")
            if victim == "psf" and not case["with_psf"]:
                victim = "data"
            order = ["data"] + (["psf"] if case["with_psf"] else []) + ["noise"]
            reqs.append({"op": "c16.fs_history", "files": [[[victim + ".fits"], 1]],
                         "steps": [{"path": [n + ".fits"], "overwrite": False, "content": 2 + i}
                                   for i, n in enumerate(order)]})
            return reqs
        if kind == "fs_history":
            return [{"op": "c16.fs_history", "dirs": case["dirs"], "files": case["files"],
                     "steps": [{"path": s["path"], "overwrite": s["overwrite"], "content": s["content"]}
                               for s in case["steps"]]}]
        raise ValueError(kind)

    def model_obs(self, case, responses):
        for r in responses:
            if "err" in r:
                return {"err": r["err"]}
        kind = case["kind"]
        if kind == "hist":
            return self._hist_model_obs(case, responses)
        if kind == "own":
            return self.model_obs(case["base"], responses)
        if kind == "opt_kernel":
            r = dict(responses[0]["ok"])
            if case.get("read_normalize") and not case.get("ctor_normalize"):
                # `from_fits(normalize=True)` divides what the file holds by its sum (a power of two here)
                tot = sum((Fraction(v) for v in case["values"]), Fraction(0))
                ff = dict(r["from_file"])
                ff["native"] = qlist([Fraction(v) / tot for v in ff["native"]])
                ff["slim"] = qlist([Fraction(v) / tot for v in ff["slim"]])
                r["from_file"] = ff
            return r
        if kind == "opt_imaging":
            out = {"data": responses[0]["ok"]["from_file"], "noise": responses[1]["ok"]["from_file"]}
            if len(responses) > 2:
                out["psf"] = responses[2]["ok"]["from_file"]
            return out
        if kind == "opt_mask2d":
            return {"read": responses[0]["ok"]["from_file"]}
        if kind == "opt_1d":
            return {"read": responses[0]["ok"]["from_file"]}
        r = responses[0]["ok"]
        if kind in ("array2d", "kernel2d"):
            return r
        if kind == "mask2d":
            return r
        if kind in ("array1d", "mask1d", "multi_hdu"):
            return r
        if kind == "imaging":
            out = {"second_write": next((r for r in responses[-1]["ok"]["results"] if r is not None), None),
                   "data": responses[0]["ok"]["from_file"], "noise": responses[1]["ok"]["from_file"]}
            if case["with_psf"]:
                out["psf"] = responses[2]["ok"]["from_file"]
            return out
        if kind == "fs_history":
            return {"results": r["results"], "files": sorted(r["files"], key=lambda e: e[0]),
                    "dirs": sorted(r["dirs"])}
        raise ValueError(kind)

    def compare(self, case, impl_obs, model_obs, cmp):
        if isinstance(impl_obs, dict) and "err" in impl_obs and len(impl_obs) <= 2:
            return cmp.diff(impl_obs, model_obs)
        kind = case["kind"]
        if kind == "hist":
            if isinstance(model_obs, dict) and "err" in model_obs:
                return f"model: {model_obs}"
            return self._hist_compare(case, impl_obs, model_obs, cmp)
        if kind == "own":
            if isinstance(model_obs, dict) and "err" in model_obs:
                return f"model: {model_obs}"
            for r, o in enumerate(impl_obs["rounds"]):
                d = self.compare(case["base"], o, model_obs, cmp)
                if d:
                    return f"round {r}: {d}"
            return None
        if kind in ("opt_mask2d", "opt_1d"):
            return cmp.diff(impl_obs["read"], model_obs["read"], "$.read")
        if kind == "opt_imaging":
            for k in ("data", "noise", "psf"):
                for ik in (k, "im_" + k):
                    if ik in impl_obs:
                        if k not in model_obs:
                            return f"$.{ik}: the implementation produced a {k} the model has none of"
                        d = cmp.diff(impl_obs[ik], model_obs[k], "$." + ik)
                        if d:
                            return d
            return None
        io = dict(impl_obs)
        # (round 5) the HDU as astropy reads it back from the file must decode like the HDU that was written
        fo = io.pop("from_open_hdu", None)
        if fo is not None and isinstance(model_obs, dict) and "from_hdu" in model_obs:
            d = cmp.diff(fo, model_obs["from_hdu"], "$.from_open_hdu")
            if d:
                return d
        if kind == "mask2d":
            for k in ("resized", "resized_ref", "from_file_scales"):
                io.pop(k, None)
        if kind == "array1d":
            io.pop("file_headers", None)
        if kind == "fs_history":
            # the sandbox directories of path styles ("out", "sub1"…) do not occur in histories
            pass
        return cmp.diff(io, model_obs)

    # ------------------------------------------------------------------ oracle
    @staticmethod
    def _scales_from_cards(cards):
        d = {k: Fraction(v) for k, v in cards}
        if "PIXSCALE" in d:
            return [d["PIXSCALE"], d["PIXSCALE"]]
        if "PIXSCALEY" in d and "PIXSCALEX" in d:
            return [d["PIXSCALEY"], d["PIXSCALEX"]]
        return None

    @staticmethod
    def _native_expected(mj, values):
        bits = [c == "1" for c in mj["bits"]]
        it = iter(values)
        return [Fraction(0) if b else Fraction(next(it)) for b in bits]

    def _check_read2d(self, name, r, h, w, exp_native, scales):
        if r["shape"] != [h, w]:
            return f"{name}: shape {r['shape']} != {[h, w]}"
        if [Fraction(v) for v in r["native"]] != exp_native:
            return f"{name}: native values differ from the written ones (zeros at masked pixels)"
        if [Fraction(v) for v in r["slim"]] != exp_native:
            return f"{name}: slim values of the unmasked read-back array differ"
        if "1" in r["mask_bits"]:
            return f"{name}: read-back array is masked"
        if scales is not None and [Fraction(v) for v in r["scales"]] != scales:
            return f"{name}: pixel scales {r['scales']} != written {[str(s) for s in scales]}"
        return None

    def oracle(self, case, obs):
        try:
            return self._oracle(case, obs)
        except (ValueError, ZeroDivisionError) as e:
            # "nan" / "inf" where a number is expected: never a legitimate output (inputs are finite)
            if "Fraction" in str(e) or "nan" in str(e) or "inf" in str(e):
                return False, f"the output holds non-finite numbers where the written values are expected ({e})"
            raise

    def _oracle(self, case, obs):
        if isinstance(obs, dict) and "err" in obs and len(obs) <= 2:
            return False, f"implementation raised {obs}"
        kind = case["kind"]
        flip = case["flip"]
        if kind == "hist":
            return self._hist_oracle(case, obs)
        if kind == "big":
            return self._big_oracle(case, obs)
        if kind == "own":
            for r, o in enumerate(obs["rounds"]):
                ok, why = self.oracle(case["base"], o)
                if not ok:
                    return False, (f"round {r} (a fresh, equal world built after every array / HDU / header the API "
                                   f"had returned or been given was overwritten in place): {why}")
            return True, ""
        if kind == "opt_mask2d":
            return self._oracle_opt_mask2d(case, obs)
        if kind == "opt_kernel":
            return self._oracle_opt_kernel(case, obs)
        if kind == "opt_imaging":
            return self._oracle_opt_imaging(case, obs)
        if kind == "opt_1d":
            return self._oracle_opt_1d(case, obs)
        if kind in ("array2d", "kernel2d"):
            mj = case["mask"]
            h, w = mj["h"], mj["w"]
            exp = self._native_expected(mj, case["values"])
            scales = [Fraction(v) for v in case["scales"]]
            rows = [exp[y * w:(y + 1) * w] for y in range(h)]
            want = rows[::-1] if flip else rows
            got = [[Fraction(v) for v in r] for r in obs["hdu"]["data"]]
            if got != want:
                return False, "HDU data is not the native array " + ("flipped upside-down" if flip else "as is")
            hs = self._scales_from_cards(obs["hdu"]["header"])
            if hs != scales:
                return False, f"HDU header encodes pixel scales {hs}, object has {scales}"
            for name in ("from_hdu", "from_file", "from_open_hdu"):
                if name in obs:
                    d = self._check_read2d(name, obs[name], h, w, exp, scales)
                    if d:
                        return False, d
            for k in ("sci", "hdu"):
                if self._scales_from_cards(obs["file_headers"][k]) != scales:
                    return False, f"header ({k}) of the file does not carry the pixel scales written"
            return True, ""
        if kind == "mask2d":
            mj = case["mask"]
            h, w = mj["h"], mj["w"]
            scales = [Fraction(v) for v in case["scales"]]
            bits = [c == "1" for c in mj["bits"]]
            rows = [[Fraction(1 if b else 0) for b in bits[y * w:(y + 1) * w]] for y in range(h)]
            want = rows[::-1] if flip else rows
            if [[Fraction(v) for v in r] for r in obs["hdu"]["data"]] != want:
                return False, "mask HDU data is not the mask (as floats) " + ("flipped" if flip else "as is")
            if self._scales_from_cards(obs["hdu"]["header"]) != scales:
                return False, "mask HDU header does not carry the pixel scales"
            if obs["from_hdu"]["mask"] != {"h": h, "w": w, "bits": mj["bits"]}:
                return False, "mask read back from the HDU differs"
            if [Fraction(v) for v in obs["from_hdu"]["scales"]] != scales:
                return False, f"mask read back from the HDU has pixel scales {obs['from_hdu']['scales']}"
            if "from_open_hdu" in obs and (obs["from_open_hdu"]["mask"] != {"h": h, "w": w, "bits": mj["bits"]}
                                           or [Fraction(v) for v in obs["from_open_hdu"]["scales"]] != scales):
                return False, "mask read back from the HDU astropy loads from the written file differs"
            if "from_file_scales" in obs and [Fraction(v) for v in obs["from_file_scales"]] != scales:
                return False, f"mask read from the file has pixel scales {obs['from_file_scales']}, not the ones given"
            inv = case.get("invert", False)
            eb = "".join(("0" if c == "1" else "1") if inv else c for c in mj["bits"])
            if obs["from_file"] != {"h": h, "w": w, "bits": eb}:
                return False, f"mask read back from the file differs (invert={inv})"
            if "resized" in obs and obs["resized"] != obs["resized_ref"]:
                return False, "from_fits(resized_mask_shape=S) != resized_from(S) of the written mask"
            return True, ""
        if kind == "array1d":
            mask = [c == "1" for c in case["bits"]]
            it = iter(case["values"])
            exp = [Fraction(0) if b else Fraction(next(it)) for b in mask]
            s = Fraction(case["scale"])
            if [Fraction(v) for v in obs["hdu"]["data"]] != exp:
                return False, "1-D HDU data is not the native 1-D array with zeros at masked entries (1-D data are never flipped)"
            if [Fraction(v) for v in obs["from_hdu"]["native"]] != exp:
                return False, "1-D array read back from the HDU differs"
            if [Fraction(v) for v in obs["from_hdu"]["scales"]] != [s]:
                return False, "1-D pixel scale read back from the HDU header differs"
            if [Fraction(v) for v in obs["from_file"]] != exp:
                return False, "1-D array read back from the file differs"
            if (self._scales_from_cards(obs["file_headers"]) or [None])[0] != s:
                return False, "1-D file header does not carry the pixel scale"
            if "from_open_hdu" in obs and ([Fraction(v) for v in obs["from_open_hdu"]["native"]] != exp
                                           or [Fraction(v) for v in obs["from_open_hdu"]["scales"]] != [s]):
                return False, "1-D array read back from the HDU astropy loads from the written file differs"
            return True, ""
        if kind == "mask1d":
            s = Fraction(case["scale"])
            exp = [Fraction(1 if c == "1" else 0) for c in case["bits"]]
            if [Fraction(v) for v in obs["hdu"]["data"]] != exp:
                return False, "1-D mask HDU data differs from the mask"
            if obs["from_hdu"]["bits"] != case["bits"] or obs["from_file"] != case["bits"]:
                return False, "1-D mask read back differs"
            if [Fraction(v) for v in obs["from_hdu"]["scales"]] != [s]:
                return False, "1-D mask pixel scale read back from the header differs"
            if "from_open_hdu" in obs and (obs["from_open_hdu"]["bits"] != case["bits"]
                                           or [Fraction(v) for v in obs["from_open_hdu"]["scales"]] != [s]):
                return False, "1-D mask read back from the HDU astropy loads from the written file differs"
            return True, ""
        if kind == "multi_hdu":
            a = case["arrays"][case["read"]]
            mj = a["mask"]
            exp = self._native_expected(mj, a["values"])
            d = self._check_read2d("read", obs["read"], mj["h"], mj["w"], exp,
                                   [Fraction(v) for v in case["scales"]])
            if d:
                return False, d
            if self._scales_from_cards(obs["hdu"]) != [Fraction(v) for v in a["scales"]]:
                return False, "header of the HDU read does not carry that array's pixel scales"
            if self._scales_from_cards(obs["sci"]) != [Fraction(v) for v in case["arrays"][0]["scales"]]:
                return False, "header of HDU 0 does not carry the first array's pixel scales"
            return True, ""
        if kind == "imaging":
            h, w = case["shape"]
            scales = [Fraction(v) for v in case["scales"]]
            if obs["second_write"] != "exists_no_overwrite":
                return False, f"second write without overwrite did not fail (got {obs['second_write']})"
            for k, vals in (("data", self._imaging_values(case, "data")),
                            ("noise", self._imaging_values(case, "noise"))):
                d = self._check_read2d(k, obs[k], h, w, [Fraction(v) for v in vals], scales)
                if d:
                    return False, d
            if case["with_psf"]:
                kh, kw = case["psf_shape"]
                d = self._check_read2d("psf", obs["psf"], kh, kw,
                                       [v for r in _unit_kernel(kh, kw) for v in r], scales)
                if d:
                    return False, d
            return True, ""
        if kind == "fs_history":
            files = {tuple(p): c for p, c in case["files"]}
            dirs = {tuple(d) for d in case["dirs"]}
            for s, res in zip(case["steps"], obs["results"]):
                p = tuple(s["path"])
                existed = p in files
                if existed and not s["overwrite"]:
                    if res != "exists_no_overwrite":
                        return False, f"write to existing {'/'.join(p)} without overwrite did not fail ({res})"
                    continue
                if res is not None:
                    return False, (f"write to {'/'.join(p)} (existed={existed}, overwrite={s['overwrite']}) "
                                   f"failed with {res}")
                files[p] = s["content"]
                for k in range(1, len(p)):
                    dirs.add(p[:k])
            got_files = {tuple(p): c for p, c in obs["files"]}
            if got_files != files:
                return False, f"files after the history {got_files} != expected {files}"
            if {tuple(d) for d in obs["dirs"]} != dirs:
                return False, f"directories after the history {obs['dirs']} != expected {sorted(dirs)}"
            return True, ""
        return True, ""

    # ---- round 5: oracles of the option kinds (independent restatement, Fractions only)
    def _oracle_opt_mask2d(self, case, obs):
        o = case["opts"]
        mk = case["masks"][o["hdu"]]
        mj = mk["mask"]
        inv = bool(o.get("invert", False))
        eb = "".join(("0" if c == "1" else "1") if inv else c for c in mj["bits"])
        if obs["read"] != {"h": mj["h"], "w": mj["w"], "bits": eb}:
            return False, (f"Mask2D.from_fits(hdu={o['hdu']}, invert={inv}) of a file of {len(case['masks'])} mask "
                           f"HDUs did not return the mask written as HDU {o['hdu']}" + (" inverted" if inv else ""))
        if [Fraction(v) for v in obs["scales"]] != [Fraction(v) for v in case["scales"]]:
            return False, f"mask read from the file has pixel scales {obs['scales']}, not the ones given"
        if "resized" in obs and obs["resized"] != obs["resized_ref"]:
            return False, ("from_fits(resized_mask_shape=S, ...) != from_fits(...).resized_from(S) "
                           f"(options {o})")
        return True, ""

    def _oracle_opt_kernel(self, case, obs):
        mj = case["mask"]
        h, w = mj["h"], mj["w"]
        written, read = self._kernel_expected(case)
        expw = self._native_expected(mj, written)
        expr = self._native_expected(mj, read)
        scales = [Fraction(v) for v in case["scales"]]
        rows = [expw[y * w:(y + 1) * w] for y in range(h)]
        want = rows[::-1] if case["flip"] else rows
        what = (f"(constructor {case['ctor']}, normalize={case.get('ctor_normalize', 'default')}, "
                f"store_native={case.get('store_native')})")
        if [[Fraction(v) for v in r] for r in obs["hdu"]["data"]] != want:
            return False, "kernel HDU data is not the kernel's native array " + what
        if self._scales_from_cards(obs["hdu"]["header"]) != scales:
            return False, "kernel HDU header does not carry the pixel scales"
        d = self._check_read2d("from_hdu", obs["from_hdu"], h, w, expw, scales)
        if d:
            return False, d + " " + what
        d = self._check_read2d(f"from_file (normalize={case.get('read_normalize', 'default')})", obs["from_file"],
                               h, w, expr, scales)
        if d:
            return False, d + " " + what
        return True, ""

    def _oracle_opt_imaging(self, case, obs):
        h, w = case["shape"]
        scales = [Fraction(v) for v in case["scales"]]
        has_psf = bool(case.get("psf"))
        want_exists = {"data": True, "psf": bool(case["psf_path"] and has_psf), "noise": bool(case["noise_path"])}
        if obs["exists"] != want_exists:
            return False, (f"files on disk after Imaging.output_to_fits {obs['exists']}, expected {want_exists} "
                           f"(psf_path given: {case['psf_path']}, noise_map_path given: {case['noise_path']})")
        exp = {"data": [Fraction(v) for v in case["data"]], "noise": [Fraction(v) for v in case["noise"]]}
        shapes = {"data": (h, w), "noise": (h, w)}
        pe = self._imaging_psf_expected(case)
        if pe is not None:
            exp["psf"] = pe
            shapes["psf"] = tuple(case["psf"]["shape"])
        for k in ("data", "noise", "psf"):
            for ik in (k, "im_" + k):
                if ik in obs:
                    if k not in exp:
                        return False, f"{ik}: a PSF came back although the dataset has none"
                    d = self._check_read2d(ik, obs[ik], shapes[k][0], shapes[k][1], exp[k], scales)
                    if d:
                        return False, d + (f" (use_normalized_psf={case.get('use_normalized_psf', 'default')})"
                                           if k == "psf" else "")
        if want_exists["noise"] and "noise" not in obs:
            return False, "noise map file missing"
        if want_exists["psf"] and "psf" not in obs:
            return False, "psf file missing"
        if "im_has_psf" in obs:
            exp_psf = has_psf if case["route"] == "combined" else want_exists["psf"]
            if obs["im_has_psf"] != exp_psf:
                return False, f"Imaging.from_fits returned psf present={obs['im_has_psf']}, expected {exp_psf}"
        return True, ""

    def _oracle_opt_1d(self, case, obs):
        k = case["opts"]["hdu"]
        it = case["items"][k]
        if it["kind"] == "mask1d":
            if obs["read"] != it["bits"]:
                return False, f"Mask1D.from_fits(hdu={k}) did not return the mask written as HDU {k}"
        else:
            itv = iter(it["values"])
            exp = [Fraction(0) if c == "1" else Fraction(next(itv)) for c in it["bits"]]
            if [Fraction(v) for v in obs["read"]] != exp:
                return False, f"Array1D.from_fits(hdu={k}) did not return the array written as HDU {k}"
            if (self._scales_from_cards(obs["hdu"]) or [None])[0] != Fraction(it["scale"]):
                return False, "header of the HDU read does not carry that array's pixel scale"
            if (self._scales_from_cards(obs["sci"]) or [None])[0] != Fraction(case["items"][0]["scale"]):
                return False, "header of HDU 0 does not carry the first object's pixel scale"
        if [Fraction(v) for v in obs["scales"]] != [Fraction(case["scale"])]:
            return False, f"1-D object read from the file has pixel scales {obs['scales']}, not the one given"
        return True, ""

    # ------------------------------------------------------------------ bookkeeping
    def nontrivial(self, case, obs):
        kind = case["kind"]
        if kind == "own":
            return True
        if kind.startswith("opt_"):
            return True
        if case.get("junk"):
            return True
        if kind == "hist":
            return sum(1 for s in case["steps"] if s["op"] in ("hdu", "read_hdu", "read", "write")) >= 2
        if kind == "big":
            return case["h"] * case["w"] >= 2
        if kind in ("array2d", "kernel2d", "mask2d"):
            mj = case["mask"]
            h, w = mj["h"], mj["w"]
            if h == 1 or w == 1:
                return True
            if kind == "mask2d":
                rows = [mj["bits"][y * w:(y + 1) * w] for y in range(h)]
            else:
                nat = self._native_expected(mj, case["values"])
                rows = [nat[y * w:(y + 1) * w] for y in range(h)]
            return rows != rows[::-1]
        if kind == "fs_history":
            seen = {tuple(p) for p, _ in case["files"]}
            for s in case["steps"]:
                if tuple(s["path"]) in seen:
                    return True
                seen.add(tuple(s["path"]))
            return False
        return True

    def known_finding(self, case, obs):
        return None

    def shrink(self, case):
        kind = case["kind"]
        if kind == "big":
            yield from self._big_shrink(case)
            return
        if kind == "own":
            for b2 in self.shrink(case["base"]):
                yield {**case, "base": b2}
            return
        if kind == "opt_mask2d":
            o = case["opts"]
            for k in ("origin", "resized_mask_shape", "invert"):
                if k in o:
                    yield {**case, "opts": {kk: v for kk, v in o.items() if kk != k}}
            if case.get("explicit_all"):
                yield {**case, "explicit_all": False}
            return
        if kind == "hist":
            steps = case["steps"]
            # a prefix of a history is a history; then single steps that nothing later depends on
            for n in (len(steps) // 2, len(steps) - 1):
                if 1 <= n < len(steps):
                    yield {**case, "steps": steps[:n]}
            for i in range(len(steps) - 1):
                c2 = {**case, "steps": steps[:i] + steps[i + 1:]}
                if _HistSim.valid(c2):
                    yield c2
            if case.get("path_style") != "abs":
                yield {**case, "path_style": "abs"}
            return
        if kind == "fs_history":
            steps = case["steps"]
            for i in range(len(steps)):
                if len(steps) > 1:
                    yield {**case, "steps": steps[:i] + steps[i + 1:]}
            if case["files"]:
                yield {**case, "files": case["files"][1:]}
            if case["dirs"] and not case["files"]:
                yield {**case, "dirs": []}
            return
        if kind in ("array2d", "kernel2d"):
            mj = case["mask"]
            h, w = mj["h"], mj["w"]
            if "1" in mj["bits"]:
                # unmask everything (keeps the shape), values renumbered
                yield {**case, "mask": {"h": h, "w": w, "bits": "0" * (h * w)},
                       "values": qlist(range(1, h * w + 1))}
            if h > 1 and "1" not in mj["bits"]:
                yield {**case, "mask": {"h": h - 1, "w": w, "bits": "0" * ((h - 1) * w)},
                       "values": case["values"][: (h - 1) * w]}
            if w > 1 and "1" not in mj["bits"]:
                vals = [v for i, v in enumerate(case["values"]) if i % w != w - 1]
                yield {**case, "mask": {"h": h, "w": w - 1, "bits": "0" * (h * (w - 1))}, "values": vals}
            if case.get("store_native"):
                yield {**case, "store_native": False}
            if case.get("path_style") != "abs":
                yield {**case, "path_style": "abs"}

    def theorems_for(self, case):
        kind = case["kind"]
        if kind == "own":
            return self.theorems_for(case["base"])
        if kind in ("hist", "big"):
            kind = {"array1d": "array1d", "mask1d": "mask1d", "mask2d": "mask2d"}.get(case["obj"], "array2d")
        if kind == "opt_mask2d":
            kind = "mask2d"
        if kind == "opt_1d":
            kind = case["items"][case["opts"]["hdu"]]["kind"]
        return {
            "fs_history": ["C16.history_semantics", "C16.output_overwrite_semantics", "C16.output_error_iff",
                           "C16.bare_name_cwd"],
            "mask2d": ["C16.mask2d_hdu_roundtrip", "C16.mask2d_file_roundtrip"],
            "array1d": ["C16.array1d_roundtrip", "C16.native_stored_1d_written_zero_filled"], "mask1d": ["C16.mask1d_roundtrip"],
        }.get(kind, ["C16.native_stored_written_zero_filled", "C16.array2d_hdu_roundtrip", "C16.array2d_file_roundtrip", "C16.scales_header_roundtrip",
                      "C16.flip_undone", "C16.output_is_flipped", "C16.masked_pixels_read_zero",
                      "C16.output_to_fits_then_from_fits"])

    def sample_view(self, case):
        return {k: v for k, v in case.items() if not k.startswith("_")}


CHECK = C16()
